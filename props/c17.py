"""C17 — Python results equal the results of the core library on the same data.

The implementation side is the crate /verif/pyharness (binary `lmpy`: embedded CPython 3.11 with
the extension module built from the repository's working tree registered as `lightmotif.lib`, plus
the helper module `lmcore` that runs the core Rust library on the same data in the same process).
The generic flow of vlib/runner.py is used unchanged; only the cargo build step is replaced by a
build of that crate (props/c17.py:build_lmpy), which honours VERIF_REPO like vlib does for the
ordinary harness crate."""
import os
import shutil

from props import e2e
from translate import pyglue_sig
from vlib import common as C
from vlib import runner

PY = os.path.join(C.VERIF, "pyharness", "py")


def build_lmpy(_bin_name=None, **_kw):
    """cargo build of /verif/pyharness against the repository's working tree (path deps)."""
    h = C.harness_dir("pyharness")
    lock = os.path.join(h, "Cargo.lock")
    src_lock = os.path.join(C.VERIF, "pyharness", "Cargo.lock")
    if not os.path.exists(lock) and os.path.exists(src_lock):
        shutil.copy(src_lock, lock)
    env = dict(C.ENV)
    target = os.path.join(C.BUILD, "cargo-py") if C.ALT is None else os.path.join(C.BUILD, C.ALT, "cargo-py")
    env["CARGO_TARGET_DIR"] = target
    with C.Lock("cargo-py" if C.ALT is None else "cargo-py-" + C.ALT):
        cmd = "cargo build --offline --bin lmpy"
        rc, out = C.sh(cmd, cwd=h, timeout=2400, env=env)
        if rc != 0 and "lock file" in out:
            try:
                os.unlink(lock)
            except OSError:
                pass
            rc, out = C.sh(cmd, cwd=h, timeout=2400, env=env)
    return dict(ok=(rc == 0), log=out, path=os.path.join(target, "debug", "lmpy"))


def _ops(line):
    for t in line.split(" ")[1:]:
        if t.startswith("h="):
            return [o for o in t[2:].split(";") if o]
    return []


USES = {  # op -> indices of fields naming an existing object (slot numbers or V<slot>. values)
    "nz": [2], "lo": [2], "ca": [2, 3], "th": [1], "mx": [1], "am": [1], "pv": [1], "sv": [1], "ms": [1],
    "rc": [2], "sn": [2, 3], "sc": [2, 3], "nx": [1], "gm": [2], "gl": [2], "dl": [1], "et": [2], "cp": [2], "eq": [1, 2], "sr": [1], "sd": [2], "ll": [2], "ln": [1], "mt": [1],
}


def nontrivial(line):
    """distinct history in which some object receives at least two calls"""
    ops = _ops(line)
    cnt = {}
    for o in ops:
        f = o.split(":")
        for i in USES.get(f[0], []):
            if i < len(f):
                x = f[i]
                if x.startswith("V") and x.endswith("."):
                    x = x[1:-1]
                if x.isdigit():
                    cnt[x] = cnt.get(x, 0) + 1
    if any(v >= 2 for v in cnt.values()):
        return ";".join(ops)
    return None


def histogram(line):
    ops = _ops(line)
    keys = ["len<=%d" % (5 * ((len(ops) + 4) // 5))]
    names = set()
    for o in ops:
        f = o.split(":")
        names.add(f[0])
        if f[0] in ("ld", "lc"):
            keys.append("load:" + f[2].rstrip("0123456789"))
        if f[0] in ("st", "cm", "sm", "cr") and f[-1 if f[0] != "cr" else 3] == "T":
            keys.append("protein")
    keys += ["op:" + n for n in sorted(names)]
    nca = sum(1 for o in ops if o.startswith("ca:"))
    if nca >= 3:
        keys.append("calculate>=3")
    return keys


SPEC = dict(
    id="C17",
    group="pyglue",
    props_file="C17.v",
    module="LMPyGlue.C17",
    harness_bin="lmpy",
    harness_build=build_lmpy,   # used by ./check setup (vlib/setup.py): own crate, not /verif/harness
    harness_args=["py", os.path.join(PY, "c17_main.py")],
    ml_modules=["pyglue_model"],
    ocaml_packages=("str", "zarith"),
    translate=pyglue_sig.translate,
    # thorough tier: the theorems of coq/e2e/E2EPyCore.v (core record instantiated with the stripe / score / scan
    # models; history hypotheses and scan_stable discharged) count as composed obligations of C17
    **e2e.PY_EXTRA,
    n={"quick": 3000, "thorough": 24000},
    search_n={"quick": 4000, "thorough": 30000},
    nontrivial=nontrivial,
    histogram=histogram,
    rule="API histories (3-40 calls) run in an embedded CPython 3.11 against the extension module built from the "
         "working tree: CountMatrix / ScoringMatrix from dictionaries of columns, normalize (scalar / dict / None "
         "pseudocounts), log_odds (background dict or None, base), stripe, calculate with one StripedSequence "
         "reused by motifs of different widths and both alphabets in ascending / descending / random order, "
         "threshold / max / argmax, pvalue / score with both methods, max_score, reverse_complement, scan with "
         "partial iteration and reconfiguration of the sequence under the live scanner, create, load in the four "
         "formats from paths, BytesIO and file objects with odd read() sizes, and invalid arguments of every kind "
         "(wrong alphabet, missing / extra / non-string keys, ragged columns, negative / huge / float counts, bad "
         "method and format strings, zero / negative / huge block sizes, NaN thresholds, non-positive pseudocounts, "
         "misbehaving file objects). For every call the same data go through the core Rust library in the same "
         "process (module lmcore); the extracted Coq glue model is run with those core results plugged in for its "
         "core operations, and its outcome is compared with what Python returned, bit for bit (IEEE bit patterns, "
         "NaN canonicalised). PROPFAIL (check_C17, proved sound): value differs from the core's, value where an "
         "exception is due or conversely, PanicException / interpreter crash or hang where the core does not panic. "
         "DIFF: kind of exception differs from the model, missing oracle entry, a core result that depends on the "
         "history of the sequence object. Every case runs in a child interpreter, a crash is an observation. "
         "Round 3: every history is also run through the lazy reading of the scanners (run_call_lazy: a scanner follows the live "
         "sequence object through later calculate / scan calls, deletion and rebinding of its name; each next() is a core scan of the "
         "sequence as it is now minus the hits handed out) and must agree step by step with the eager reading (DIFF `live scanner`). "
         "Thread cases (`mt`): n threads sharing a scoring matrix with their own sequences must obtain the sequential results; n threads "
         "calculating on ONE shared sequence obtain the sequential result or RuntimeError (already borrowed); the first p-value asked "
         "while another thread is inside calculate() raises nothing. File objects whose k-th read() raises KeyError / PermissionError / "
         "OSError, returns str / None / too many bytes or closes the file: load() / next() raise that very exception (TypeError / OSError "
         "for the two glue-made ones), items before and after are the core reader's over the same failing stream. create() from "
         "generator objects; CountMatrix columns without len(); paths as str, bytes, pathlib.Path; EncodedSequence constructor and "
         "methods, __eq__ / str / copy of the matrix classes, score_distribution (cache) - ops es et cp eq sr sd fo ll ln mt. A PROPFAIL "
         "detail names the core operation that panicked (core-call=dist_sf|dist_pvalue|dist_score|tfm_pvalue|...). Corpus: "
         "corpus/C17/regress.txt (+threads, live-scanner, generators-paths, continued-load-gl, continued-load-len), known_f28.txt "
         "(must pass since /repo a1b1f91). 60 theorems in C17.v. "
         "Non-trivial: distinct history in which some object receives at least two calls.",
    trusted_base=[
        "Coq 8.16.1 kernel (coqc); vm_compute only in the Example lemmas; no native_compute",
        "extraction: ExtrOcamlBasic only (nat, Z, positive, list, option stay extracted inductives; Flocq binary32/64 "
        "for the f64->f32 conversions); OCaml 4.13.1 with zarith for decimal <-> Z",
        "hand-written OCaml driver ocaml/pyglue/driver.ml (parsing, rendering of values, oracle table lookup)",
        "translator translate/pyglue_sig.py (regular expressions over #[pyo3(signature)] attributes, the string arms of "
        "`match method` / `match format`, Alphabet::as_str, and every `Py<Class>::new_err(\"message\")` site of lib.rs / io.rs / "
        "pyfile.rs) -> coq/pyglue/GenPySig.v",
        "CPython 3.11.7, PyO3 0.22 (argument extraction rules for f32/f64/u32/usize/bool/&str/PyDict/PyList as "
        "modelled in PyGlueModel.v; conversion of Rust panics into PanicException)",
        "harness crate /verif/pyharness (lmpy, lmcore: thin wrappers calling the public core API, catch_unwind) and "
        "the Python driver scripts pyharness/py/c17_*.py (history interpreter, oracle recording, supervisor)",
        "modelled, not verified: lightmotif-py/lightmotif/{lib.rs,io.rs,pyfile.rs} (Gallina model of the glue, tied by "
        "the correspondence run); the core library is a parameter of the model (record `core`), its own properties "
        "are C01-C04, C07, C09-C14",
    ],
    assumptions=[
        "PARTIAL: the theorems are about the glue model; CPython / PyO3 run-time behaviour is trusted",
        "py_calculate_history assumes the core facts: configure always succeeds, keeps the text, makes the look-ahead "
        "rows sufficient (C04), and score / scan results depend only on the text once they are (C01/C02); the driver "
        "re-validates this on every calculate (fresh versus reused sequence) and reports a DIFF otherwise",
        "py_panic_only_from_core assumes core_total (the core never panics and its infallible operations return a "
        "value); a PanicException is always reported; where lmcore observes a core panic on the same data the "
        "detail says `core-also-panics core-call=<operation>` (what is left of known finding F25: pvalue(score, 'tfmpvalue') with a score "
        "so large that score/granularity leaves the i64 range, e.g. 1e30 - the core TfmPvalue overflows on the same data, tfm's "
        "known finding F35 huge-score; F26, F27 and F28 are repaired: /repo df3a2dd, e7689c9, a1b1f91)",
        "dictionaries have distinct keys (Python); column objects with inconsistent __len__/__iter__ are not generated",
        "file objects: read(n) returning at most n bytes is equivalent to the concatenated bytes (C14 chunk independence)",
        "py_scanner_lazy_eq_eager assumes scan_stable (a successful core scan is not changed by further configure() calls on the "
        "sequence: C02 + C04); the driver reports a DIFF when the two readings differ on observed data",
        "py_threads_independent is about atomic calls (GIL); calculate / threshold / max / argmax / create release the GIL while they "
        "hold their borrows - the `mt` cases check that this is not observable (the `mt` verdict is decided by the worker: concurrent "
        "== sequential; `mt` is not an op of the model)",
        "the lazy reading treats the core scanner as restartable (its hits in order are a function of matrix, sequence rows, threshold "
        "and block size; the hits handed out are a prefix)",
        "py_items_no_panic assumes readers_total (no core reader panics: C15) and is about the two producers of iteration results "
        "(glue_load, lazy_take)",
    ],
)


def main(tier, seed, replay):
    # same flow as every other property; only the implementation build differs
    runner.C.build_harness = build_lmpy
    return runner.run_property(SPEC, tier, seed, replay)
