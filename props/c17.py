"""C17 — Python results equal the results of the core library on the same data.

The implementation side is the crate /verif/pyharness (binary `lmpy`: embedded CPython 3.11 with
the extension module built from the repository's working tree registered as `lightmotif.lib`, plus
the helper module `lmcore` that runs the core Rust library on the same data in the same process).
The generic flow of vlib/runner.py is used unchanged; only the cargo build step is replaced by a
build of that crate (props/c17.py:build_lmpy), which honours VERIF_REPO like vlib does for the
ordinary harness crate."""
import os
import shutil

from props import e2e
from translate import pyglue_sig
from vlib import common as C
from vlib import runner

PY = os.path.join(C.VERIF, "pyharness", "py")


def build_lmpy(_bin_name=None, **_kw):
    """cargo build of /verif/pyharness against the repository's working tree (path deps)."""
    h = C.harness_dir("pyharness")
    lock = os.path.join(h, "Cargo.lock")
    src_lock = os.path.join(C.VERIF, "pyharness", "Cargo.lock")
    if not os.path.exists(lock) and os.path.exists(src_lock):
        shutil.copy(src_lock, lock)
    env = dict(C.ENV)
    target = os.path.join(C.BUILD, "cargo-py") if C.ALT is None else os.path.join(C.BUILD, C.ALT, "cargo-py")
    env["CARGO_TARGET_DIR"] = target
    with C.Lock("cargo-py" if C.ALT is None else "cargo-py-" + C.ALT):
        cmd = "cargo build --offline --bin lmpy"
        rc, out = C.sh(cmd, cwd=h, timeout=2400, env=env)
        if rc != 0 and "lock file" in out:
            try:
                os.unlink(lock)
            except OSError:
                pass
            rc, out = C.sh(cmd, cwd=h, timeout=2400, env=env)
    return dict(ok=(rc == 0), log=out, path=os.path.join(target, "debug", "lmpy"))


def _ops(line):
    for t in line.split(" ")[1:]:
        if t.startswith("h="):
            return [o for o in t[2:].split(";") if o]
    return []


USES = {  # op -> indices of fields naming an existing object (slot numbers or V<slot>. values)
    "nz": [2], "lo": [2], "ca": [2, 3], "th": [1], "mx": [1], "am": [1], "pv": [1], "sv": [1], "ms": [1],
    "rc": [2], "sn": [2, 3], "sc": [2, 3], "nx": [1], "gm": [2], "gl": [2], "dl": [1], "et": [2], "cp": [2], "eq": [1, 2], "sr": [1], "sd": [2], "ll": [2], "ln": [1], "mt": [1],
}


def nontrivial(line):
    """distinct history in which some object receives at least two calls"""
    ops = _ops(line)
    cnt = {}
    for o in ops:
        f = o.split(":")
        for i in USES.get(f[0], []):
            if i < len(f):
                x = f[i]
                if x.startswith("V") and x.endswith("."):
                    x = x[1:-1]
                if x.isdigit():
                    cnt[x] = cnt.get(x, 0) + 1
    if any(v >= 2 for v in cnt.values()):
        return ";".join(ops)
    return None


def histogram(line):
    ops = _ops(line)
    keys = ["len<=%d" % (5 * ((len(ops) + 4) // 5))]
    names = set()
    for o in ops:
        f = o.split(":")
        names.add(f[0])
        if f[0] in ("ld", "lc"):
            keys.append("load:" + f[2].rstrip("0123456789"))
        if f[0] in ("st", "cm", "sm", "cr") and f[-1 if f[0] != "cr" else 3] == "T":
            keys.append("protein")
    keys += ["op:" + n for n in sorted(names)]
    nca = sum(1 for o in ops if o.startswith("ca:"))
    if nca >= 3:
        keys.append("calculate>=3")
    return keys


SPEC = dict(
    id="C17",
    group="pyglue",
    props_file="C17.v",
    module="LMPyGlue.C17",
    harness_bin="lmpy",
    harness_build=build_lmpy,   # used by ./check setup (vlib/setup.py): own crate, not /verif/harness
    harness_args=["py", os.path.join(PY, "c17_main.py")],
    ml_modules=["pyglue_model"],
    ocaml_packages=("str", "zarith"),
    translate=pyglue_sig.translate,
    # thorough tier: the theorems of coq/e2e/E2EPyCore.v (core record instantiated with the stripe / score / scan
    # models; history hypotheses and scan_stable discharged) count as composed obligations of C17
    **e2e.PY_EXTRA,
    n={"quick": 3000, "thorough": 24000},
    search_n={"quick": 4000, "thorough": 30000},
    nontrivial=nontrivial,
    histogram=histogram,
    rule="API histories (3-40 calls) run in an embedded CPython 3.11 against the extension module built from the "
         "working tree: CountMatrix / ScoringMatrix from dictionaries of columns, normalize (scalar / dict / None "
         "pseudocounts), log_odds (background dict or None, base), stripe, calculate with one StripedSequence "
         "reused by motifs of different widths and both alphabets in ascending / descending / random order, "
         "threshold / max / argmax, pvalue / score with both methods, max_score, reverse_complement, scan with "
         "partial iteration and reconfiguration of the sequence under the live scanner, create, load in the four "
         "formats from paths, BytesIO and file objects with odd read() sizes, and invalid arguments of every kind "
         "(wrong alphabet, missing / extra / non-string keys, ragged columns, negative / huge / float counts, bad "
         "method and format strings, zero / negative / huge block sizes, NaN thresholds, non-positive pseudocounts, "
         "misbehaving file objects). For every call the same data go through the core Rust library in the same "
         "process (module lmcore); the extracted Coq glue model is run with those core results plugged in for its "
         "core operations, and its outcome is compared with what Python returned, bit for bit (IEEE bit patterns, "
         "NaN canonicalised). PROPFAIL is decided by extracted, proved checkers: check_C17 (C17.check_C17_sound) on every "
         "single outcome (value differs from the core's, value where an exception is due or conversely, PanicException where "
         "the core does not panic); check_hits (check_hits_sound / check_hits_complete: true exactly when the hits a scanner "
         "handed out over its life are a permutation of the core's; a changed order is a DIFF only) on scanner hits; check_items "
         "(check_items_sound: as many items as the core reader prescribes, check_C17 on each) on the items of a continued "
         "iteration. Hand-written and therefore in the trusted base: a crash / hang / timeout of the child interpreter is "
         "always a PROPFAIL; the thread op `mt` (the worker compares concurrent with sequential results and reports `mt:ok`); "
         "the rendering of values to canonical text (render_result / render_obj / render_motif) that the checkers compare with "
         "String.equal; the window of a continued iteration (cut_items: first non-value item + 3). "
         "DIFF: kind of exception differs from the model, missing oracle entry, a core result that depends on the "
         "history of the sequence object. Every case runs in a child interpreter, a crash is an observation. "
         "Round 3: every history is also run through the lazy reading of the scanners (run_call_lazy: a scanner follows the live "
         "sequence object through later calculate / scan calls, deletion and rebinding of its name; each next() is a core scan of the "
         "sequence as it is now minus the hits handed out) and must agree step by step with the eager reading (DIFF `live scanner`). "
         "Thread cases (`mt`): n threads sharing a scoring matrix with their own sequences must obtain the sequential results; n threads "
         "calculating on ONE shared sequence obtain the sequential result or RuntimeError (already borrowed); the first p-value asked "
         "while another thread is inside calculate() raises nothing. File objects whose k-th read() raises KeyError / PermissionError / "
         "OSError, returns str / None / too many bytes or closes the file: load() / next() raise that very exception (TypeError / OSError "
         "for the two glue-made ones), items before and after are the core reader's over the same failing stream. create() from "
         "generator objects; CountMatrix columns without len(); paths as str, bytes, pathlib.Path; EncodedSequence constructor and "
         "methods, __eq__ / str / copy of the matrix classes, score_distribution (cache) - ops es et cp eq sr sd fo ll ln mt. A PROPFAIL "
         "detail names the core operation that panicked (core-call=dist_sf|dist_pvalue|dist_score|tfm_pvalue|...). Corpus: "
         "corpus/C17/regress.txt (+threads, live-scanner, generators-paths, continued-load-gl, continued-load-len, "
         "float-of-huge-int), known_f28.txt (must pass since /repo a1b1f91). "
         "Wave 3: float(int) at the edge of binary64 (2^1024 - 2^970 is the first int CPython refuses) is generated for pvalue / "
         "score / threshold arguments (3 %) and is corpus case `float-of-huge-int`; scan block sizes 2^64-1, 2^63, 2^64-256, 2^32 "
         "are generated (4 %). 68 theorems in C17.v (+ 13 of coq/e2e/E2EPyCore.v as composed obligations of the thorough tier: "
         "the core record instantiated with the C04 / C01 / C02 models). "
         "Non-trivial: distinct history in which some object receives at least two calls.",
    trusted_base=[
        "Coq 8.16.1 kernel (coqc); vm_compute only in closed computations: the Example lemmas of C17.v, the tie theorem "
        "py_exception_sites_tied (forallb over the generated table), the 13 witnesses of py_no_panic_needs_every_guard_refuted, "
        "PyGlueProofs.base_two_valid, and the Examples of coq/e2e/E2EPyCore.v (pycore_example_runs, "
        "pycore_readme_matches_python, pycore_state_typed_satisfiable); no native_compute",
        "extraction: ExtrOcamlBasic only (its Extract Inductive directives for bool, option, list, prod, unit, sumbool, sumor); "
        "no other Extract Inductive, no Extract Constant (nat, Z, positive stay extracted inductives; Flocq binary32/64 "
        "for the f64->f32 conversions); OCaml 4.13.1 with zarith for decimal <-> Z",
        "hand-written OCaml driver ocaml/pyglue/driver.ml (parsing, rendering of values, oracle table lookup). It decides by hand "
        "(not through an extracted checker): `abort=` token (interpreter died / hung / timed out during the history) => PROPFAIL; "
        "the `mt` op (PanicException in a thread or the worker's `concurrent != sequential` => PROPFAIL, `mt:ok` => OK; "
        "py_threads_independent is connected to no observation); the rendering of values (render_result / render_obj / "
        "render_motif) and the splitting of a load result into motifs and end-of-iteration outcome before check_C17 "
        "String.equal; cut_items (window of a continued iteration); parsing of hits to Z pairs before check_hits (an unparsable "
        "hit is a mismatch); the wording of every detail. All other PROPFAIL verdicts (value / exception / panic mismatch, "
        "hit-set-mismatch, load-items-mismatch, item<k>, load-end-mismatch) are the extracted check_C17 / check_hits / check_items "
        "(coq/pyglue/PyGlueCheck.v)",
        "translator translate/pyglue_sig.py (regular expressions over #[pyo3(signature)] attributes, the string arms of "
        "`match method` / `match format`, Alphabet::as_str, and every `Py<Class>::new_err(\"message\")` site of lib.rs / io.rs / "
        "pyfile.rs) -> coq/pyglue/GenPySig.v",
        "CPython 3.11.7, PyO3 0.22 (argument extraction rules for f32/f64/u32/usize/bool/&str/PyDict/PyList as "
        "modelled in PyGlueModel.v; conversion of Rust panics into PanicException)",
        "harness crate /verif/pyharness (lmpy, lmcore: thin wrappers calling the public core API, catch_unwind) and "
        "the Python driver scripts pyharness/py/c17_*.py (history interpreter, oracle recording, supervisor)",
        "modelled, not verified: lightmotif-py/lightmotif/{lib.rs,io.rs,pyfile.rs} (Gallina model of the glue, tied by "
        "the correspondence run). The core library is a parameter of the model (record `core`); in the differential run it is "
        "the Rust core itself (lmcore, same process). In Coq the fields c_stripe / c_configure / c_score / c_scan are "
        "instantiated with the models of C04 / C01 / C02 (coq/e2e/E2EPyCoreDefs.v core_of_models: 32 columns, AVX2 arm of the "
        "scanner, generic scoring pipeline, encoder by specification `symbol = index in Alphabet::as_str`, CPanic outside the "
        "models' domain); that instance is NOT run against the implementation on every run (one captured example: "
        "pycore_readme_matches_python, lightmotif-py of /repo a1b1f91; otherwise its parts are tied by the checks of C01 / C02 / "
        "C04). All other fields (C07 threshold / max / argmax, C09 / C10 counts -> weights -> log-odds, reverse complement, "
        "max_score, C11 score distribution, C12 / C13 TFM-PVALUE, C14 readers) are not instantiated: the link from what Python "
        "returns to THOSE definitions is two test chains (Python = Rust core here; Rust core = Coq model in the owning "
        "property's check), not a Coq statement",
    ],
    assumptions=[
        "PARTIAL: the theorems are about the glue model; CPython / PyO3 run-time behaviour is trusted",
        "PARTIAL, precisely: (1) CPython / PyO3 trusted; (2) the values returned are shown IN COQ to be the C01 / C02 definitions "
        "for calculate (pycore_calculate_is_C01: unstripe of the returned StripedScores = score_def of every position; premise: "
        "non-empty matrix whose rows have as many cells as the alphabet of the sequence) and scan (pycore_scan_is_C02: hits = "
        "exactly the positions with score_def >= threshold, each once; premises: the same + no NaN + block size > 0 + C02's "
        "numeric hypothesis: finite non-wildcard cells and C08's main clause - E2E.e2e_wc is an executable sufficient condition); "
        "for max / argmax / threshold (C07), p-values and scores (C11, C12 / C13), counts / weights / log-odds (C09), reverse "
        "complement (C10), loaded motifs (C14) the theorems py_<entry>_eq_core only say that the glue hands the converted "
        "arguments to the core operation and its result back - they pin the model's definition; (3) "
        "pycore_call_no_panic_partial leaves `rest_total` (guarded totality of the 20 operations not instantiated, named field by "
        "field) and `st_typed` as hypotheses",
        "py_calculate_history / py_history_depends_on_text_only are stated over five hypotheses on the core (configure total, "
        "keeps the text, makes the look-ahead rows sufficient; score and scan results are functions of the text once they are); "
        "these are PROVED for the C04 / C01 / C02 models in coq/e2e/E2EPyCore.v (pycore_conf_total, _conf_text, _conf_ok, "
        "_score_text, _scan_text; no numeric hypothesis) and the theorem is restated without them "
        "(pycore_history_depends_on_text_only); the driver also re-validates it on every calculate (fresh versus reused "
        "sequence, DIFF)",
        "py_panic_only_from_core assumes core_guarded sm_ty sq_ty wrap_ok (it replaces the unsatisfiable core_total of round 3, "
        "kept only as the legacy corollary py_panic_only_from_core_total): every core operation returns a value UNDER THE "
        "PRECONDITION THE GLUE ESTABLISHES before calling it (score: non-empty matrix, sequence configured for it, same alphabet; "
        "scan: additionally no NaN cell and block size > 0; max_score: no NaN; score distribution / `meme` p-values: "
        "ensure_ordered(true) and a non-NaN score / a p-value in [0, 1]; TFM-PVALUE: ensure_finite and a finite score / a p-value "
        "in [0, 1]; to_scoring: a valid base) - nothing outside - and that the call is made in a state whose alphabet labels agree "
        "with the values (st_typed; NOT proved to be an invariant of histories: it needs typing facts of every core "
        "constructor; py_history_no_panic covers all histories only for cores whose promise does not depend on alphabets). "
        "py_no_panic_needs_every_guard_refuted: with any one guard deleted from the model (13 witnesses) a core satisfying "
        "core_guarded makes the call panic; py_strict_core_is_guarded: a core that panics exactly outside the preconditions "
        "satisfies core_guarded. ON THE UNCHANGED TREE cg_tfm_pvalue is false in overflow-checking builds: pvalue(1e30, "
        "'tfmpvalue') panics in the core (what is left of known finding F25: score/granularity leaves the i64 range; tfm's known "
        "finding F35 huge-score) - a PanicException is always reported; where lmcore observes a core panic on the same data the "
        "detail says `core-also-panics core-call=<operation>`. F26, F27, F28 are repaired (/repo df3a2dd, e7689c9, a1b1f91)",
        "dictionaries have distinct keys (Python); column objects with inconsistent __len__/__iter__ are not generated",
        "file objects: read(n) returning at most n bytes is equivalent to the concatenated bytes (C14 chunk independence)",
        "py_scanner_lazy_eq_eager is stated over scan_stable (a successful core scan is not changed by further configure() calls "
        "on the sequence); PROVED for the C02 / C04 models (pycore_scan_stable, pycore_scanner_lazy_eq_eager); the driver reports "
        "a DIFF when the two readings differ on observed data",
        "py_scanner_chunks is a lemma about the eager list model (firstn / skipn); the bridge to the lazy Rust scanner is "
        "py_scanner_lazy_eq_eager",
        "extract_f64 of an int follows PyLong_AsDouble: OverflowError from 2^1024 - 2^970 on (ex_extract_f64_bound; corpus "
        "float-of-huge-int)",
        "py_threads_independent is about atomic calls (GIL); calculate / threshold / max / argmax / create release the GIL while they "
        "hold their borrows - the `mt` cases check that this is not observable (the `mt` verdict is decided by the worker: concurrent "
        "== sequential; `mt` is not an op of the model)",
        "the lazy reading treats the core scanner as restartable (its hits in order are a function of matrix, sequence rows, threshold "
        "and block size; the hits handed out are a prefix)",
        "py_items_no_panic assumes core_guarded and readers_total (no core reader panics: C15) and is about the two producers of "
        "iteration results (glue_load, lazy_take)",
        "not modelled: the Motif / protein getters and the Hit fields (`#[pyo3(get)]` fields); str(EncodedSequence(text)) = text "
        "is py_encoded_str_roundtrip",
    ],
)


def main(tier, seed, replay):
    # same flow as every other property; only the implementation build differs
    runner.C.build_harness = build_lmpy
    return runner.run_property(SPEC, tier, seed, replay)
