"""C01 — every backend computes the defined PSSM score at every position."""
import os
import sys

sys.path.insert(0, os.path.dirname(os.path.dirname(os.path.abspath(__file__))))


def _fields(line):
    inp = line.split(" => ", 1)[0]
    return dict(t.split("=", 1) for t in inp.split(" ")[1:] if "=" in t)


def nontrivial(line):
    # distinct (alphabet, C, L mod C class, M, has -inf, sub-range?, wrap kind) with L >= M
    # and at least two distinct symbols in the sequence
    f = _fields(line)
    try:
        m, l, c = int(f["M"]), int(f["L"]), int(f["C"])
    except (KeyError, ValueError):
        return None
    if m < 1 or l < m or len(set(f.get("seq", ""))) < 2:
        return None
    return (f["abc"], c, l % c, l // c if l // c < 3 else (3 if l < c * c else 4), m,
            "ff800000" in f.get("pssm", ""), f.get("rows", "-"), f.get("wrap", "m") == "m")


def histogram(line):
    f = _fields(line)
    try:
        m, l, c = int(f["M"]), int(f["L"]), int(f["C"])
    except (KeyError, ValueError):
        return ["malformed"]
    keys = ["abc=" + f["abc"], "C=%d" % c,
            "M=0" if m == 0 else "M<=%d" % (10 * ((m + 9) // 10)),
            "L<M" if l < m else ("L=M" if l == m else ("L<=%d" % (c * 2 ** max(0, (l // c)).bit_length()))),
            "Lmod=%d" % (l % c) if l % c in (0, 1, c - 1) else "Lmod=other",
            "wrap=" + ("motif" if f.get("wrap") == "m" else ("none" if f.get("wrap") == "0" else "explicit")),
            "neginf" if "ff800000" in f.get("pssm", "") else "finite"]
    return keys


def translate():
    from translate import score_avx2
    return score_avx2.run()


SPEC = dict(
    id="C01",
    group="score",
    props_file="C01.v",
    module="LMScore.C01",
    harness_bin="score",
    ml_modules=["score_model"],
    n={"quick": 1200, "thorough": 24000},
    search_n={"quick": 3000, "thorough": 20000},
    nontrivial=nontrivial,
    histogram=histogram,
    translate=translate,
    rule="DNA (K=5, AVX2 permute path) and protein (K=21, AVX2 gather path) cases; C=32 through "
         "Pipeline::generic/sse2/avx2, Pipeline::dispatch() and ScoringMatrix::score under each forced arm "
         "(verif hook) and unforced; C=16 and C=48 through generic and SSE2; M in 0..40; L in {0..M+2}, "
         "{k*C+d}, 1..300, around C*C (and around 256*C, k*C for k<40 in the thorough tier); matrices of "
         "quarter-grid values, log-odds-like values, random bit patterns of moderate and of wide magnitude, "
         "subnormals, a few overflowing ones, +0/-0 cells, -inf in the wildcard column (60%) and elsewhere; "
         "sequences with wildcards anywhere; configure(), configure_wrap(k) with k above and below M-1; one "
         "or two row sub-ranges per case (inside the sequence rows, reaching into or past the look-ahead "
         "rows, empty, inverted) run on the reused buffer; unstripe, max_index, Index<usize> (incl. padding "
         "and out-of-range), score_position (incl. out-of-range). Every result cell, panic and value is "
         "compared bit for bit with the extracted Coq model at binary32 (Flocq); the extracted checker "
         "decides count, definition/tolerance, -inf and backend equality. Non-trivial: distinct (alphabet, "
         "C, L mod C, size class, M, has -inf, sub-ranges, wrap kind) with L >= M and >= 2 distinct symbols.",
    trusted_base=[
        "Coq 8.16.1 kernel (coqc); vm_compute only in the lane-layout reflection and the Example lemmas; no native_compute",
        "Flocq 4.1 (BinarySingleNaN) as the definition of IEEE-754 binary32 addition, through LMBase.IEEE",
        "extraction: ExtrOcamlBasic only (nat, N, Z, positive, Flocq floats kept as extracted inductives); OCaml 4.13.1",
        "hand-written OCaml driver ocaml/score/driver.ml (parsing, comparison of bit patterns, sampling of rows for the costly kernel models)",
        "Rust harness harness/src/bin/score.rs (calls the public API, catch_unwind, prints bit patterns; `=` back-references for results identical to the generic pipeline's)",
        "translator translate/score_avx2.py (regex extraction of the shuffle masks, permute2f128 operands, store offsets and the dispatcher's match arms)",
        "lane-wise semantics given to the x86 intrinsics in coq/score/SimdModel.v (exercised by the correspondence run)",
        "modelled, not verified: the Rust code itself (pli/mod.rs, avx2.rs, sse2.rs, dispatch.rs, scores.rs, seq.rs, pwm/mod.rs as read)",
    ],
    assumptions=[
        "the sequence matrix satisfies Striped C s m (proved for the library's striping under C04; checked by the driver on every matrix the library built)",
        "symbols are below K and scoring-matrix rows have K cells (type invariants of A::Symbol and DenseMatrix<f32, A::K>)",
        "NaN payloads are not distinguished (one NaN); no cell of the property's quantifier is NaN or +inf",
    ],
)
