"""C01 — every backend computes the defined PSSM score at every position."""
import os
import sys

sys.path.insert(0, os.path.dirname(os.path.dirname(os.path.abspath(__file__))))


def _fields(line):
    inp = line.split(" => ", 1)[0]
    return dict(t.split("=", 1) for t in inp.split(" ")[1:] if "=" in t)


def _hist_shape(f):
    """(C, kinds of the ops in order, pipelines used) of a history case"""
    ops = f.get("ops", "").split(",")
    return (f.get("C"), "".join(o[:1] for o in ops), ",".join(sorted(set(o.split(".")[1] for o in ops if o[:1] in "SR"))))


def nontrivial(line):
    # distinct (alphabet, C, L mod C class, M, has -inf, sub-range?, wrap kind) with L >= M
    # and at least two distinct symbols in the sequence; a history case counts when it has at least two
    # scoring calls and one other step: distinct (C, op kinds in order, pipelines)
    f = _fields(line)
    if "hist" in f:
        shape = _hist_shape(f)
        if sum(1 for k in shape[1] if k in "SR") >= 2 and len(shape[1]) >= 3:
            return ("hist",) + shape
        return None
    try:
        m, l, c = int(f["M"]), int(f["L"]), int(f["C"])
    except (KeyError, ValueError):
        return None
    if m < 1 or l < m or len(set(f.get("seq", ""))) < 2:
        return None
    return (f["abc"], c, l % c, l // c if l // c < 3 else (3 if l < c * c else 4), m,
            "ff800000" in f.get("pssm", ""), f.get("rows", "-"),
            "m" if f.get("wrap", "m") == "m" else ("r" if "+" in f.get("wrap", "") else "k"),
            f.get("src", "stripe").split(".")[0])


def histogram(line):
    f = _fields(line)
    if "hist" in f:
        shape = _hist_shape(f)
        return ["history", "C=%s" % shape[0], "history-ops<=%d" % (4 * ((len(shape[1]) + 3) // 4)),
                "history-mixed-alphabets" if ("dna:" in f.get("ms", "") and "prot:" in f.get("ms", "")) else "history-one-alphabet",
                "history-with-new-built-sequence" if ":new." in f.get("qs", "") else "history-striped-sequences-only"]
    try:
        m, l, c = int(f["M"]), int(f["L"]), int(f["C"])
    except (KeyError, ValueError):
        return ["malformed"]
    keys = ["abc=" + f["abc"], "C=%d" % c,
            "M=0" if m == 0 else "M<=%d" % (10 * ((m + 9) // 10)),
            "L<M" if l < m else ("L=M" if l == m else ("L<=%d" % (c * 2 ** max(0, (l // c)).bit_length()))),
            "Lmod=%d" % (l % c) if l % c in (0, 1, c - 1) else "Lmod=other",
            "wrap=" + ("motif" if f.get("wrap") == "m" else ("none" if f.get("wrap") == "0" else
                       ("reconfigured" if "+" in f.get("wrap", "") else "explicit"))),
            "neginf" if "ff800000" in f.get("pssm", "") else "finite",
            "src=" + f.get("src", "stripe").split(".")[0]]
    # the driver replays the extracted SIMD kernel models in full below a cost budget and on sampled rows above it
    # (the observed cells are compared in full with the generic pipeline's either way); counted here
    k = 5 if f["abc"] == "dna" else 21
    rows = (l + c - 1) // c
    if f.get("src", "").startswith("new."):
        rows += int(f["src"].split(".")[1])
    cost = c * max(m, 1)
    over = l >= m >= 1 and (rows * cost * k > 40000 or (c == 32 and rows * cost > 4000))
    keys.append("kernel-replay=sampled-rows" if over else "kernel-replay=full")
    return keys


_COQ_DIR = os.path.join(os.path.dirname(os.path.dirname(os.path.abspath(__file__))), "coq", "score")
_BASE_FILES = ["ScoreModel.v", "ScorePadModel.v", "SimdModel.v", "GenAvx2.v", "GenLane4.v", "GenScores.v", "ScoresModel.v",
               "ScoreCheck.v", "ScoreProofs.v",
               "SimdProofs.v", "Sse2Proofs.v", "F32Proofs.v", "CheckProofs.v", "ScorePad.v", "ReadmeExample.v", "C01.v",
               "ScoresProofs.v", "ScoresProofsWf.v", "C01Scores.v", "Extract.v"]
# the only files that depend on another model group (coq/stripe, property C04)
_BRIDGE_FILES = ["StripeBridge.v", "StripePadBridge.v", "C01History.v"]


def _write_project(bridge):
    lines = ["-Q ../base LMBase"] + (["-Q ../stripe LMStripe"] if bridge else []) + ["-Q . LMScore"]
    lines += _BASE_FILES + (_BRIDGE_FILES if bridge else [])
    text = "\n".join(lines) + "\n"
    path = os.path.join(_COQ_DIR, "_CoqProject")
    try:
        old = open(path).read()
    except OSError:
        old = None
    if old != text:
        with open(path, "w") as f:
            f.write(text)


def _prebuild_extraction():
    """Best effort: build the model files and Extract.v (no proof file is among their dependencies) BEFORE the
    full build, so that the driver is compiled from an extraction of the regenerated Gen*.v tables even when a
    proof then breaks (make stops at the first error and would otherwise leave the previous score_model.ml)."""
    try:
        import subprocess
        from vlib import common as C
        with C.Lock("coq-score"):
            mk, proj = os.path.join(_COQ_DIR, "Makefile"), os.path.join(_COQ_DIR, "_CoqProject")
            if not os.path.exists(mk) or os.path.getmtime(mk) < os.path.getmtime(proj):
                subprocess.run("coq_makefile -f _CoqProject -o Makefile", shell=True, cwd=_COQ_DIR, timeout=120,
                               stdout=subprocess.DEVNULL, stderr=subprocess.DEVNULL)
            subprocess.run("make -j4 TIMED=0 Extract.vo", shell=True, cwd=_COQ_DIR, timeout=900,
                           stdout=subprocess.DEVNULL, stderr=subprocess.DEVNULL)
    except Exception:   # never in the way of the real build, which reports its own errors
        pass


def translate():
    # GenAvx2.v (AVX2 lane tables, dispatcher table) and GenLane4.v (SSE2 / NEON interleaving
    # paths and store offsets; presence of the wrapper guards).  _CoqProject is (re)written with
    # the composition with the striping model of C04 (coq/stripe, finished and stable) included.
    # GenScores.v: the statement skeleton of StripedScores::{resize, empty, is_empty, offset, iter,
    # unstripe, Index} and of its iterator (scores.rs).
    from translate import score_avx2, score_lane4, score_scores
    a, b, c = score_avx2.run(), score_lane4.run(), score_scores.run()
    _write_project(True)
    _prebuild_extraction()
    return dict(ok=a.get("ok", True) and b.get("ok", True) and c.get("ok", True),
                notes=a.get("notes", []) + b.get("notes", []) + c.get("notes", []),
                errors=a.get("errors", []) + b.get("errors", []) + c.get("errors", []))


SPEC = dict(
    id="C01",
    group="score",
    props_file="C01.v",
    module="LMScore.C01",
    more_props=[("C01History.v", "LMScore.C01History"), ("C01Scores.v", "LMScore.C01Scores")],
    harness_bin="score",
    ml_modules=["score_model"],
    n={"quick": 1200, "thorough": 16000},
    search_n={"quick": 2000, "thorough": 12000},
    nontrivial=nontrivial,
    histogram=histogram,
    translate=translate,
    rule="Proof: 58 theorems of coq/score/C01.v (+ 9 of C01History.v, + 11 of C01Scores.v), for all inputs (no size bound): generic pipeline cell = defined "
         "left-to-right sum for any carrier/addition (score_generic_cell, score_unstripe: exactly L-M+1 values, none "
         "when L<M; score_rows_sub; score_position); AVX2 permute and gather kernels, the AVX2 wrapper, the SSE2 "
         "kernel (any multiple of 16 columns; abstract addition with x+0=x off -0, instantiated for binary32 from "
         "Flocq) and every arm of the dispatcher equal the generic pipeline for every row range, every previous "
         "buffer content and every padding content (lane tables regenerated from avx2.rs/dispatch.rs by the "
         "translators and re-checked by reflection: avx2_layout_ok, lane4_layout_ok); each kernel / wrapper / dispatcher "
         "equality is stated twice: `*_eq_wf` under mat_wf C K (sq_mat q) alone (every row of the sequence matrix has C symbols: ANY "
         "StripedSequence the API can build, incl. StripedSequence::new on an arbitrary matrix and ::sample) and, as a corollary under "
         "its round-2 name, under Striped; the NEON kernel and wrapper "
         "(translator + proof only, not compiled on x86) equal generic for every row range as well, after the "
         "repair of /repo commit 9cd9b52 (C01_neon_range_unguarded_old_refuted keeps the witness against the "
         "wrapper as it was: no row-range assertion); sub-range, L<M and "
         "unconfigured-wrap guards per backend; Index<usize>; 16- and "
         "32-column layouts; IEEE facts from Flocq: neg_inf_absorbs, fsum_error_bound (FULL: |fl(sum)-sum| <= "
         "((1+2^-24)^n - 1) * sum|t| when no partial sum overflows), a computable no-overflow condition "
         "(n <= 2^23, sum|t| <= 2^126), defined_sum_holds; check_C01_sound (the extracted checker implies the "
         "real-number statement Holds_C01), C01_model_passes_checker (no false alarm on the model); "
         "C01History.v: the Striped hypothesis is discharged for the state reached by any history of "
         "stripe/stripe_into/configure/configure_wrap calls of the C04 model. "
         "Round 3, C01.v: C01_score_dispatch_arm_eq(_f32) (any dispatcher arm table, incl. the Arm one with the NEON arm at 16 columns), "
         "C01_wrapper_guards_as_modelled (presence, order and nesting depth of the guards / resize / kernel call of the AVX2, SSE2 and "
         "NEON safe wrappers as regenerated from the source), C01_scores_iter_double_ended, C01_scores_offset. "
         "C01Scores.v (7 theorems in round 3, 11 since wave 3): the statement skeleton of scores.rs (resize, empty/Default, is_empty, offset, Index, "
         "Iter::new/get, unstripe; regenerated into GenScores.v by translate/score_scores.py on every run) is the model's "
         "(C01_scores_skeleton_as_modelled); the default score_rows_into never reads the buffer (C01_score_rows_into_ignores_buffer); after ANY "
         "history of score_into / score_rows_into (any pipeline, motif, sequence, alphabet, row range) / resize / clone / Default calls on one "
         "buffer, from any initial content, a scoring call gives what the generic pipeline gives on a fresh buffer (C01_scores_history, "
         "C01_scores_history_last_call_only) and after a full scan len / is_empty / unstripe are those of that call: L-M+1 defined scores "
         "(C01_scores_history_content; C01_scores_history_sub_range: a final sub-range call gives rows a..b of the full scan, max_index = L-M+1); "
         "the defined score is never -0.0 and a motif of +-0.0 cells scores +0.0 (C01_score_never_negative_zero). "
         "Correspondence run: DNA (K=5, AVX2 permute path) and protein (K=21, AVX2 gather path) cases; C=32 through "
         "Pipeline::generic/sse2/avx2, Pipeline::dispatch() and ScoringMatrix::score under each forced arm "
         "(verif hook) and unforced; C=16 and C=48 through generic and SSE2; M in 0..40; L in {0..M+2}, "
         "{k*C+d}, 1..300, around C*C, around 256*C (1% of the quick tier; and k*C for k<40 in the thorough tier); matrices of "
         "quarter-grid values, log-odds-like values, random bit patterns of moderate and of wide magnitude, "
         "subnormals, a few overflowing ones, +0/-0 cells, -inf in the wildcard column (60%) and elsewhere; "
         "sequences with wildcards anywhere; configure(), configure_wrap(k) with k above and below M-1, and "
         "re-configuration of an already configured sequence (k1+k2+configure); one "
         "or two row sub-ranges per case (inside the sequence rows, reaching into or past the look-ahead "
         "rows, empty, inverted) run on the reused buffer; unstripe, max_index, Index<usize> (incl. padding "
         "and out-of-range), score_position (incl. out-of-range); the README example is in the corpus. Every "
         "result cell, panic and value is "
         "compared bit for bit with the extracted Coq model at binary32 (Flocq); PROPFAIL is decided by the "
         "extracted, proved-sound checkers check_C01 (count, definition/tolerance n*2^-23*sum|t|, -inf), "
         "check_same_results and check_subrange (equality of the bit patterns across pipelines, arms and "
         "sub-range calls). Round 3, in addition: C=64 through generic and SSE2 next to 16/48; StripedScores::iter as a double-ended iterator, offset and the "
         "From/AsRef/Deref/Default conversions (tokens il/rv/mx/of/cv; corpus/C01/columns.txt); 10 % history cases (2-4 motifs, 2-4 sequences "
         "incl. same-row-count/different-length, L<M, empty, both alphabets; 3-14 ops S/R/Z/C/D/F = score_into, score_rows_into, resize, clone, "
         "Default, matrix_mut().fill(garbage) on ONE StripedScores<f32, C> buffer; every step replayed with the extracted hstep from the observed "
         "state; buffer state also after caught panics; unstripe, len, is_empty, Index, Vec::from, rev after every step through the skeleton "
         "functions sk_* written from GenScores.v; PROPFAIL = a scoring call on a configured sequence that differs from the same call through "
         "the generic pipeline on a fresh buffer); 8 % cases with a FINITE wildcard column, 15-60 % wildcard symbols and 20-100 % +-0.0 cells "
         "at 16/32 columns; corpus/C01/history.txt (22 histories). Non-trivial: distinct (alphabet, "
         "C, L mod C, size class, M, has -inf, sub-ranges, wrap kind) with L >= M and >= 2 distinct symbols; a non-trivial history has "
         ">= 2 scoring calls and >= 3 steps, distinct by (C, op kinds, pipelines). "
         "Round 3 wave 3: states with arbitrary padding (Padded C N s q: the matrix is the striped form of s ++ pad over R = rows - wrap "
         "rows, len = |s|; = StripedPad of C04; R may exceed ceil(len/C)): C01_score_unstripe_padded (exactly L-M+1 defined scores of s, none "
         "when L<M: the padding is never seen), C01_score_cells_padded (as coded: cell (r,c) = defined score of position c*R+r of s ++ pad: the "
         "cells past max_index score the padding symbols), C01_score_index_padded_refuted (witness that the padding-cell clause of "
         "C01_score_index does not extend to padded states), C01_every_backend_padded, C01_backends_sub_range_padded, check_padded_sound "
         "(padded_b), C01_padded_generalises_striped, C01_padded_sequence_unique; L<M without any layout hypothesis: "
         "C01_scores_short_iter_index (iterator yields None, len 0, unstripe [], Index panics for every index), "
         "C01_backends_short_sequence_wf; C01_score_rows_lookahead (sub-ranges reaching into look-ahead rows), C01_score_generic_shape (R rows "
         "of exactly C cells). C01History.v (9): C01_history_striped, C01_history_striped_stale_start, C01_padded_bridge, C01_pad_history_scan, "
         "C01_pad_history_backends (after any C04 history with sample-as-it-was-before-/repo-740d563 / new), C01_sample_striped, "
         "C01_mode_history_scan (the repaired sample and any op3 history of C04 in wildcard mode; added by the stripe builder). C01Scores.v: "
         "C01_scores_history_wf, C01_scores_history_last_call_only_wf (histories under mat_wf only), C01_scores_history_content_padded, "
         "C01_hop_ok_implies_wf. Correspondence run, in addition: 12 % of the classic cases build the sequence with StripedSequence::new on a "
         "hand-made matrix (0/1/2/5 rows more than ceil(L/C), padding letters mostly not the wildcard), 8 % with StripedSequence::sample "
         "(StdRng seeded from the case; wildcard padding since /repo 740d563, both paddings accepted), 15 % of the sequences of a history case "
         "are new-built; the logical sequence is read off the observed matrix by the extracted logical_seq and compared with the public Index "
         "(lq=); the hypothesis is decided by the extracted padded_b instead of striped_b; corpus/C01/padded.txt (40 cases). The non-trivial "
         "key includes the source kind (stripe / new / sample). Above a cost budget the extracted SIMD kernel models are replayed on sampled "
         "rows only (verdict detail sampled-kernel-replays=n, histogram key kernel-replay=sampled-rows, about 20 % of the classic cases).",
    trusted_base=[
        "Coq 8.16.1 kernel (coqc); vm_compute only in the lane-layout reflection (avx2_layout_ok, lane4_layout_ok and the table side conditions of the `*_eq_wf` theorems), the closed witnesses (C01_score_index_padded_refuted, C01_neon_range_unguarded_old_refuted), two binary32 facts about adding zeros (ScoresProofs.v) and the Example lemmas; no native_compute",
        "Flocq 4.1 (BinarySingleNaN, Plus_error, Relative) as the definition of IEEE-754 binary32 addition, through LMBase.IEEE (the theorems that mention reals or the -0 lemma rest on the axioms of Coq's Reals that Flocq's B2R theorems use; the runner appends the audited list)",
        "extraction: ExtrOcamlBasic only (its Extract Inductive directives for bool, option, list, prod, unit, sumbool, sumor); no other Extract Inductive and no Extract Constant (nat, N, Z, positive, Flocq floats kept as extracted inductives); OCaml 4.13.1",
        "hand-written OCaml driver ocaml/score/driver.ml (parsing, conversion to the extracted types, comparison of the model's cells with the observed ones). PROPFAIL decisions: the extracted check_C01 / check_same_results / check_subrange; hand-written PROPFAIL paths, all strictly additional (they can only add a PROPFAIL, never replace a checker's decision): a panic of a full scan / in-range sub-range / unstripe / score_position on a configured sequence, `count n expected L-M+1` (the same test is inside check_C01; kept for the message), unstripe order (value i = cell (i mod rows, i / rows) of the observed matrix), Index / score_position / ScoringMatrix::score that differ from unstripe at the same position, rev that is not the reverse of unstripe, in histories len <> L-M+1, is_empty <> (L<M), Vec::from / rev <> unstripe. No comparison is skipped silently and there is no fail-open path (every parse / evaluation failure is a DIFF): above a cost budget the extracted SIMD kernel models are replayed on sampled rows (the observed cells are still compared in full with the generic pipeline's, and those with the generic model); such cases are counted (verdict detail `sampled-kernel-replays=n`, histogram `kernel-replay=sampled-rows`). The hypothesis of the value theorems is decided on every matrix the library built by the extracted striped_b (striped_b_sound) or, for src=new / src=sample states, padded_b (check_padded_sound); the sequence of such a state is read off the observed matrix by the extracted logical_seq",
        "Rust harness harness/src/bin/score.rs (calls the public API, catch_unwind, prints bit patterns; `=` back-references for results identical to the generic pipeline's; builds sequences by Stripe::stripe, StripedSequence::new or StripedSequence::sample (`src=`) and prints the public Index<usize> of the striped sequence (`lq=`))",
        "translators translate/score_avx2.py (regex extraction of the AVX2 shuffle masks and which accumulator each feeds, permute2f128 operands, store offsets, the dispatcher's match arms) and translate/score_lane4.py (SSE2 unpack / NEON zip network as paths of halves, accumulator pairing, store offsets, presence, order AND nesting depth of the guards of the AVX2, SSE2 and NEON safe wrappers; the dispatcher tables are read cfg-aware: x86 and Arm); both also require the loop and pointer-advance statements to have the modelled shape",
        "translator translate/score_scores.py (regex match of 17 statement lists of scores.rs, small expression parser for the index expressions; tolerates commuted +, *, ==, min and either order of independent statements; a parse failure is a broken obligation)",
        "lane-wise semantics given to the x86 intrinsics in coq/score/SimdModel.v (shuffle_epi8, unpack*_epi8, permutevar8x32, i32gather, permute2f128, cmpeq/and, add_ps, stream stores), exercised by the correspondence run",
        "modelled, not verified: the Rust code itself (pli/mod.rs, avx2.rs, sse2.rs, dispatch.rs, scores.rs, seq.rs, pwm/mod.rs as read); the NEON f32 kernel is modelled and tied by the translator and the proof only (not compiled on this host, never executed: its intrinsics semantics is untested)",
        "for C01History.v (through StripeBridge.v / StripePadBridge.v): the striping model and theorems of property C04 (coq/stripe, another group: StripeAvx2.run, PadHistory.run2, C04_history_from_default, C04_history_stale_start, C04_pad_history, C04_sample_striped, C04_mode_history; if coq/stripe renames them C01History.v breaks)",
    ],
    assumptions=[
        "the kernel equalities (`*_eq_wf`) assume of the sequence only mat_wf (every row of the matrix has C symbols < K: type invariant of DenseMatrix<A::Symbol, C>); the value theorems assume Striped (states built by Stripe::stripe / stripe_into: proved under C04, bridged by C01_history_striped) or Padded (states built by StripedSequence::new / ::sample: proved under C04, bridged by C01_pad_history_scan), both followed by any configure / configure_wrap; the driver decides the applicable predicate on every matrix the library built, incl. after re-configuration, with the extracted striped_b / padded_b (striped_b_sound, check_padded_sound)",
        "symbols are below K and scoring-matrix rows have K cells (type invariants of A::Symbol and DenseMatrix<f32, A::K>); every row of a score buffer has C cells (sc_wf: type invariant of StripedScores<f32, C>)",
        "NaN payloads are not distinguished (one NaN); the value statements (Holds_C01) claim nothing for matrices with a NaN or +inf cell or with sum|t_j| >= 2^126 (intermediate overflow possible) and for motifs wider than 2^23; the bit-for-bit backend equalities have no such restriction",
        "M = 0 is outside the property (M >= 1): the model still follows the code there (SIMD wrappers panic on `rows() - 1`)",
    ],
)
