"""C18 — Python indexing and buffer views expose exactly the logical contents.

The implementation side is not a binary of /verif/harness but the crate /verif/pyharness
(`lmpy`: embedded CPython 3.11 + the extension module built from the repository's working
tree) running pyharness/py/c18_driver.py; this module builds it (for VERIF_REPO=<worktree>:
a copy of the crate with the /repo paths rewritten, own target directory), wraps it in a
small shell script that speaks the `gen` / `run` protocol of vlib/runner.py, and then runs
the generic flow."""
import os
import re
import subprocess

from vlib import common as C
from vlib import runner
from translate import pyidx_slots

PY_DIR = os.path.join(C.VERIF, "pyharness", "py")


def _pyharness_dir():
    """/verif/pyharness, or a copy whose path dependencies (Cargo.toml) and module search
    path (src/main.rs) point to the scratch repository named by VERIF_REPO."""
    src = os.path.join(C.VERIF, "pyharness")
    if C.ALT is None:
        return src
    dst = os.path.join(C.BUILD, C.ALT, "pyharness")
    for root, dirs, files in os.walk(src):
        dirs[:] = [d for d in dirs if d not in ("target", "py", "__pycache__")]
        rel = os.path.relpath(root, src)
        os.makedirs(os.path.join(dst, rel), exist_ok=True)
        for f in files:
            data = open(os.path.join(root, f), "rb").read()
            if f == "Cargo.toml" or f.endswith(".rs"):
                data = data.replace(b'"/repo/', ('"%s/' % C.REPO).encode())
            d = os.path.join(dst, rel, f)
            try:
                if open(d, "rb").read() == data:
                    continue
            except OSError:
                pass
            open(d, "wb").write(data)
    return dst


def _target_dir():
    return os.path.join(C.BUILD, "cargo-py") if C.ALT is None else os.path.join(C.BUILD, C.ALT, "cargo-py")


def build_lmpy(_bin=None, release=False, timeout=2400, **_kw):
    """cargo build of lmpy against the repository's working tree (path dependencies), and
    the wrapper script used as the `harness binary` of the generic flow."""
    h = _pyharness_dir()
    env = dict(C.ENV)
    env["CARGO_TARGET_DIR"] = _target_dir()
    with C.Lock("cargo-py" if C.ALT is None else "cargo-py-" + C.ALT):
        rc, out = C.sh("cargo build --offline --bin lmpy", cwd=h, timeout=timeout, env=env)
    lmpy = os.path.join(env["CARGO_TARGET_DIR"], "debug", "lmpy")
    wdir = os.path.join(C.BUILD, "pyidx" if C.ALT is None else os.path.join(C.ALT, "pyidx"))
    os.makedirs(wdir, exist_ok=True)
    wrapper = os.path.join(wdir, "c18_harness.sh")
    C.write_if_changed(wrapper, '#!/bin/sh\nC18_ARGS="$*" exec %s py %s\n' % (lmpy, os.path.join(PY_DIR, "c18_driver.py")))
    os.chmod(wrapper, 0o755)
    return dict(ok=(rc == 0), log=out, path=wrapper, lmpy=lmpy)


def nontrivial(line):
    """distinct objects with >= 2 rows whose row stride differs from the column count where the
    class allows it (matrices of 5 / 21 columns), sequences and striped objects of >= 2 rows,
    striped sequences with at least one reconfiguration between two views"""
    f = dict(t.split("=", 1) for t in line.split(" ")[1:] if "=" in t)
    cls = f.get("cls")
    body = line.split(" ", 1)[1] if " " in line else line
    if cls in ("count", "weight", "scoring", "dist"):
        rows = f.get("rows", "")
        n = len(rows.split("/")) if rows not in ("", "-") else (len(f.get("seqs", ",").split(",")[0]) if "seqs" in f else 0)
        return body if n >= 2 else None
    seq = f.get("seq", "-")
    if cls == "alloc":
        return body if len(seq) > 32 and "c" in f.get("hist", "") else None
    if cls == "enc":
        return body if len(seq) >= 2 and seq != "-" else None
    if cls == "striped":
        h = f.get("hist", "v")
        return body if len(seq) > 32 and re.search(r"v;(h;)?(k;)?c\d+.*v", h) else None
    if cls == "scores":
        rows = f.get("rows", "")
        return body if len(seq) > 32 and len(seq) >= len(rows.split("/")) else None
    return None


def histogram(line):
    f = dict(t.split("=", 1) for t in line.split(" ")[1:] if "=" in t)
    keys = ["cls=" + f.get("cls", "?"), "alphabet=" + ("protein" if f.get("prot") == "1" else "dna")]
    seq = f.get("seq")
    if seq is not None:
        n = 0 if seq == "-" else len(seq)
        keys.append("L%%32=%s" % ("0" if n % 32 == 0 else "other") if n else "L=0")
        keys.append("L<=%d" % (32 if n <= 32 else 128 if n <= 128 else 512 if n <= 512 else 100000))
    if "rows" in f:
        r = f["rows"]
        m = 0 if r in ("", "-") else len(r.split("/"))
        keys.append("M=%s" % (m if m <= 3 else "4-15" if m <= 15 else "16+"))
    if "hist" in f:
        keys.append("reconfigurations=%d" % len(re.findall(r"c\d+", f["hist"])))
    if "bg" in f:
        keys.append("custom-background")
    if "src" in f or "seqs" in f:
        keys.append("source=" + f.get("src", "create").split(":path")[0] + (":path" if f.get("src", "").endswith(":path") else ""))
    elif f.get("rc") == "1":
        keys.append("source=reverse_complement")
    if f.get("copy") in ("1", "2") or re.search(r"(^|;)[kK](;|$)", f.get("hist", "")):
        keys.append("source=copy")
    if re.search(r"(^|;)s\d+", f.get("hist", "")):
        keys.append("live-scanner")
    if re.search(r"(^|;)h;.*[cs]\d+", f.get("hist", "")):
        keys.append("view-held-across-reconfiguration")
    if f.get("cls") == "dist" and re.search(r"(^|[,/])-?\d{4,}", f.get("rows", "")):
        keys.append("dist:score-range>1000")
    return keys


def stale_probe(ctx):
    """F24: does a memoryview that outlives calculate() still point into freed memory?
    Runs in a sub-process; identified by its call sequence (known finding)."""
    hb = ctx["harness"]
    if not hb.get("ok"):
        return []
    try:
        p = subprocess.run([hb["lmpy"], "py", os.path.join(PY_DIR, "c18_stale.py")], stdout=subprocess.PIPE,
                           stderr=subprocess.PIPE, timeout=300, env=C.ENV)
        out = p.stdout.decode("utf-8", "replace").strip()
        rc = p.returncode
    except subprocess.TimeoutExpired:
        out, rc = "TIMEOUT", 124
    seqn = "stale-view call-sequence=memoryview(StripedSequence);ScoringMatrix.calculate(wider motif);read view"
    inp = "stale cls=striped probe=pyharness/py/c18_stale.py"
    m = re.search(r"STALE moved=(\d+)/(\d+) changed=(\d+)/(\d+)", out)
    if m:
        ctx["notes"].append("stale-view probe (sub-process): " + out)
        if int(m.group(1)) + int(m.group(3)) > 0:
            return [("EVAL", "1", inp), ("PROPFAIL", "%s -- %s" % (seqn, out), inp)]
        return [("EVAL", "1", inp)]
    if out.startswith("BLOCKED"):
        ctx["notes"].append("stale-view probe: the API refuses to reconfigure a sequence with an exported view (%s)" % out)
        return [("EVAL", "1", inp)]
    if out.startswith("FRESH-VIEW-WRONG"):
        return [("PROPFAIL", "view taken after calculate() differs from the view taken before it (stale probe)", inp)]
    if rc < 0 or rc in (134, 139):
        ctx["notes"].append("stale-view probe crashed (rc=%d)" % rc)
        return [("EVAL", "1", inp), ("PROPFAIL", "%s -- probe process crashed rc=%d" % (seqn, rc), inp)]
    return [("INFRA", "stale-view probe gave no result (rc=%s): %s" % (rc, out[-300:]), inp)]


# not called SPEC: `./check setup` would try to build a /verif/harness binary for it (see setup() below)
C18_SPEC = dict(
    id="C18",
    group="pyidx",
    props_file="C18.v",
    module="LMPyIdx.C18",
    harness_bin="lmpy",
    ml_modules=["pyidx_model"],
    n={"quick": 320, "thorough": 6000},
    search_n={"quick": 1500, "thorough": 12000},
    nontrivial=nontrivial,
    histogram=histogram,
    extra=stale_probe,
    translate=pyidx_slots.translate,
    rule="objects of every indexable / buffer-exporting class of lightmotif.lib built in an embedded CPython 3.11 from "
         "generated inputs (EncodedSequence, StripedSequence via stripe() and EncodedSequence.stripe() with histories of "
         "views, copy() and ScoringMatrix.calculate() of widths 1..71 reconfiguring the sequence in place, CountMatrix "
         "from a dict with omitted symbols and from create(), WeightMatrix from normalize()/Motif.pwm, ScoringMatrix "
         "from a dict (optionally with a background: non-uniform, wildcard mass, real sum slightly above 1) and "
         "reverse_complement(), ScoreDistribution (incl. score ranges beyond 1000, offsets beyond i32, constant "
         "matrices), StripedScores from calculate(); DNA and protein; "
         "lengths 0, 1, around multiples of 32 and up to 1300 (5000 thorough); 0..30 matrix rows). Observed per object: "
         "len(), obj[i] for every i in [-len-2, len+1] and around +-2^31, +-2^32, +-2^63, +-2^64, plus True/False and "
         "__index__ objects (value, exception class or PanicException), and of every memoryview its shape, strides, itemsize, format, ndim, nbytes, readonly, "
         "tolist(), tobytes(), element access and mv.obj (the view owns its exporter); of every object additionally "
         "PyObject_GetBuffer through ctypes with 17 explicit flag combinations (SIMPLE, WRITABLE, FORMAT, ND, STRIDES, "
         "*_CONTIGUOUS, INDIRECT, FULL, 3 random) and a NULL view: exception or len/itemsize/readonly/ndim/format/shape/"
         "strides pointers, suboffsets, internal, obj, refcount while exported and after release, against model_request; "
         "object sources: constructors, create() (list/tuple), load() of jaspar/jaspar16/transfac from a file object or "
         "a path (Motif.counts/.pwm/.pssm, reference from the lmcore oracle), reverse_complement(), copy()/copy.copy(), "
         "score_distribution; StripedSequence histories interleave calculate(), copies, new live Scanners and next() on "
         "them between views; a view can be kept exported across the following reconfigurations (op h; 50 % of the generated "
         "striped cases, corpus/C18/held.txt) and is observed again after each of them while the buffer has not moved (a moved "
         "buffer is F24 and is never read); for StripedSequence additionally (cls=alloc) the buffer address "
         "before/after each calculate() while a view stays exported (never read): PROPFAIL is the extracted check_alloc "
         "(C18_check_alloc_sound_complete: the buffer of a non-empty sequence never moves while the view is exported); a move "
         "the capacity model (model_moves = view_dangling per step) does not predict is a PROPFAIL with its own detail, not "
         "matched by the F24 signature; unobservable addresses give DIFF buffer-address-not-observable; compared with the "
         "logical contents computed from the constructor "
         "inputs by the extracted checker check_C18 (PROPFAIL) and with the extracted model of lib.rs (DIFF); a reference "
         "object of the harness that is not well formed (lobj_wfb, C18_reference_object_wf_decided) is a DIFF driver-error. "
         "For StripedScores the whole rows x 32 view is compared, including the cells at positions >= len() "
         "(C18_scores_view_cells_named). 22 theorems in C18.v. "
         "Non-trivial: distinct objects with >= 2 rows / elements (matrix classes have 5 or 21 columns: row stride 8 "
         "or 24 elements), striped objects with more than 32 positions, striped sequences with a view before and after "
         "a reconfiguration.",
    trusted_base=[
        "Coq 8.16.1 kernel (coqc); vm_compute only in the Example / _refuted lemmas of C18.v; no native_compute",
        "extraction: ExtrOcamlBasic only (its Extract Inductive directives for bool, option, list, prod, unit, sumbool, sumor); "
        "no other Extract Inductive, no Extract Constant (nat, Z, positive kept as extracted inductives); OCaml 4.13.1",
        "hand-written OCaml driver ocaml/pyidx/driver.ml (parsing, locating the failing part by re-running the parts of the "
        "extracted checker, comparison with the model). No PROPFAIL of the driver is decided by hand: object cases are PROPFAIL "
        "iff the extracted check_C18 = false (check_C18_sound); cls=alloc: PROPFAIL is the extracted check_alloc, the extracted "
        "model_moves / alloc_steps only word the detail (F24 signature or `although the new row count fits the capacity`)",
        "hand-written PROPFAIL outside the driver: the sub-process probe of F24 (props/c18.py stale_probe running "
        "pyharness/py/c18_stale.py: a view read after calculate() that moved / changed, a fresh view that differs, or a crash of "
        "the probe => PROPFAIL, identified by its call sequence = known finding F24)",
        "python harness pyharness/py/c18_driver.py run by lmpy (pyharness/src/main.rs, owned by C17): generator, and the reference "
        "contents computed from constructor inputs (symbol tables of abc.rs; f32 re-computation of to_freq/to_weight; exact "
        "dyadic scores; all rows*32 reference cells of a StripedScores from wildcard-continued windows (scores_logical); f64 "
        "re-computation of ScoreDistribution::from — as repaired by 4832e71/d6e308b/5ab0464 — in the code's order of operations)",
        "pyharness/src/lmcore.rs (C17's core-library oracle) for the weights / log-odds of Motif objects built by create()/load(); "
        "ctypes.pythonapi.PyObject_GetBuffer / PyBuffer_Release for raw buffer requests and buffer addresses",
        "CPython 3.11 memoryview (tolist/tobytes/element access follow shape/strides/format of the exported Py_buffer) and "
        "PyO3 0.22 argument extraction (isize extraction fails outside the ssize_t range; lib.rs maps that to IndexError), as modelled in PyIdxModel.v",
        "translator translate/pyidx_slots.py (regex/brace-matching reader of lib.rs: slot table, __getbuffer__ constants and guards, cached shape/strides arrays; of seq.rs / pli/mod.rs / dense.rs / dispatch.rs / platform/avx2.rs: DEFAULT_EXTRA_ROWS, row alignment, lanes)",
        "coq/dense (C19): row stride and ravel() layout of DenseMatrix; closed form of Stripe::stripe (C04) taken as the definition of the striped table",
        "modelled, not verified: lib.rs itself (hand-written Gallina model of __len__/__getitem__/__getbuffer__ and of the cached shape/strides); "
        "Vec growth (resize within capacity keeps the buffer, growth gives a fresh buffer) and the capacity reserved by stripe() per dispatch arm",
    ],
    assumptions=[
        "a Vec / DenseMatrix never holds more than isize::MAX elements (hypothesis `llen <= ssize_max` of the index theorems)",
        "x86-64 build: 32 columns (AVX2 lanes) and 32-byte row alignment; element sizes u8=1, u32=4, f32=4, f64=8",
        "padding cells hold arbitrary values (the view theorems quantify over every storage that represents the table)",
        "a StripedScores view shows the whole rows x 32 score matrix: the rows*32 - len() cells at positions >= len() are not "
        "logical scores (obj[i] raises IndexError there); they hold the scores of windows that run into the wildcard "
        "continuation of the sequence - deterministic, computed by the harness reference and compared on every run; "
        "C18_scores_view_cells_named (1 <= M <= L <= rows*32; exactly rows*32 - len() >= M-1 such cells)",
        "views that are still exported while the sequence is reused: valid and showing the logical symbols only while the reuse "
        "stays within the capacity stripe() reserved (C18_stale_view_reads_logical_within_capacity: same descriptor, old "
        "descriptor reads the logical cells of the reconfigured object; C18_descriptor_is_history_independent); beyond it the "
        "exported pointer dangles - known finding F24, C18_stale_view_refuted (reproduced by the cls=alloc cases of "
        "corpus/C18/boundary.txt and the probe c18_stale.py)",
        "single-threaded: no outstanding PyRef borrow at export time (the 2-D __getbuffer__ take PyRefMut; with a borrow held by "
        "another thread - calculate() releases the GIL - memoryview(obj) raises RuntimeError instead of exporting)",
        "StripedSequence and ScoreDistribution define no __len__ / __getitem__ (GenSlots: gen_has_len / gen_has_getitem = false): "
        "the index clause of the property is vacuous for them, only the view clause is checked",
    ],
)


def main(tier, seed, replay):
    C.build_harness = build_lmpy          # the implementation driver of this property is lmpy
    return runner.run_property(C18_SPEC, tier, seed, replay)


def setup():
    """hook of `./check setup`: translator, Coq group, model driver, lmpy"""
    ok = True
    tr = pyidx_slots.translate()
    if not tr.get("ok"):
        C.log("C18 translator: %s" % tr.get("errors"))
        ok = False
    r = C.build_coq(C18_SPEC["group"])
    C.log("coq/pyidx: %s (%.0fs)" % ("ok" if r["ok"] else "FAILED", r.get("wall", 0)))
    ok = ok and r["ok"]
    if r["ok"]:
        d = C.build_driver(C18_SPEC["group"], C18_SPEC["ml_modules"])
        C.log("driver pyidx: %s" % ("ok" if d["ok"] else "FAILED"))
        ok = ok and d["ok"]
    h = build_lmpy()
    C.log("harness lmpy (pyharness): %s" % ("ok" if h["ok"] else "FAILED"))
    return ok and h["ok"]
