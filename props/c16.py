"""C16 — Gibbs sampler state always equals a recomputation from its alignment."""


def _fields(line):
    return dict(t.split("=", 1) for t in line.split(" => ")[0].split(" ")[1:] if "=" in t)


def nontrivial(line):
    # distinct (alphabet, width, mode, data set, rng seed) with at least 50 steps and >= 2 sequences
    f = _fields(line)
    try:
        if int(f.get("steps", "0")) >= 50 and f.get("seqs", "").count(",") >= 1:
            return (f.get("abc"), f.get("w"), f.get("mode"), f.get("seeds"), f.get("rng"), hash(f.get("seqs")))
    except ValueError:
        pass
    return None


def histogram(line):
    f = _fields(line)
    n = f.get("seqs", "").count(",") + 1
    steps = int(f.get("steps", "0"))
    return ["abc=" + f.get("abc", "?"), "mode=" + f.get("mode", "?"), "api=" + f.get("api", "?"),
            "arm=" + f.get("arm", "?"), "w<=%d" % (4 * ((int(f.get("w", "0")) + 3) // 4)),
            "nseq<=%d" % (4 * ((n + 3) // 4)), "steps<=%d" % (100 * ((steps + 99) // 100))]


SPEC = dict(
    id="C16",
    group="sampler",
    props_file="C16.v",
    module="LMSampler.C16",
    harness_bin="sampler",
    ml_modules=["sampler_model"],
    n={"quick": 40, "thorough": 800},
    search_n={"quick": 200, "thorough": 1500},
    nontrivial=nontrivial,
    histogram=histogram,
    rule="TODO",
    trusted_base=[],
    assumptions=[],
)
