"""C16 — Gibbs sampler state always equals a recomputation from its alignment."""
from translate import sampler_skel


def _fields(line):
    return dict(t.split("=", 1) for t in line.split(" => ")[0].split(" ")[1:] if "=" in t)


def nontrivial(line):
    # The generator runs every case once and appends nt=<calls that moved a start>:<calls that
    # recruited a sequence into the active set>:<calls of next() that returned Some>.
    # Non-trivial (DESIGN 3.20): at least one start changed and, in zoops mode, at least one
    # sequence was recruited; distinct by (alphabet, width, mode, parameters, rng seed, data set).
    f = _fields(line)
    nt = f.get("nt", "")
    try:
        moved, recruited, calls = [int(x) for x in nt.split(":")]
    except ValueError:
        return None
    zoops = f.get("mode") == "zoops" and f.get("api") != "new"
    if moved >= 1 and (recruited >= 1 or not zoops) and f.get("seqs", "").count(",") >= 1:
        return (f.get("abc"), f.get("w"), f.get("mode"), f.get("seeds"), f.get("inertia"), f.get("patience"),
                f.get("rng"), hash(f.get("seqs")))
    return None


def histogram(line):
    f = _fields(line)
    n = f.get("seqs", "").count(",") + 1
    keys = ["abc=" + f.get("abc", "?"), "mode=" + f.get("mode", "?"), "api=" + f.get("api", "?"),
            "src=" + f.get("src", "text"),
            "arm=" + f.get("arm", "?"), "w<=%d" % (4 * ((int(f.get("w", "0")) + 3) // 4)),
            "nseq<=%d" % (4 * ((n + 3) // 4))]
    try:
        w = int(f.get("w", "0"))
        seqs = f.get("seqs", "").split(",")
        wc = "X" if f.get("abc") == "protein" else "N"
        keys.append("wrap-width:%d" % (int(f.get("wrap", "0")) - w))
        keys.append("maxlen:" + ("<=80" if max(len(x) for x in seqs) <= 80 else "<=200" if max(len(x) for x in seqs) <= 200 else ">200"))
        keys.append("wildcard-run:" + ("width+" if any(wc * w in x for x in seqs) else "2+" if any(wc * 2 in x for x in seqs)
                                       else "single" if any(wc in x for x in seqs) else "none"))
    except ValueError:
        pass
    try:
        # which branch of rand::seq::index::sample the construction takes (SamplerStream.index_sample)
        if f.get("mode") == "zoops" and f.get("api") != "new":
            a = min(int(f.get("seeds", "0")), n) if f.get("seeds", "-") != "-" else 0
            keys.append("index-sample:" + ("none" if a == 0 else "inplace" if (a > 11 and n < (10.0 + 1.6 * a) * a)
                                           else "floyd" if a < 50 else "floyd+shuffle"))
        else:
            keys.append("index-sample:oops")
    except ValueError:
        pass
    try:
        moved, recruited, calls = [int(x) for x in f.get("nt", "").split(":")]
        keys += ["calls<=%d" % (100 * ((calls + 99) // 100)),
                 "moved:" + ("0" if moved == 0 else "1-9" if moved < 10 else "10-99" if moved < 100 else "100+"),
                 "recruited:" + ("0" if recruited == 0 else "1-2" if recruited < 3 else "3+")]
    except ValueError:
        keys.append("steps<=%d" % (100 * ((int(f.get("steps", "0")) + 99) // 100)))
    return keys


SPEC = dict(
    id="C16",
    group="sampler",
    props_file="C16.v",
    module="LMSampler.C16",
    more_props=[("C16F.v", "LMSampler.C16F"), ("SamplerSkel.v", "LMSampler.SamplerSkel")],
    translate=sampler_skel.translate,
    harness_bin="sampler",
    ml_modules=["sampler_model"],
    n={"quick": 300, "thorough": 3000},
    escalate=2,   # quick tier on a changed source: twice the cases, thorough-tier generator (default 4 is too slow here)
    search_n={"quick": 600, "thorough": 3000},
    nontrivial=nontrivial,
    histogram=histogram,
    rule="Corpus (15 documented-panic configurations, the 30-protein data set of the unit tests x 4, 3 edge "
         "cases) + generated runs: DNA (3/5) or protein, width 1..12, 2..12 sequences of length width..80 (1/25 "
         "exactly the width, planted common word, wildcards; one case in twelve: 13..40 sequences of length up to "
         "200, width up to 20); the striped sequences are built from text through EncodedSequence::to_striped (1/2), "
         "by StripedSequence::new from a hand-filled DenseMatrix whose unused trailing cells hold mostly "
         "non-wildcard symbols, sometimes with a spare row (1/4), or by StripedSequence::sample (1/4; every cell "
         "random, padding included) -- the model gets the first len cells in linear order, raw= cross-checks "
         "all cells, oops via Sampler::new / SamplerBuilder or zoops via "
         "the builder (seeds 2..n, sometimes > n; inertia none/0..11; patience none/0..24/200..1199; both setter "
         "orders), seeded StdRng, 300..400 calls of next() (thorough 300..600), dispatcher arm default/generic/"
         "sse2/avx2, wrap rows = width + {0,1,5}. Observed after construction and after EVERY call: "
         "count_matrix() cells and sequence count, background().frequencies() bit patterns, active_sequences(), "
         "active_starts(), verif_starts() (hook), Iteration.{z,step,counts}; the whole run twice (rerun=same); "
         "count_symbols() and Index of every striped sequence; wts= (scoring the hold-out with Iteration.pssm yields "
         "exactly len-width+1 scores: the weights of update_holdout) and pssm= (Iteration.pssm is bit for bit "
         "counts.to_freq(0.1).into_scoring(background of the alignment without z), recomputed from the data set). PROPFAIL = the extracted, proved-sound-and-complete "
         "checker check_C16 (binary32 frequencies replayed bit for bit) rejects the implementation's own "
         "observations (hand-written additions, all stricter: see trusted_base); DIFF = the extracted model, replayed with the "
         "choice list read off the trace (z, new start, zoops accept/reject), does not reproduce a state, an iteration, the "
         "convergence or a panic. "
         "Non-trivial: the run moved at least one start and, in zoops mode, recruited at least one sequence "
         "(computed by the generator, field nt=moved:recruited:calls); distinct by configuration and data set. "
         "Round 3: generated data sets also contain RUNS of the wildcard (one sequence in four: 1..w+2 consecutive N / X), one "
         "small case in fourteen has one sequence of 200..700 symbols (7..22 striped rows), wrap rows = width + {0,0,1,5,12}. The first "
         "fl calls of next() (quick 20, thorough 40 / all) are replayed through the FLOAT model: PSSM cells, scores, 2f64.powf weights, "
         "WeightedIndex::new / Uniform::new / sample from the recorded generator word, Zoops information-content test; the model's own "
         "choice (new start, accept/reject) must equal the implementation's. On each of these calls the driver also evaluates "
         "pssm_shape (the implementation's PSSM has -inf exactly at the cells named by the integer tables), scale_ok, word_ok and "
         "'the implementation's new start has a positive weight'. Translator: translate/sampler_skel.py re-reads sampler.rs on every run "
         "into coq/sampler/GenSampler.v (statement lists of include_sequence / exclude_sequence / the two construction loops of _new, "
         "wrap guard, Uniform::new bounds, pseudocount literal and its binary32 bits, weight expression, select_holdout, the call list of "
         "next()); SamplerSkel.v proves that INTERPRETING the generated data equals the hand model for all states (17 gen_* theorems "
         "ending in gen_next_is_model; the 3 helper lemmas moved to the unaudited SamplerSkelLemmas.v). Wave 3: the "
         "harness prints every word the generator hands out (rw=, typed u32/u64) during the construction and during each call; the driver "
         "recomputes from them, with the extracted SamplerStream.v (rand 0.8.8 Uniform<usize>::sample, gen_index, index::sample, one u64 per "
         "WeightedIndex::sample), the initial starts, in Zoops mode the seed list in index::sample's order, and the hold-out of EVERY call, and "
         "compares them with the implementation's; the words left after the hold-out's must be none or exactly the one u64 of the draw; the first "
         "6 float-replayed calls also go through next_w as a whole. An implementation panic (P;at=<file>;msg=<message>;rw=<words>) is accepted only "
         "if the model, run with the hold-out its words determine, panics at a documented site (construction 1, 2, 14; next() 5..9) whose message "
         "class is the implementation's (table site_class in driver.ml); the weight overflow (site 8; corpus p16 is a real input) is explained "
         "through the float model with OCaml's libm as stand-in (must reach WPanic, else DIFF). Property files: C16.v (19 property theorems), "
         "C16F.v (28 property theorems), SamplerSkel.v (17 translation-tie theorems gen_*: interpreter of the translated statement lists = hand "
         "model): 64 obligations, 47 of them about the property.",
    trusted_base=[
        "Coq 8.16.1 kernel (coqc); vm_compute only in the non-vacuity Examples, in the concrete counterexample "
        "C16F.sampler_no_panic_oops_unconditional_refuted and in the tie SamplerSkel.gen_weights_are_model; no native_compute",
        "extraction: ExtrOcamlBasic only (its Extract Inductive directives for bool, option, list, prod, unit, sumbool, sumor); "
        "no other Extract Inductive, no Extract Constant (nat, N, Z, positive stay extracted inductives); OCaml 4.13.1",
        "LMBase.IEEE binary32 division / integer conversion on Flocq 4.1 (used only to render the background "
        "frequencies count as f32 / total as f32; the theorems are parametric in that rendering)",
        "hand-written OCaml driver ocaml/sampler/driver.ml (parsing of the trace, mapping of active_sequences/"
        "active_starts/verif_starts to the report record, reading the choice list off the trace, replay of the recorded generator "
        "words rw= through the extracted SamplerStream functions starts_w / seeds_w / holdout_w / next_w)",
        "hand-written PROPFAIL paths of the driver (all stricter than check_C16): nondeterministic-trace (the HARNESS compares the two "
        "runs, the driver reads rerun=same), active_starts-length, active-index-out-of-range, hold-out-index-out-of-range "
        "(observations that cannot be turned into a report record for the checker); iteration-step-number and the other clause "
        "names (start-out-of-range, count-matrix / background / iteration-counts differ) only NAME the failing clause through the "
        "extracted component checkers, the verdict is check_C16's; the table site_class (panic message classes per documented "
        "site) decides which implementation panics count as documented. No fail-open path: every skipped comparison is a DIFF "
        "(word of unmodelled kind, unmodelled index::sample branch Err 6, missing rw=), except the documented limit 'float replay "
        "only on the first fl calls'",
        "Rust harness harness/src/bin/sampler.rs (public API + the add-only hook Sampler::verif_starts, catch_unwind; "
        "the linear order of a striped matrix: symbol i at row i mod R, column i div R; a recording wrapper of the generator "
        "(rw=: every word handed out, typed); the panic hook (file base name + message of the last panic); the comparison of "
        "the two runs = rerun=same)",
        "modelled, not verified: sampler.rs itself (the Gallina model SamplerModel.v follows _new, SamplerBuilder, "
        "select_holdout, include_sequence, exclude_sequence, prepare_pssm/background(), update_holdout, "
        "Iterator::next statement by statement with every panic site explicit; tied to the code only by the "
        "correspondence run and the translator's SamplerSkel.v ties); rand's sampling code (Uniform<usize>::sample, gen_index / "
        "sample_single_inclusive, index::sample, UniformFloat, WeightedIndex) is MODELLED in SamplerStream.v / SamplerF32.v from the "
        "source of rand 0.8.8 and tied by the replay of the recorded words (rw=) on every call; the generator (StdRng = ChaCha12: "
        "seed -> words) is not modelled: its words are inputs; the f32/f64 part (to_freq(0.1), into_scoring, scalar score definition, 2f64.powf weights, rand 0.8.8 "
        "WeightedIndex::new / UniformFloat::new / sample_single-free `sample`, information_content) is modelled in SamplerF32.v on Flocq "
        "binary32/binary64 and tied by the float replay of the first fl calls; libm (log2f, 2f32.powf, 2f64.powf) enters as oracle "
        "tables printed by the harness, re-validated (one output per input, close to OCaml's log2/pow)",
        "translator translate/sampler_skel.py (token patterns + brace matching + a linear-expression normaliser over lightmotif/src/sampler.rs -> coq/sampler/GenSampler.v; "
        "anything outside the recognised shapes is reported as 'cannot parse' = broken obligation)",
        "C16F.v / SamplerF64.v / SamplerScale.v / SamplerWord.v use Flocq's real-number semantics (B2R, Bplus_correct, Bmult_correct, "
        "Bminus_correct, Bcompare_correct; SamplerFuel.v for the fuel of Uniform::new's scale loop)",
    ],
    assumptions=[
        "symbols of an encoded sequence are < K (Rust type invariant of Symbol; re-checked on every data set: sym=)",
        "SamplerData::new caches count_symbols of every sequence and StripedSequence::index returns the encoded "
        "symbol (re-checked on every data set: cnt=, sym=; the latter is property C04)",
        "the data set fits the counters: number of sequences <= u32::MAX, total length <= usize::MAX (data_ok)",
        "every sequence at least as long as the width and wrap >= width (the constructor's guards; otherwise the "
        "model returns Panic 1 / 2 like the code); progress theorem: sequences strictly longer than the width",
        "choices that an RNG can produce: z < n (a seed during the inertia phase), a new start among the "
        "len - width + 1 scored positions (StripedScores::iter bounded by max_index) — impossible choices are Err, "
        "outside the quantifier",
        "documented outside the quantifier (DESIGN 3/C16): panics of the unchanged code with an empty active set "
        "(single sequence, zoops with 0 or 1 seed, all active sequences exactly as long as the width), an empty "
        "data set, an empty seed list during inertia, WeightedIndex overflow, step counter overflow — model "
        "Panic 5..9; theorem sampler_no_panic shows these are the only ones (conditional on the state-dependent choices_ok); closed "
        "forms: C16.sampler_no_panic_oops (Oops, data_ok, >= 2 sequences, all longer than the width, wrap >= width; for every choice "
        "only conditions on the DATA SET: z < n, new start inside the sequence, no UOverflow; length chs <= usize::MAX ==> the "
        "construction and the whole run are Ok) and C16F.sampler_no_panic_oops_stream(_closed) (same premises, EVERY stream of "
        "u32/u64 words, every libm: Ok, or Panic 8, or Err 5 = the finite stream ended - nothing else)",
        "DOCUMENTED OBSERVATION (real code, inside the quantifier of C16 as written; no known-findings entry, the check treats "
        "site 8 as documented): the weight overflow panic. corpus/C16/panics.txt p16 (Oops, Sampler::new, width 100, four DNA "
        "sequences of 3100 symbols sharing a run of 100 A, StdRng seed 2): after 5 calls the hold-out's best score exceeds 1024, "
        "2f64.powf(score) = +inf, the weights sum to +inf and WeightedIndex::new -> Uniform::new(0, +inf) panics in update_holdout "
        "(model Panic 8). The unconditional no-panic statement is therefore false "
        "(C16F.sampler_no_panic_oops_unconditional_refuted); C16 holds 'up to the documented panic 8', which depends on "
        "magnitudes the model leaves to the exp2 oracle. Patch proposed in notes/sampler.md (weights relative to the best score)",
        "determinism ('same data, parameters and seed => identical traces'): PROVED -- the trace of k calls and the initial starts "
        "are a function of the words the generator hands out and depend only on the words consumed (C16F.sampler_deterministic, "
        "initial_starts_deterministic; model of rand 0.8.8's integer and float sampling in SamplerStream.v, tied on every call by "
        "the rw= replay); CHECKED, NOT PROVED -- the generator itself (StdRng = ChaCha12: seed -> words; no model) and that the "
        "implementation draws from nothing but its generator (rerun=same, a hand-written PROPFAIL; mutation w1). The former "
        "C16.sampler_deterministic (chs1 = chs2 -> equal runs, no content) is deleted",
        "index::sample is modelled for length < 500_000 and amount < 163 (Err 6 otherwise -> DIFF); its result is proved to be a "
        "valid seed set (C16F.seed_set_from_stream_valid: Floyd / in-place invariants), so the construction never ends in Err 2 "
        "(sampler_stream_never_err2); closed form of the main theorem: sampler_inv_stream_closed (Holds_C16 at every step, or "
        "Panic 5..9, or Err 5 / Err 6 - nothing else)",
        "weights_support_partial: pow(2,-inf) and pow(2,NaN) are not > 0 (IEEE 754 / C99 F.10.4.4), stated as premises on the oracle; "
        "the PSSM has the shape pssm_shape (executable, checked on every replayed call, not derived from to_freq / into_scoring; only "
        "the zero-background half is a theorem: zero_background_cell_is_neg_inf); the converse direction (a live position has a "
        "positive weight) is NOT proved (needs magnitude bounds)",
        "allowed_g / allowed_w list OutOfFuel (fuel 8 of the scale loop of Uniform::new); it is proved impossible "
        "(C16F.uniform_scale_fuel_suffices: two tests suffice; next_g_never_out_of_fuel, sampler_stream_never_out_of_fuel)",
        "generator words are u64 (0 <= word < 2^64); for these word_ok and scale_ok are theorems (word_fraction_ok, uniform_scale_ok)",
        "SamplerBuilder::temperature is ignored by _new (hard-coded 1.0): pinned by the translator (gen_weights_are_model); a future "
        "change of the builder shows up as a broken obligation of SamplerSkel.v",
    ],
)
