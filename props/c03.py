"""C03 — Scanner best hit is a maximum-scoring position that meets the threshold."""
from . import c02
from translate import scan_skel


def nontrivial(line):
    k = c02.nontrivial(line)
    if k is None:
        return None
    f = c02._fields(line)
    return k + (f.get("ks"),)


def histogram(line):
    keys = c02.histogram(line)
    f = c02._fields(line)
    ks = [int(x) for x in f.get("ks", "-").split(",") if x not in ("-", "")]
    keys.append("prefixes=%d" % len(ks))
    if any(k > 0 for k in ks):
        keys.append("max-after-next")
    return keys


def _e2e_obligations():
    # the end-to-end composition theorems of coq/e2e (text -> encode -> stripe -> configure -> Scanner) count as
    # obligations of this property in the thorough tier
    from props import e2e
    return e2e.obligations()


SPEC = dict(
    extra_obligations={"thorough": _e2e_obligations},
    extra_obligations_name="coq/e2e/E2E.v: end-to-end composition of C05, C04, C01, C08, C07 with the scanner model",
    extra_obligations_cmd="make -C coq/e2e (and imported groups) + Print Assumptions audit of LME2E.E2E",
    id="C03",
    group="scan",
    props_file="C03.v",
    more_props=[("C03Source.v", "LMScan.C03Source"), ("C03Total.v", "LMScan.C03Total")],
    translate=scan_skel.translate,
    extra=c02.release_overflow_tie("c03"),
    module="LMScan.C03",
    harness_bin="scan",
    harness_args=["c03"],
    driver_args=["c03"],
    ml_modules=["scan_model"],
    n={"quick": 850, "thorough": 8500},
    search_n={"quick": 3000, "thorough": 20000},
    nontrivial=nontrivial,
    histogram=histogram,
    rule="Same generator as C02 (near-tie matrices: 0.25 grid + 0.01 jitters so that 8-bit rounding reorders "
         "near-equal positions, exact ties, count-derived, constant). For up to 6 prefixes k in {0, 1..3, #hits-1, "
         "#hits, random} a fresh scanner is advanced by k calls of next() and then asked for max(), under each forced "
         "dispatcher arm. PROPFAIL: the extracted checker check_c03, proved sound in Coq (C03_check_sound), on the "
         "implementation's own per-position scores (None only if every qualifying position was consumed; otherwise an "
         "unconsumed qualifying position with its exact score bits, >= every unconsumed qualifying score); any panic "
         "on a configured input. DIFF: consumed prefix, position and score bits against the extracted binary32 "
         "model. Non-trivial: as C02, distinct also by the prefix list. Theorems (C03.v, 11): C03_max_after_prefix (any k: no "
         "panic, None iff nothing unconsumed qualifies, else an unconsumed qualifying position with its exact score "
         "that dominates every unconsumed non-NaN score; the largest index among the maxima when no hit was buffered), "
         "C03_max_none_iff, C03_max_is_maximum (k = 0), C03_max_block_independent (k = 0: the answer, position "
         "included, is the same for all block sizes >= 1), C03_check_sound, C03_check_complete (no false alarm); for "
         "the extracted concrete model (every arm), with the order facts proved for Flocq's binary32 comparison and the "
         "layout hypotheses discharged: C03_concrete_max, C03_concrete_max_explicit (scores written out), "
         "C03_concrete_max_c08 (the numeric hypotheses reduced to C08's main clause per position, via coq/disc's "
         "C08_scale_monotone_f32 and the sign of the factor, clear since the repair of F14b), "
         "C03_concrete_max_well_conditioned / C03_concrete_max_wc_checked (NO numeric hypothesis left for matrices with "
         "finite non-wildcard cells that satisfy coq/disc's executable conditioning predicate, via DiscBridge.v; the "
         "driver evaluates the predicate as wc_input on every lost maximum). "
         "C03Source.v (5 theorems: C03_source_model_eq, C03_source_concrete_eq, C03_source_max_after_prefix, "
         "C03_source_concrete_max_wc_checked, C03_source_fields_matter: 13 single-field deviations of max() violate the property on "
         "the toy instance, 3 order/pruning-only deviations do not) restates the property for the scanner parameterised by the "
         "statement skeleton that translate/scan_skel.py re-reads from scan.rs on every run (coq/scan/GenScan.v). Prefixes (round 3): "
         "k = number of hits of the first one / two blocks, -1, +1 (max() with an empty buffer at a block boundary / one buffered hit "
         "left); `swmax=`: setters called between the k calls of next() and max() (tie + weak judge in the driver, no theorem). "
         "The corpus holds boundary "
         "cases, the inputs on which the deliberate mutations of Scanner::max and the seeded changes were caught, the "
         "witnesses of the repaired defect F14b (must pass) and the witness of known finding F14-c03; corpus/C03/round3.txt and round3_mutation_witnesses.txt.",
    trusted_base=c02.COMMON_TRUSTED,
    assumptions=[
        "conservative (property C08), for every bound t the scanner derives (the threshold and the score of each "
        "successive best hit): a valid position whose f32 score is >= t has an 8-bit score >= scale(t). Hypothesis "
        "of all max theorems; proved by group disc in exact arithmetic, false for binary32 on ill-conditioned "
        "matrices (C08_ieee_refuted), re-checked by the correspondence run",
        "scale_monotone, in the form score i >= thr implies scale(thr) <= scale(score i): hypothesis of the abstract "
        "theorems; for the concrete binary32 model it is a theorem (coq/disc DiscF32Mono.scale_with_f32_mono + "
        "DiscF32Sign.div_abs_sign, imported by coq/scan/DiscLink.v: env_scale_mono) and is discharged in "
        "C03_concrete_max / _explicit / _c08",
        "the comparisons >=, >, == of the score type form a total preorder on non-NaN values with > and == derived "
        "from >=: hypotheses of the abstract theorems, proved for Flocq's binary32 Bcompare in coq/scan/F32Order.v "
        "and discharged in C03_concrete_max",
        "layout hypotheses (see C02): proved for the concrete model in ConcreteProofs.v for every well-formed input",
        "conservativeness itself: a hypothesis of the abstract theorems and of C03_concrete_max / _explicit / _c08; a "
        "theorem for the concrete model on well-conditioned matrices (C03_concrete_max_well_conditioned, importing coq/disc's "
        "C08_f32_main_well_conditioned_partial through DiscBridge.v); false on ill-conditioned ones (known finding F14)",
        "input side conditions of the property: block size >= 1, motif not empty, sequence configured for the motif, "
        "no NaN among the non-wildcard matrix cells; a NaN threshold makes every comparison false (None is returned, "
        "consistent with the theorems: nothing qualifies)",
        "block-size independence is stated for max() on a fresh scanner; after k > 0 calls of next() the consumed "
        "set itself depends on the block size (yield order), so the statement is C03_max_after_prefix: the answer is "
        "a maximum over what was not consumed",
    ],
)
