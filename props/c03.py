"""C03 — Scanner best hit is a maximum-scoring position that meets the threshold."""
from . import c02
from translate import scan_skel


def nontrivial(line):
    k = c02.nontrivial(line)
    if k is None:
        return None
    f = c02._fields(line)
    return k + (f.get("ks"),)


def histogram(line):
    keys = c02.histogram(line)
    f = c02._fields(line)
    ks = [int(x) for x in f.get("ks", "-").split(",") if x not in ("-", "")]
    keys.append("prefixes=%d" % len(ks))
    if any(k > 0 for k in ks):
        keys.append("max-after-next")
    return keys


def _e2e_obligations():
    # the end-to-end composition theorems of coq/e2e (text -> encode -> stripe -> configure -> Scanner) count as
    # obligations of this property in the thorough tier
    from props import e2e
    return e2e.obligations()


SPEC = dict(
    extra_obligations={"thorough": _e2e_obligations},
    extra_obligations_name="coq/e2e (E2E.v, E2EStat.v, E2EPyCore.v, E2EPadding.v): end-to-end composition of C05, C04, C01, C08, C07 with the scanner model",
    extra_obligations_cmd="make -C coq/e2e (and imported groups) + Print Assumptions audit of LME2E.E2E",
    id="C03",
    group="scan",
    props_file="C03.v",
    more_props=[("C03Source.v", "LMScan.C03Source"), ("C03Total.v", "LMScan.C03Total")],
    translate=scan_skel.translate,
    extra=c02.release_overflow_tie("c03"),
    module="LMScan.C03",
    harness_bin="scan",
    harness_args=["c03"],
    driver_args=["c03"],
    ml_modules=["scan_model"],
    n={"quick": 850, "thorough": 5000},
    escalate=2,   # quick tier on a changed source: twice the cases, thorough-tier generator (default 4 is too slow here)
    search_n={"quick": 3000, "thorough": 20000},
    nontrivial=nontrivial,
    histogram=histogram,
    rule="Same generator as C02 (near-tie matrices: 0.25 grid + 0.01 jitters so that 8-bit rounding reorders "
         "near-equal positions, exact ties, count-derived, constant). For up to 6 prefixes k in {0, 1..3, #hits-1, "
         "#hits, random} a fresh scanner is advanced by k calls of next() and then asked for max(), under each forced "
         "dispatcher arm. PROPFAIL: the extracted checker check_c03, proved sound in Coq (C03_check_sound), on the "
         "implementation's own per-position scores (None only if every qualifying position was consumed; otherwise an "
         "unconsumed qualifying position with its exact score bits, >= every unconsumed qualifying score); "
         "max-depends-on-block-size, decided by the extracted same_answer (C03_same_answer_spec) on the observation maxb=; any panic "
         "on an input that satisfies the extracted predicate pre_ok (C02_pre_ok_spec: configured input). DIFF: consumed prefix "
         "(position AND score bits of every consumed hit), position and score bits of the answer against the extracted binary32 "
         "model. Non-trivial: as C02, distinct also by the prefix list. Theorems (C03.v, 11): C03_max_after_prefix (any k: no "
         "panic, None iff nothing unconsumed qualifies, else an unconsumed qualifying position with its exact score "
         "that dominates every unconsumed non-NaN score; the largest index among the maxima when no hit was buffered), "
         "C03_max_none_iff, C03_max_is_maximum (k = 0), C03_max_block_independent (k = 0: the answer, position "
         "included, is the same for all block sizes >= 1), C03_check_sound, C03_check_complete (no false alarm); for "
         "the extracted concrete model (every arm), with the order facts proved for Flocq's binary32 comparison and the "
         "layout hypotheses discharged: C03_concrete_max, C03_concrete_max_explicit (scores written out), "
         "C03_concrete_max_c08 (the numeric hypotheses reduced to C08's main clause per position, via coq/disc's "
         "C08_scale_monotone_f32 and the sign of the factor, clear since the repair of F14b), "
         "C03_concrete_max_well_conditioned / C03_concrete_max_wc_checked (NO numeric hypothesis left for matrices with "
         "finite non-wildcard cells that satisfy coq/disc's executable conditioning predicate, via DiscBridge.v; the "
         "driver evaluates the predicate as wc_input on every lost maximum). "
         "C03Source.v (5 theorems: C03_source_model_eq, C03_source_concrete_eq, C03_source_max_after_prefix, "
         "C03_source_concrete_max_wc_checked, C03_source_fields_matter: 13 single-field deviations of max() violate the property on "
         "the toy instance, 3 order/pruning-only deviations do not) restates the property for the scanner parameterised by the "
         "statement skeleton that translate/scan_skel.py re-reads from scan.rs on every run (coq/scan/GenScan.v). Prefixes (round 3): "
         "k = number of hits of the first one / two blocks, -1, +1 (max() with an empty buffer at a block boundary / one buffered hit "
         "left); `swmax=`: setters called between the k calls of next() and max() (tie against ScanSwitch.v and the word-level model "
         "of coq/scan/ScanWord.v + the extracted judge check_swmax, a weak property of our own, C03_check_swmax_sound; no nat-level "
         "soundness theorem for max() after setters: the word-level equalities C03_word_setters_max_eq / "
         "C03_word_saturating_setters_max_eq / C03_source_setters_max_eq reduce it to the nat-level model). "
         "The corpus holds boundary "
         "cases, the inputs on which the deliberate mutations of Scanner::max and the seeded changes were caught, the "
         "witnesses of the repaired defect F14b (must pass) and the witness of known finding F14-c03; corpus/C03/round3.txt and round3_mutation_witnesses.txt. "
         "C03Total.v (wave 3; 12, one of them the helper lemma fresh_answer_unique): C03_max_total, C03_concrete_max_total (max() "
         "returns from every state - after any k calls of next() - under the order and layout hypotheses only: the panics of "
         "max_by().unwrap() and of the cell lookup and running out of fuel are excluded without any hypothesis on the 8-bit "
         "pre-filter), C03_concrete_max_block_independent / C03_concrete_max_block_independent_wc_checked (binary32 scanner: the same "
         "answer, position included, for any two arms and any two block sizes >= 1; the first under C08's main clause per position, "
         "the second with no numeric hypothesis on well-conditioned matrices), C03_word_setters_max_eq, "
         "C03_word_setters_max_any_block_size_refuted (B' = 2^64-1 between next() and max(): Panic 40 with overflow checks, a "
         "consumed position returned when wrapping, right answer when saturating; finding F-scan-ovf, repaired by /repo 3bcb63a), "
         "C03_word_saturating_setters_max_eq, C03_source_setters_max_eq (at the add kind the translator reads from scan.rs; no bound on "
         "B' since the source uses saturating_add), C03_source_concrete_max_wc_checked_full (the skeleton scanner's statement WITH the "
         "tie-break conjunct that C03Source.v drops), C03_check_swmax_sound, C03_same_answer_spec. C03Source.v's 5 theorems are TIE "
         "theorems. Observation maxb= on every case and arm: max() of a fresh scanner under B and under B' (1, or 7 when B = 1; set "
         "before iteration) must agree (PROPFAIL max-depends-on-block-size .. wc=<b>; wc=false differences are a consequence of F14 "
         "and covered by the known entry F14-c03; DIFF against the model under B' on one arm). corpus/C03/wave3_overflow.txt: the "
         "witnesses of the repaired F-scan-ovf (must pass), also run through the release build by the `extra` step.",
    trusted_base=c02.COMMON_TRUSTED,
    assumptions=[
        "conservative (property C08), for every bound t the scanner derives (the threshold and the score of each "
        "successive best hit): a valid position whose f32 score is >= t has an 8-bit score >= scale(t). Hypothesis "
        "of all max theorems; proved by group disc in exact arithmetic, false for binary32 on ill-conditioned "
        "matrices (C08_ieee_refuted), re-checked by the correspondence run",
        "scale_monotone, in the form score i >= thr implies scale(thr) <= scale(score i): hypothesis of the abstract "
        "theorems; for the concrete binary32 model it is a theorem (coq/disc DiscF32Mono.scale_with_f32_mono + "
        "DiscF32Sign.div_abs_sign, imported by coq/scan/DiscLink.v: env_scale_mono) and is discharged in "
        "C03_concrete_max / _explicit / _c08",
        "the comparisons >=, >, == of the score type form a total preorder on non-NaN values with > and == derived "
        "from >=: hypotheses of the abstract theorems, proved for Flocq's binary32 Bcompare in coq/scan/F32Order.v "
        "and discharged in C03_concrete_max",
        "layout hypotheses (see C02): proved for the concrete model in ConcreteProofs.v for every well-formed input",
        "conservativeness itself: a hypothesis of the abstract theorems and of C03_concrete_max / _explicit / _c08; a "
        "theorem for the concrete model on well-conditioned matrices (C03_concrete_max_well_conditioned, importing coq/disc's "
        "C08_f32_main_well_conditioned_partial through DiscBridge.v); false on ill-conditioned ones (known finding F14)",
        "input side conditions of the property: block size >= 1, motif not empty, sequence configured for the motif, "
        "no NaN among the non-wildcard matrix cells; a NaN threshold makes every comparison false (None is returned, "
        "consistent with the theorems: nothing qualifies)",
        "block-size independence is stated for max() on a fresh scanner; after k > 0 calls of next() the consumed "
        "set itself depends on the block size (yield order), so the statement is C03_max_after_prefix: the answer is "
        "a maximum over what was not consumed",
        "block size fixed before the first call (the property text) - or changed between next() and max(): with the plain `+` "
        "of the source before /repo 3bcb63a only to B' <= 2^64 - R (C03_word_setters_max_eq), with the repaired saturating_add "
        "to any B' (C03_word_saturating_setters_max_eq; C03_source_setters_max_eq carries the hypothesis "
        "`gen_row_add_saturating = true or R + B' <= 2^64`, whose first disjunct the translator's constant makes true today)",
        "the theorems that carry the C08 hypothesis (C03_concrete_max, C03_concrete_max_explicit, C03_concrete_max_c08; "
        "C03_concrete_max_block_independent) are PARTIAL in the sense of the guide (names kept without `_partial`: coq/e2e "
        "refers to them by name); totality needs no numeric hypothesis (C03_max_total, C03_concrete_max_total)",
    ],
)
