"""C03 — Scanner best hit is a maximum-scoring position that meets the threshold."""
from . import c02


def nontrivial(line):
    k = c02.nontrivial(line)
    if k is None:
        return None
    f = c02._fields(line)
    return k + (f.get("ks"),)


def histogram(line):
    keys = c02.histogram(line)
    f = c02._fields(line)
    ks = [int(x) for x in f.get("ks", "-").split(",") if x not in ("-", "")]
    keys.append("prefixes=%d" % len(ks))
    if any(k > 0 for k in ks):
        keys.append("max-after-next")
    return keys


SPEC = dict(
    id="C03",
    group="scan",
    props_file="C03.v",
    module="LMScan.C03",
    harness_bin="scan",
    harness_args=["c03"],
    driver_args=["c03"],
    ml_modules=["scan_model"],
    n={"quick": 1000, "thorough": 10000},
    search_n={"quick": 3000, "thorough": 20000},
    nontrivial=nontrivial,
    histogram=histogram,
    rule="Same generator as C02 (near-tie matrices: 0.25 grid + 0.01 jitters so that 8-bit rounding reorders "
         "near-equal positions, exact ties, count-derived, constant). For up to 6 prefixes k in {0, 1..3, #hits-1, "
         "#hits, random} a fresh scanner is advanced by k calls of next() and then asked for max(), under each forced "
         "dispatcher arm. PROPFAIL: extracted check_c03 on the implementation's own per-position scores (None iff no "
         "unconsumed position >= thr; otherwise an unconsumed position with its exact score, >= every unconsumed "
         "qualifying score; no panic). DIFF: consumed prefix, position and score bits against the extracted binary32 "
         "model. Non-trivial: as C02, distinct also by the prefix list.",
    trusted_base=c02.COMMON_TRUSTED,
    assumptions=[
        "conservative and scale_monotone (property C08): hypotheses of the max theorems",
        "IEEE order facts about binary32 comparisons (le transitive, total on non-NaN, >, == derived from <=): "
        "proved for Flocq's Bcompare in F32Order.v, hypotheses of the abstract section",
        "the striped sequence was configured for the motif (wrap >= M-1), M >= 1, no NaN among the non-wildcard "
        "matrix cells, block size >= 1, threshold not NaN for the order-dependent statements",
    ],
)
