"""C02 — Scanner yields exactly the positions scoring at or above the threshold."""


def _fields(line):
    return dict(t.split("=", 1) for t in line.split(" ")[1:] if "=" in t)


def _shape(line):
    f = _fields(line)
    m = int(f.get("M", "0"))
    seq = f.get("seq", "-")
    l = 0 if seq == "-" else len(seq)
    b = 256 if f.get("B") == "d" else int(f.get("B", "1"))
    r = (l + 31) // 32
    wrap = int(f.get("wrap", "0"))
    return f, m, l, b, r, wrap


def nontrivial(line):
    # distinct (M, L, B, wrap, threshold) with at least one valid position and a
    # configured sequence
    f, m, l, b, r, wrap = _shape(line)
    if l >= m >= 1 and wrap >= m - 1:
        return (m, l, b, wrap, f.get("thr"), f.get("pssm", "")[:40])
    return None


def histogram(line):
    f, m, l, b, r, wrap = _shape(line)
    keys = ["B=%d" % b, "M<=%d" % (4 * ((m + 3) // 4))]
    if l == 0:
        keys.append("L=0")
    elif l < m:
        keys.append("L<M")
    elif l == m:
        keys.append("L=M")
    else:
        keys.append("L<=%d" % (10 ** len(str(l))))
    if b > 0 and r > 0:
        d = min(r % b, b - r % b)
        keys.append("rows-within-M-1-of-block-multiple" if d <= max(m - 1, 0) else "rows-away-from-block-multiple")
        keys.append("blocks=%s" % ("1" if r <= b else "2" if r <= 2 * b else "3+"))
    keys.append("wrap" + ("=M-1" if wrap == m - 1 else ">M-1" if wrap > m - 1 else "<M-1"))
    keys.append("thr=" + ("default" if f.get("thr") == "d" else "set"))
    if "4" in f.get("seq", ""):
        keys.append("has-wildcard")
    return keys


COMMON_TRUSTED = [
    "Coq 8.16.1 kernel (coqc); Flocq 4.1 BinarySingleNaN as the definition of binary32 arithmetic",
    "extraction: ExtrOcamlBasic only (nat, Z, positive, list kept as extracted inductives); OCaml 4.13.1",
    "hand-written OCaml driver ocaml/scan/driver.ml (parsing, printing, comparison of hit lists)",
    "Rust harness harness/src/bin/scan.rs (generator, ScoringMatrix/StripedSequence construction through the public "
    "API, Scanner::new(..).threshold(..).block_size(..), next()/take()/max() under catch_unwind, backend hook "
    "pli::verif::force_backend)",
    "modelled by their specification, not verified here (other groups: C01/C04/C07/C08): the striped layout made by "
    "Stripe::stripe + configure_wrap (cell (r,c) = symbol c*R+r, wildcard past L), the AVX2 u8 kernel "
    "(= saturating sum of discrete cells), Maximum<u8>::max (largest cell), Threshold<u8>::threshold (cells >= t, "
    "row-major); all of them are exercised by the bit-exact replay on every run",
    "not modelled: usize overflow of row + block_size (unreachable: only evaluated when row < R and row is 0 or >= B), "
    "the unused f32 `scores` buffer of the Scanner, Scanner::scores()",
]

SPEC = dict(
    id="C02",
    group="scan",
    props_file="C02.v",
    module="LMScan.C02",
    harness_bin="scan",
    harness_args=["c02"],
    driver_args=["c02"],
    ml_modules=["scan_model"],
    n={"quick": 1000, "thorough": 12000},
    search_n={"quick": 3000, "thorough": 20000},
    nontrivial=nontrivial,
    histogram=histogram,
    rule="ScoringMatrix<Dna> with M in 1..12 (thorough ..30): cells on a 0.25 grid in [-4,4] with 0.01 jitters "
         "(optionally scaled x4/x25), few-valued matrices with exact ties, count-derived log-odds matrices, constant "
         "matrices; wildcard column -inf / 0 / finite. Sequences over ACGT with optional N and planted consensus "
         "words; L in {0, 1, M-1, M, M+1}, L with ceil(L/32) within +-M of a multiple of B, random L <= 600; "
         "B in {1,2,3,7,16,256,default}; wrap = M-1 (configure), larger, or too small (expected panics compared with the "
         "model only); thresholds -1000, min score, quantiles, an attained score, max, next float above max, max+1, "
         "default, 0, +-inf, NaN. Each case is run under the forced Generic, Sse2 and Avx2 dispatcher arms: "
         "iteration to exhaustion (hits in yield order, position + score bits), two take(k) prefixes, and the "
         "brute-force score_position of every position. PROPFAIL: extracted check_c02 (sorted hits == positions with "
         "score >= thr from the implementation's own scores; take(k) = k distinct qualifying hits; no panic). "
         "DIFF: bit-exact comparison with the extracted binary32 scanner model incl. yield order. Non-trivial: distinct "
         "(M, L, B, wrap, thr, matrix) with L >= M and wrap >= M-1.",
    trusted_base=COMMON_TRUSTED,
    assumptions=[
        "conservative (property C08): a position whose f32 score is >= t has an 8-bit score >= scale(t); it is a "
        "hypothesis of scan_complete (scan_sound does not need it) and is re-checked by the driver on every lost hit",
        "the striped sequence was configured for the motif (wrap >= M-1), the motif is not empty (M >= 1), no NaN "
        "among the non-wildcard matrix cells (to_discrete unwraps partial_cmp), block size >= 1",
    ],
)
