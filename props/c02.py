"""C02 — Scanner yields exactly the positions scoring at or above the threshold."""
from translate import scan_skel


def _fields(line):
    return dict(t.split("=", 1) for t in line.split(" ")[1:] if "=" in t)


def _shape(line):
    f = _fields(line)
    m = int(f.get("M", "0"))
    seq = f.get("seq", "-")
    l = 0 if seq == "-" else len(seq)
    b = 256 if f.get("B") == "d" else int(f.get("B", "1"))
    r = (l + 31) // 32
    wrap = int(f.get("wrap", "0"))
    return f, m, l, b, r, wrap


def nontrivial(line):
    # distinct (M, L, B, wrap, threshold) with at least one valid position and a
    # configured sequence
    f, m, l, b, r, wrap = _shape(line)
    if l >= m >= 1 and wrap >= m - 1:
        return (m, l, b, wrap, f.get("thr"), f.get("pssm", "")[:40])
    return None


def histogram(line):
    f, m, l, b, r, wrap = _shape(line)
    keys = ["B=%d" % b, "M<=%d" % (4 * ((m + 3) // 4))]
    if l == 0:
        keys.append("L=0")
    elif l < m:
        keys.append("L<M")
    elif l == m:
        keys.append("L=M")
    else:
        keys.append("L<=%d" % (10 ** len(str(l))))
    if b > 0 and r > 0:
        d = min(r % b, b - r % b)
        keys.append("rows-within-M-1-of-block-multiple" if d <= max(m - 1, 0) else "rows-away-from-block-multiple")
        keys.append("blocks=%s" % ("1" if r <= b else "2" if r <= 2 * b else "3+"))
    keys.append("wrap" + ("=M-1" if wrap == m - 1 else ">M-1" if wrap > m - 1 else "<M-1"))
    keys.append("thr=" + ("default" if f.get("thr") == "d" else "set"))
    if "4" in f.get("seq", ""):
        keys.append("has-wildcard")
    if m >= 100:
        keys.append("wide-motif(M>=100)")
    if b > 0 and r % b != 0 and wrap >= m - 1 + (b - r % b):
        keys.append("spare-wrap-rows-for-a-full-last-block")
    if "sw" in f and f["sw"] != "-":
        keys.append("setters-changed-between-calls")
        if len(f["sw"].split(":")[-1]) > 7:
            keys.append("new-block-size>1e7(word-level-model-only)")
    if b > 10 ** 7:
        # the unary nat-level model cannot take such a block size: the word-level model (ScanWord.v) is compared
        # instead and the replay of the skeleton scanner (ShapeConcrete.v) is SKIPPED for these cases
        keys.append("block-size>1e7(word-level-model-only,skeleton-replay-skipped)")
    try:
        import struct
        for row in f.get("pssm", "").split("/"):
            v = [struct.unpack("<f", struct.pack("<I", int(x)))[0] for x in row.split(",")]
            if len(v) == 5 and v[4] > max(v[:4]):
                keys.append("N-outweighs-every-base-in-some-row")
                break
    except (ValueError, struct.error):
        pass
    return keys


COMMON_TRUSTED = [
    "Coq 8.16.1 kernel (coqc); vm_compute is used for closed computations only (the worked example Ex of "
    "ConcreteProofs.v / DiscLink.v / DiscBridge.v, the toy-instance field deviations and C02_source_skeleton "
    "(gen_shape = ref_shape) of C02Source.v / C03Source.v, the 64-bit overflow witnesses of the _refuted theorems of "
    "C02Total.v / C03Total.v); no native_compute; Flocq 4.1 BinarySingleNaN as the definition of binary32 arithmetic "
    "and comparison",
    "extraction: ExtrOcamlBasic only (its Extract Inductive directives for bool, option, list, prod, unit, sumbool, "
    "sumor); no other Extract Inductive and no Extract Constant (nat, N, Z, positive stay extracted inductives); "
    "OCaml 4.13.1",
    "hand-written OCaml driver ocaml/scan/driver.ml: parsing and printing; the choice WHICH extracted checker runs on "
    "which observation; the DIFF comparisons with the extracted models (equality of lists of ints, same_consumed, "
    "is_prefix of the hits yielded before an overflow panic against the word-level model); SCAN_DRIVER_ALL=1 prints "
    "every verdict of a case on stderr (a DIFF behind a PROPFAIL is otherwise hidden)",
    "PROPFAIL decisions: all made by extracted functions - check_c02 (C02_check_sound / _complete; also on hit lists "
    "the harness cut off after rows*C+4 hits, which it necessarily rejects: a pass would be a DIFF), check_take "
    "(C02_check_take_sound / _complete), check_c03 (C03_check_sound / _complete), same_answer (C03_same_answer_spec: "
    "max-depends-on-block-size), check_sw (C02_check_sw_sound) and check_swmax (C03_check_swmax_sound) for the setter "
    "observations (a weak property of our own, stated in Coq). What remains hand-written on a PROPFAIL path: "
    "`panic => PROPFAIL when pre_ok` (score_position-panicked, panic-in-new, panic-after-n-hits, take(k)-panicked, "
    "sw-panicked, max-panicked, maxb-panicked, swmax-panicked: the gate pre_ok is extracted, C02_pre_ok_spec, the "
    "verdict itself is an `if`); `sw-more-hits-than-cells` (the harness stopped the iteration after the setters at "
    "rows*C+4 hits); the WORDING of the detail after a checker returned false (missing / spurious / duplicate, "
    "take(k)-length / -duplicate / -spurious, sw-* and swmax-* diagnostics, `...-rejected` when none of them fires); "
    "the notes c08-prefilter-not-conservative(.., wc=<extracted wc_input>) and usize-overflow(row+block_size) (= the "
    "extracted word-level model with overflow checks returned Panic 40) appended to a detail. No fail-open path: "
    "every skipped comparison (sc=P, new=P, model out of fuel, unparsable field) sets DIFF or PROPFAIL",
    "Rust harness harness/src/bin/scan.rs (generator, ScoringMatrix/StripedSequence construction through the public "
    "API, Scanner::new(..).threshold(..).block_size(..), next()/take()/max() under catch_unwind, the setters between "
    "calls (`sw=` / `swmax=`), max() under a second block size (`maxb=`), the runtime probe of the build profile "
    "`ovf=c|w`, backend hook pli::verif::force_backend); the per-position scores the checkers use are the "
    "implementation's own ScoringMatrix::score_position values",
    "the tie: that the hand-written model ScanModel.v/ScanConcrete.v follows scan.rs, pwm/mod.rs "
    "(to_discrete, scale, score_position), seq.rs (Index<usize>) and the guards of the score_rows_into wrappers is "
    "checked by bit-exact replay on every run (hits in yield order, take(k), max() after k next(), consumed hits by "
    "position and score bits, panics), not proved",
    "modelled by their specification inside the concrete model, not verified here (properties C04/C07/C08 of other "
    "groups): the striped layout made by Stripe::stripe + configure_wrap (cell (r,c) = symbol c*R+r, wildcard past L), "
    "the AVX2 u8 kernel (= saturating sum of discrete cells), Maximum<u8>::max (largest cell), "
    "Threshold<u8>::threshold (cells >= t, row-major); exercised by the replay on every run under all three arms; "
    "coq/e2e proves these specifications equal to the kernel models of the owning groups (e2e_kernels_agree_with_specs, an "
    "obligation of the thorough tier)",
    "usize arithmetic of `row + block_size` is modelled in coq/scan/ScanWord.v (word size and checked / wrapping / "
    "saturating add as parameters; WordProofs.v, SatProofs.v) and proved irrelevant for a block size set before the "
    "first call (C02_word_scanner_eq: 1 <= B < 2^64, 2R <= 2^64). With the plain `+` of the source before /repo commit "
    "3bcb63a it was NOT irrelevant when `Scanner::block_size` is called between calls with B' > 2^64 - R (finding "
    "F-scan-ovf, review top-15 item 6: panic in dev, duplicate hits / a consumed position from max() in release; "
    "C02_word_setters_any_block_size_refuted, C03_word_setters_max_any_block_size_refuted; the earlier sentence "
    "'overflow unreachable' was wrong for this call sequence). 3bcb63a replaced the four additions by "
    "`self.row.saturating_add(self.block_size)`: translate/scan_skel.py reads the KIND of the four additions "
    "(GenScan.gen_row_add_saturating, today true; all four must be of the same kind, wrapping_add / checked_add do not "
    "parse), WordSource.gen_ovf then selects the Saturating mode for both build profiles, and "
    "C02_word_saturating_setters_sound / C02_word_saturating_scanner_eq / C02_source_setters_between_calls_sound / "
    "C03_source_setters_max_eq hold for ANY new block size; known_findings.d/scan.json lists F-scan-ovf-c02 / -c03 as "
    "fixed and the witnesses corpus/C0{2,3}/wave3_overflow.txt must pass. The word-level model is tied by the `sw=` / "
    "`swmax=` replays (always when B or B' > 10^7, else on one arm per case next to the nat-level one) in the mode "
    "gen_ovf gives for the profile the harness reports; the `extra` step release_overflow_tie additionally runs the "
    "overflow witnesses through the RELEASE harness with SCAN_DRIVER_ALL=1 (any DIFF line or missing verdict is a "
    "broken tie; skipped under VERIF_NO_RELEASE=1)",
    "for block sizes above 10^7 the replay of the skeleton scanner (ShapeConcrete.v) is skipped and the word-level "
    "model replaces the unary nat-level one (histogram keys block-size>1e7(word-level-model-only,"
    "skeleton-replay-skipped) and new-block-size>1e7(word-level-model-only)); C02_word_scanner_eq proves the two equal",
    "not modelled: the unused f32 `scores` buffer of the Scanner, Scanner::scores(); block_size = 0 (never returns; "
    "outside the property, rejected by the Python binding)",
    "translator translate/scan_skel.py (regex/template reader of lightmotif/src/scan.rs: the statement skeleton of "
    "Iterator::next and of the Iterator::max override, the field initialisers of Scanner::new, the kind of the four "
    "row additions -> coq/scan/GenScan.v; a body that does not match the template is a broken obligation; "
    "`python3 translate/scan_skel_selftest.py` applies harmless rewrites, which must read the same skeleton, and the "
    "deliberate mutations of notes/scan.md, which must read a different one or fail to parse); that "
    "`Scanner::threshold` / `Scanner::block_size` only overwrite their field (ScanSwitch.v, ScanWord.v wswitch_*) is "
    "tied by replay only",
]

def release_overflow_tie(prop):
    """`extra` step of C02 / C03: the overflow witnesses of corpus/<id>/wave3_overflow.txt through the RELEASE build of
    the harness and the driver with SCAN_DRIVER_ALL=1.  The runner ignores release verdicts of cases whose dev verdict is
    not OK (the witnesses panic in the dev profile: known finding F-scan-ovf), so without this step the Wrapping mode of
    the word-level model (coq/scan/ScanWord.v) would never be compared with the code.  Any DIFF is a broken tie."""
    def extra(ctx):
        import os
        import subprocess
        from vlib import common as C
        out = []
        if os.environ.get("VERIF_NO_RELEASE") == "1":
            return out
        path = os.path.join(C.VERIF, "corpus", prop.upper(), "wave3_overflow.txt")
        if not os.path.exists(path):
            return out
        lines = [l for l in open(path).read().splitlines() if l.strip() and not l.startswith("#")]
        hr = C.build_harness("scan", release=True)
        if not hr.get("ok"):
            return [("DIFF", "release-profile overflow witnesses: release harness build failed", "")]
        try:
            obs = subprocess.run([hr["path"], prop, "run"], input="\n".join(lines) + "\n", capture_output=True,
                                 text=True, timeout=600)
            env = dict(os.environ, SCAN_DRIVER_ALL="1")
            ver = subprocess.run([ctx["driver"]["path"], prop], input=obs.stdout, capture_output=True, text=True,
                                 timeout=600, env=env)
        except (subprocess.SubprocessError, OSError) as e:
            return [("DIFF", "release-profile overflow witnesses: %s" % (e,), "")]
        by_id = {l.split(" ", 1)[0]: l for l in lines}
        seen = set()
        for l in ver.stdout.splitlines():
            seen.add(l.split(" ", 1)[0])
        for i in by_id:
            if i not in seen:
                out.append(("DIFF", "release-profile overflow witness %s: no verdict" % i, by_id[i]))
        for l in ver.stderr.splitlines():
            p = l.split(" ", 3)
            if len(p) >= 3 and p[0] == "#" and p[2] == "DIFF":
                out.append(("DIFF", "release-profile overflow witness: " + " ".join(p[1:]), by_id.get(p[1], "")))
        out.append(("EVAL", str(len(lines)), ""))
        return out
    return extra


def _e2e_obligations():
    # the end-to-end composition theorems of coq/e2e (text -> encode -> stripe -> configure -> Scanner) count as
    # obligations of this property in the thorough tier
    from props import e2e
    return e2e.obligations()


SPEC = dict(
    extra_obligations={"thorough": _e2e_obligations},
    extra_obligations_name="coq/e2e (E2E.v, E2EStat.v, E2EPyCore.v, E2EPadding.v): end-to-end composition of C05, C04, C01, C08, C07 with the scanner model",
    extra_obligations_cmd="make -C coq/e2e (and imported groups) + Print Assumptions audit of LME2E.E2E",
    id="C02",
    group="scan",
    props_file="C02.v",
    more_props=[("C02Source.v", "LMScan.C02Source"), ("C02Total.v", "LMScan.C02Total")],
    translate=scan_skel.translate,
    extra=release_overflow_tie("c02"),
    module="LMScan.C02",
    harness_bin="scan",
    harness_args=["c02"],
    driver_args=["c02"],
    ml_modules=["scan_model"],
    n={"quick": 850, "thorough": 6000},
    escalate=2,   # quick tier on a changed source: twice the cases, thorough-tier generator (default 4 is too slow here)
    search_n={"quick": 3000, "thorough": 20000},
    nontrivial=nontrivial,
    histogram=histogram,
    rule="ScoringMatrix<Dna> with M in 1..12 (thorough ..30): cells on a 0.25 grid in [-4,4] with 0.01 jitters "
         "(optionally scaled x4/x25, optionally shifted by +-8..4096 as long as the matrix keeps a margin of 4 on coq/disc's "
         "conditioning predicate), few-valued matrices with exact ties, count-derived log-odds matrices, constant "
         "matrices (zeros of mixed signs included: the repaired F14b path); wildcard column -inf / 0 / finite. Sequences over ACGT with optional N and planted consensus "
         "words; L in {0, 1, M-1, M, M+1}, L with ceil(L/32) within +-M of a multiple of B, random L <= 600; "
         "B in {1,2,3,7,16,256,default}; wrap = M-1 (configure), larger, or too small (expected panics compared with the "
         "model only); thresholds -1000, min score, quantiles, an attained score, max, next float above max, max+1, "
         "default, 0, +-inf, NaN. Each case is run under the forced Generic, Sse2 and Avx2 dispatcher arms: "
         "iteration to exhaustion (hits in yield order, position + score bits), two take(k) prefixes, and the "
         "brute-force score_position of every position. PROPFAIL: the extracted checker check_c02, proved sound in Coq "
         "(C02_check_sound: true => the hit list has no duplicate position and contains (i,s) iff s is the score of "
         "position i and s >= thr), on the implementation's own scores (also on a hit list the harness cut off after rows*C+4 "
         "hits); take(k) by the extracted checker check_take (C02_check_take_sound: true => min(k,#qualifying) distinct "
         "qualifying hits with exact scores; C02_check_take_complete); any panic on an input that satisfies the extracted "
         "predicate pre_ok (C02_pre_ok_spec: configured input). DIFF: bit-exact comparison with the extracted binary32 "
         "scanner model incl. yield order and panic sites. Non-trivial: distinct (M, L, B, wrap, thr, matrix) with "
         "L >= M and wrap >= M-1. Theorems (C02.v, 17): C02_scan_sound, C02_take_sound (unconditional), C02_scan_complete, "
         "C02_next_total, C02_take_prefix (all B >= 1, all R/Lm incl. L<M, L=0, R multiple of B, any threshold; under "
         "the layout hypotheses and C08 conservativeness at the threshold), C02_scan_blocks_partition, C02_scan_reads_blocks_only (next() scores no row range other than "
         "the blocks), C02_check_sound, "
         "C02_check_complete (the checker raises no false alarm); for the extracted concrete model, every arm, with the "
         "layout hypotheses discharged: C02_concrete_scan, C02_concrete_scan_explicit (scores written out as the "
         "left-to-right f32 sum / saturating byte sum of the window cells), C02_concrete_scan_c08 (conservativeness "
         "reduced to C08's main clause per position, via coq/disc's C08_scale_monotone_f32 and the sign of the factor, "
         "which is clear since the repair of F14b), C02_concrete_scan_well_conditioned / C02_concrete_scan_wc_checked (NO numeric "
         "hypothesis left: for matrices with finite non-wildcard cells that satisfy coq/disc's executable conditioning "
         "predicate - evaluated by the driver as wc_input on every lost hit - the concrete binary32 scanner yields exactly "
         "the qualifying positions; through DiscBridge.v: the two models of to_discrete / scale / the window scores agree), "
         "C02_concrete_sound; C02_setters_between_calls_sound / C02_concrete_setters_between_calls_sound (after k calls of next() "
         "under (thr, B), lowering or keeping the threshold and changing the block size: the first k hits meet thr, all hits are valid "
         "positions with exact scores meeting the new threshold, no position twice; soundness only; these nat-level statements say "
         "ANY B' of a model without word size - their reading 'of the code' is the word-level C02_word_setters_between_calls_sound "
         "(plain `+`: any new block size B' <= 2^64 - R; beyond the bound the code before /repo 3bcb63a panicked or yielded "
         "duplicates: C02_word_setters_any_block_size_refuted, finding F-scan-ovf) and, for the repaired source with "
         "saturating_add, C02_word_saturating_setters_sound / C02_source_setters_between_calls_sound: ANY B'). "
         "Translator translate/scan_skel.py re-reads scan.rs on every run into coq/scan/GenScan.v (22-field statement skeleton of "
         "Iterator::next / the Iterator::max override + the field initialisers of Scanner::new); C02Source.v (8 theorems: "
         "C02_source_skeleton, C02_source_defaults, C02_source_model_eq, C02_source_concrete_eq, C02_source_scan_sound, "
         "C02_source_scan_complete, C02_source_concrete_scan_wc_checked, C02_source_fields_matter) restates the property for the "
         "scanner parameterised by that skeleton (ScanShape.v) and shows on a toy instance that 13 single-field deviations of next() "
         "violate it; the extracted skeleton scanner is replayed against the implementation under one arm per case; `B=d` / `thr=d` "
         "use the defaults read from Scanner::new. Generator (round 3): sequences configured for a longer motif first (wrap > M-1 in "
         "14 % of the cases, up to 40 extra rows), 1/8 of the cases with a partial last block and spare wrap rows for a full one, "
         "block sizes 4,5,6,9,12,32,33,40 in addition, per-row N cells above the best base, thresholds 1..3 floats around attained "
         "scores, wide motifs (M 100..299 quick, ..2000 thorough), setters called between calls of next() (`sw=`: DIFF against "
         "ScanSwitch.v and the word-level model + the extracted judge check_sw, a weak property of our own, C02_check_sw_sound; "
         "the theorems cover soundness for a lowered or kept threshold only). The corpus (run first) holds boundary cases, the inputs on which seven deliberate "
         "mutations of scan.rs and the seeded changes were caught, the witnesses of the repaired defect F14b (must pass) and "
         "the witness of the known finding F14-c02; corpus/C02/round3.txt (13 cases: spare wrap rows, 30+ extra wrap rows, N above the "
         "best base, one wide motif, setters between calls) and round3_mutation_witnesses.txt. "
         "C02Total.v (wave 3; 13: 9 property/model theorems, 4 judge specifications): C02_scan_total, C02_concrete_total (no panic / "
         "termination of next() from every state, take(k), exhaustion under the layout hypotheses only - no hypothesis on the 8-bit "
         "pre-filter, so also on ill-conditioned matrices (known finding F14: hits can be lost, nothing panics or hangs); the result "
         "is sound), C02_word_scanner_eq, C02_word_scan_complete (usize-level scanner of coq/scan/ScanWord.v: block size fixed before "
         "the first call, any 1 <= B < 2^64, 2R <= 2^64, checked / wrapping / saturating add alike), "
         "C02_word_setters_between_calls_sound, C02_word_setters_any_block_size_refuted (B' = 2^64-1 after 3 calls: Panic 40 with "
         "overflow checks, duplicate hits when wrapping, right answer when saturating), C02_word_saturating_setters_sound, "
         "C02_word_saturating_scanner_eq, C02_source_setters_between_calls_sound (at the add kind the translator reads from scan.rs: "
         "bound R + B' <= 2^64 with `+`, none with saturating_add - the source since /repo 3bcb63a), C02_check_take_sound / _complete, "
         "C02_pre_ok_spec, C02_check_sw_sound. C02Source.v's 8 theorems are TIE theorems (rewrites through gen_shape = ref_shape), not "
         "additional property strength. PROPFAIL decisions are all made by extracted functions: check_c02 (also for hit lists cut off "
         "by the harness), check_take, check_sw (setters between calls), pre_ok (gate of panic => PROPFAIL). Generator (wave 3): "
         "block sizes usize::MAX, usize::MAX-1, 2^63, 2^32, 10^8 in 1/40 of the cases (word-level model replayed, skeleton replay "
         "skipped), B2 = 2^64 - d (d in {1, 2, R, R+1, random <= 2R+2}) after k calls in 1/6 of the sw cases; "
         "corpus/C02/wave3_overflow.txt (ovf0-3, ovfb, bigB1-3: the witnesses of the repaired F-scan-ovf, which must pass, the "
         "no-overflow boundary 2^64 - R and huge block sizes set before iteration), run in the dev profile and, by the `extra` step, "
         "through the release build.",
    trusted_base=COMMON_TRUSTED,
    assumptions=[
        "conservative (property C08) at the scanner's threshold: a valid position whose f32 score is >= thr has an "
        "8-bit score >= scale(thr). Hypothesis of C02_scan_complete / C02_take_prefix / C02_concrete_scan only "
        "(C02_scan_sound, C02_take_sound, C02_concrete_sound do not need it). Group disc proves it in exact arithmetic "
        "and refutes it for binary32 on ill-conditioned matrices (C08_ieee_refuted); the driver re-checks it on every "
        "lost hit and names it in the PROPFAIL detail (c08-prefilter-not-conservative)",
        "layout hypotheses of the abstract theorems (score_position defined on the L-M+1 valid positions; block "
        "scores of rows a..e = byte score of position c*R+a+r in cell (r,c), no rows when L < M; Lm <= R*C): proved "
        "for the concrete model in ConcreteProofs.v for every well-formed input (C >= 1, M >= 1, wrap >= M-1, matrix "
        "rows of >= K cells, symbols < K) and every arm",
        "qualifying scores are not NaN: follows from the IEEE comparison (F32Order.v: x >= t implies x is not NaN)",
        "C02_concrete_scan_well_conditioned / _wc_checked import coq/disc's binary32 main-clause theorem "
        "(DiscF32Sign.f32_main_all_factors' = C08_f32_main_well_conditioned_partial) through coq/scan/DiscBridge.v; their side "
        "conditions are executable (finite non-wildcard cells, factor not NaN and 0 or >= 8(M+1)ulp(A), M <= 16384, "
        "A <= 2^126) and hold on all generated cases; the Reals axioms of the Coq standard library are used there",
        "C02_concrete_scan_c08 imports coq/disc (DiscF32Mono.scale_with_f32_mono: binary32 scale is monotone when the "
        "sign bit of the factor is clear; DiscF32Sign.div_abs_sign: it is, for the repaired to_discrete); its only "
        "numeric hypothesis is C08's main clause at every position (byte score >= scale(real score)), which is false "
        "on ill-conditioned matrices (known finding F14)",
        "input side conditions of the property: block size >= 1, motif not empty, sequence configured for the motif; "
        "no NaN among the non-wildcard matrix cells (to_discrete unwraps partial_cmp: Scanner::new panics, compared "
        "with the model only)",
        "block size fixed before the first call (the property text) - or changed between calls: with the plain `+` of the "
        "source before /repo 3bcb63a only to B' <= 2^64 - R (C02_word_setters_between_calls_sound), with the repaired "
        "saturating_add to any B' (C02_word_saturating_setters_sound; C02_source_setters_between_calls_sound carries the "
        "hypothesis `gen_row_add_saturating = true or R + B' <= 2^64`, whose first disjunct the translator's constant makes "
        "true today); word-level theorems assume 1 <= B < 2^64 and 2R <= 2^64",
        "the theorems that carry the C08 hypothesis (C02_concrete_scan, C02_concrete_scan_explicit, C02_concrete_scan_c08) "
        "are PARTIAL in the sense of the guide (names kept without `_partial`: coq/e2e refers to them by name); totality "
        "needs no numeric hypothesis (C02_scan_total, C02_concrete_total: layout hypotheses only)",
    ],
)
