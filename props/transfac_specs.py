"""C14 / C15 for the TRANSFAC reader (group `transfac`): SPEC dicts merged by props/c14.py and
props/c15.py with the JASPAR / JASPAR16 / UniPROBE group."""


from translate import transfac_reader


def _fields(line):
    return dict(t.split("=", 1) for t in line.split(" ")[1:] if "=" in t)


def _mine(line):
    return " fmt=transfac" in line


def _nontrivial_c14(line):
    # distinct files with at least two records or a matrix of width >= 2, read through >= 2 chunkings
    if not _mine(line):
        return None
    f = _fields(line)
    if "file" in f:
        return f["file"]
    recs = f.get("recs", "")
    if recs.count(";") >= 1 or recs.count("/") >= 1:
        return (f.get("le"), f.get("fnl"), f.get("vv"), f.get("lay"), recs)
    return None


def _hist_c14(line):
    if not _mine(line):
        return []
    f = _fields(line)
    if "file" in f:
        # inst=1: the driver must recognise the file as an instance of C14.reader_roundtrip; inst=0: declared not to be
        # one (records compared with the model only) -- anything else is a DIFF
        return ["bundled-file", "bundled-file-" + ("compared-with-theorem-expected-records(inst=1)" if f.get("inst") == "1"
                                                   else "NOT-compared-with-what-is-written(inst=%s)" % f.get("inst", "?"))]
    n = f.get("recs", "").count(";") + 1
    keys = ["alpha=" + f.get("alpha", "?"), "le=" + f.get("le", "?"), "fnl=" + f.get("fnl", "?"),
            "vv=" + ("yes" if f.get("vv", "-") != "-" else "no"),
            "layout=" + ("canonical" if f.get("lay") == "canon" else "varied"),
            "roundtrip-theorem-hypothesis(wf_file)=" + ("yes" if f.get("wf") == "1" else "no"),
            "records<=%d" % (1 if n <= 1 else 5 if n <= 5 else 40 if n <= 40 else 120 if n <= 120 else 300)]
    return keys


def _nontrivial_c15(line):
    # distinct non-empty byte strings
    if not _mine(line):
        return None
    f = _fields(line)
    d = f.get("data", "")
    return (f.get("alpha"), d) if d else None


def _hist_c15(line):
    if not _mine(line):
        return []
    f = _fields(line)
    d = f.get("data", "")
    n = len(d) // 2
    keys = ["alpha=" + f.get("alpha", "?"), "bytes<=%d" % (0 if n == 0 else 16 if n <= 16 else 128 if n <= 128 else 1024 if n <= 1024 else 100000)]
    keys.append("polls-after-first-error-or-end=" + f.get("post", "0"))
    if f.get("evs"):
        keys.append("io-fault-scripts=%d" % (f["evs"].count("/") + 1))
        if "Ei" in f["evs"]:
            keys.append("io-interrupted")
        if "Ez" in f["evs"]:
            keys.append("io-transient-end-of-input")
    try:
        b = bytes.fromhex(d)
        try:
            b.decode("utf-8")
        except UnicodeDecodeError:
            keys.append("invalid-utf8")
        if b"//" not in b:
            keys.append("no-terminator")
        if b and not b.endswith(b"\n"):
            keys.append("no-final-newline")
    except ValueError:
        pass
    return keys


_TRUSTED = [
    "Coq 8.16.1 kernel (coqc); vm_compute only in the Example lemmas of C14.v / C15.v and in the two concrete "
    "counterexample theorems C15.reader_polls_fault_refuted / reader_total_streaming_refuted; no native_compute",
    "extraction: ExtrOcamlBasic only (its Extract Inductive directives for bool, option, list, prod, unit, sumbool, "
    "sumor); no other Extract Inductive, no Extract Constant (nat, N, Z, positive, byte stay extracted inductives); "
    "OCaml 4.13.1",
    "hand-written OCaml driver ocaml/transfac/driver.ml (line parsing, chunk construction, calls of the extracted "
    "checkers check_c14/check_c15 -- proved sound and complete in CheckProofs.v -- and of the extracted reader+parser "
    "model (record parser TransfacCur.parse_record_cur), messages; the recogniser of the bundled files is hand-written "
    "and untrusted: its output counts only if the extracted wf_file accepts it and the extracted print_file re-prints "
    "the file byte for byte). No hand-written PROPFAIL path remains: PROPFAIL is decided by extracted checkers only - "
    "check_c15p (C15.check_c15p_sound / check_c15p_complete), check_c14p (C14.check_c14p_sound), check_same_chunkings "
    "(chunking clause) and check_count (bundled file = nrec records, END, END x post; "
    "C14.check_same_chunkings_sound / check_count_sound are equivalences; proofs in PollProofs.v); their arguments "
    "(the expected records of a generated case, nrec of a bundled file) come from the input line. Hand-written around "
    "them: the message text, the rule that a PROPFAIL takes precedence over a DIFF, and the labelling of a check_c15p "
    "rejection as known finding F-T1 when the model of the code as it is panics on the same script. No verdict "
    "fails open: a skipped transfac line, a record outcome without to_freq fields, a bundled file that is neither "
    "inst=1 nor inst=0, and parse_streaming_modelled = false are DIFFs",
    "Rust harness harness/src/bin/transfac.rs (file generators and mutators, canonical printer print_canon compared "
    "byte for byte with TransfacPrint.print_file, custom chunked BufRead, scripted failing BufRead EvChunked (fill_buf fails with "
    "kind Other, is interrupted, or returns an empty slice once although more data follows (`Ez`) at chosen points), polling "
    "consumer read_all(b, cap, post), catch_unwind + watchdog thread)",
    "translator translate/transfac_reader.py (regex reading of the two `last` updates and the starts_with literals of reader.rs, the "
    "two-letter codes of parse_tag in parse.rs, K and the from_ascii arms of Dna / Protein in abc.rs; wave 3: every path of "
    "transfac/parse.rs (outside #[cfg(test)]) with a segment `streaming`, the functions naming `space1`, whether `Incomplete` / "
    "`Needed` is named; whether the Incomplete arm of `impl From<nom::Err<..>> for Error` in error.rs is a panicking macro "
    "-> coq/transfac/GenReader.v; anything else = cannot parse = broken obligation)",
    "modelled, not verified: transfac/{reader,parse,mod}.rs and error.rs as Gallina functions on byte lists; "
    "nom 7.1.3 combinator semantics (Nom.v, error kinds not modelled); std BufRead::read_until/read_line over "
    "fill_buf/consume and str::from_utf8 (Stream.v, Bytes.utf8_valid; over fault events TransfacFault.v); str::trim with "
    "the White_Space set; character-level operations read at byte level (exact on valid UTF-8, which read_line guarantees); "
    "the reader model assigns `last = length buf'` like the source (`last = buffer.len()`, reader.rs since /repo 23feb61; "
    "C15.reader_model_last_is_source_last re-checks the translated flag on every run); f32::from_str is Ok on every token "
    "nom's recognize_float_or_exceptions accepts, i.e. the `parse_to() == None` branch of nom::number::complete::float is not "
    "modelled (it would show as DIFF model=R impl=E:nom)",
    "decimal -> f32: NOT trusted to Rust: Dec2F32.f32_of_token converts the token exactly (integer arithmetic + one "
    "Flocq binary_normalize rounding) and the harness' cell bits (Rust's str::parse::<f32>) are compared with it bit for bit",
    "Flocq 4.1.0 binary32 (BinarySingleNaN) for cell values, Record::to_counts (round, ==, saturating cast) and Record::to_freq "
    "(TransfacFreq.v; scalar pseudocounts 0.0 and 0.5 only)",
]

C14_SPEC = dict(
    id="C14",
    name="transfac",
    group="transfac",
    props_file="C14.v",
    module="LMTransfac.C14",
    translate=transfac_reader.translate,
    harness_bin="transfac",
    harness_args=["c14"],
    driver_args=["c14"],
    ml_modules=["transfac_model"],
    n={"quick": 400, "thorough": 4000},
    search_n={"quick": 600, "thorough": 4000},
    nontrivial=_nontrivial_c14,
    histogram=_hist_c14,
    rule="[TRANSFAC] files written from random record lists (1..300 records, matrices of 1..40 rows, optional "
         "ID/AC/NA/DE, P0 symbols a permutation of all / all+wildcard / a subset, DNA and protein, integer and "
         "decimal/exponent/nan/inf/huge counts, LF or CRLF, optional VV header, with or without the final newline) by "
         "the canonical printer (= Coq print_file, compared byte for byte; per record the lines in random order with "
         "XX lines, BA/BS/BF/CO lines, CC runs, DT lines and reference blocks sprinkled in, a random blank/tab column separator, P0/PO, optional consensus column "
         "or trailing blanks) or by a layout-varied printer (field order, "
         "XX lines, blanks/tabs, PO/P0, label styles, consensus column, references, unobserved BF/BA/BS/CC/CO/DT lines), "
         "plus the bundled tests/*.transfac and benches/prodoric.transfac (353 records), which an (untrusted) "
         "recogniser in the driver + the extracted wf_file/print_file confirm to be byte-for-byte instances of "
         "C14.reader_roundtrip, so that every record the implementation returns for them is compared with the "
         "theorem's expected_record; each file read through "
         "BufReader capacities 1,2,3,5,17,64,8192,1048576 and a custom BufRead with a cyclic random chunk-size pattern. "
         "Checked: the outcome sequence (id, accession, name, description, every cell as f32 bits, references, "
         "to_counts) equals the written records then END (extracted check_c14p), is the same for all 9 chunkings (extracted "
         "check_same_chunkings on the parsed outcome sequences -> PROPFAIL; a difference in the raw text only, i.e. in the "
         "to_freq fields, -> DIFF), a bundled file gives nrec records then END (extracted check_count) and must say inst=1 "
         "(recognised instance of reader_roundtrip, else DIFF) or inst=0 (declared not to be one; counted in the histogram), and "
         "equals the extracted reader+parser model run on one chunk, on the random chunking and on 1-byte chunks; "
         "canonical cases carry wf=1 and the driver confirms with the extracted wf_file that they lie inside the "
         "hypothesis of C14.reader_roundtrip. Round 3: generated lines carry post=2 (two more next() after the end of input, under "
         "all 9 chunkings): expected records, END, then END post times (extracted check_c14p: check_c14p_sound, "
         "check_c14p_is_check_c14, model_passes_c14p; theorem reader_roundtrip_post); every record outcome carries "
         "Record::to_freq(0.0) / to_freq(0.5) as f32 bits, recomputed by the extracted to_freq_bits from the record's own cells "
         "(DIFF to_freq(..); theorems to_freq_shape, to_freq_rows_normalised). 21 theorems in coq/transfac/C14.v. "
         "Non-trivial: distinct files with >= 2 records or a matrix of >= 2 rows.",
    trusted_base=_TRUSTED,
    assumptions=[
        "TRANSFAC: reader_roundtrip (all record lists meeting the boolean wf_file, all chunkings) is proved for the "
        "files written by TransfacPrint.print_file: optional VV header; every record a list of lines IN ANY ORDER and "
        "number -- AC/ID/NA/DE lines (any blanks/tabs, possibly none, between the code and the value; a repeated line: "
        "the last wins), BA/BS/BF/CO lines with any one-line text, runs "
        "of CC lines, DT lines (dd.mm.yyyy (created|updated); author.), XX lines, reference blocks (RN [n] with optional '; xref.', then any RX PUBMED / RA / RT / RL lines: number, "
        "cross reference and the last pmid / title / link of the block are returned, blocks in file order), matrix "
        "blocks (header P0 or PO, symbols in any order / any subset without repetition, any non-empty "
        "blank/tab string of its own before every symbol and every count -- e.g. right-aligned columns --, one row per "
        "position, any one-line UTF-8 text starting with a blank after the last count, e.g. the consensus letter column) -- then the '//' line; LF or "
        "CRLF; last '//' with or without line ending; counts = any token that nom's float parser accepts entirely "
        "(digits, fraction, exponent, sign, nan, inf), row labels = anything nom's u32 accepts, AC/ID/NA/DE values = "
        "any one-line valid UTF-8 text that trim() leaves unchanged. Not in the theorem, "
        "covered by the correspondence check (model = implementation, implementation = written records) only: "
        "blanks after the line codes RN/RT/RL/DT other than the two canonical ones, RX lines not of the form "
        "'RX  PUBMED: id.'",
        "TRANSFAC: the theorems speak of count *tokens* (the matrix cell holds the token written under that symbol); "
        "the token -> f32 conversion is outside the theorem: Dec2F32.f32_of_token (exact, Flocq) is compared bit for "
        "bit with the cell the implementation produced (Rust str::parse::<f32> via nom) on every evaluated token",
        "TRANSFAC: a file starting with the letters VV is read as having a version header: everything up to the "
        "first '//' line is dropped by Reader::new (behaviour of the code, modelled as is; the printer closes the "
        "header with XX and '//')",
        "TRANSFAC: a stream is a partition of the bytes into the pieces the BufRead delivers; empty pieces are not "
        "deliveries (C14.empty_chunks_are_not_deliveries); what std does with an empty fill_buf slice belongs to the fault "
        "model of C15",
    ],
)

C15_SPEC = dict(
    id="C15",
    name="transfac",
    group="transfac",
    props_file="C15.v",
    module="LMTransfac.C15",
    translate=transfac_reader.translate,
    harness_bin="transfac",
    harness_args=["c15"],
    driver_args=["c15"],
    ml_modules=["transfac_model"],
    n={"quick": 6500, "thorough": 100000},
    search_n={"quick": 10000, "thorough": 100000},
    nontrivial=_nontrivial_c15,
    histogram=_hist_c15,
    rule="[TRANSFAC] malformed inputs: valid generated files (1..3 records, canonical or varied layout, DNA/protein) "
         "unchanged (10%) or after 1-2 mutations (truncation at any byte, byte substitution/deletion/insertion, cut "
         "inside or after the alphabet line with trailing blanks, dropped or duplicated line, ragged / non-numeric / "
         "'1e' / 'infinity' / overflowing count tokens, LF->CR swaps, garbage after the last '//', spliced blocks), "
         "random bytes and random format-alphabet strings, the empty input, and the corpus of F18 witnesses and "
         "boundary inputs; each read through two BufReader capacities and a random chunk pattern under catch_unwind "
         "with a watchdog; after the first outcome that is not a record `next()` is called post = 0..6 more times (every outcome "
         "printed); 18 % of the cases are 2-4 record files with damaged UTF-8 (invalid bytes at any offset, at line starts, "
         "multi-byte characters at line starts); half of the cases are also read through 1-2 scripted streams whose fill_buf "
         "fails (kind Other) or is interrupted at chosen points (corpus/C15/transfac_poll.txt: 0xff at every offset and a fault after "
         "every number of bytes of a 3-record file) or returns an empty slice although more data follows (`Ez`, a transient end "
         "of input: corpus/C15/transfac_eof.txt, 17 % of the generated cases). Checked: every outcome sequence is records, one error or END, then exactly post "
         "returned values, no PANIC/HANG (extracted check_c15p, proved sound and complete), and equals outcome by outcome (record "
         "contents included, error kind io/nom) the extracted model (record parser TransfacCur.parse_record_cur = the model of "
         "space1 selected by the streaming combinators the translator finds in parse.rs -- none; reader model for the chunkings; fault model selected by the "
         "translated flag for the scripted streams: since /repo 23feb61 the flag reads `last = buffer.len()` = the repaired reader, "
         "total for any number of polls). 43 theorems in coq/transfac/C15.v (27 property theorems, 7 instantiated with generated "
         "constants, 9 translation ties); those named `_current` / `_generated` / gen_prefixes_are_modelled / "
         "reader_model_last_is_source_last / parse_streaming_is_modelled / parsers_are_complete / parse_record_cur_is_fixed / "
         "error_from_incomplete_is_generated are re-checked against GenReader.v on every run. Non-trivial: distinct non-empty inputs.",
    trusted_base=_TRUSTED,
    assumptions=[
        "TRANSFAC: for streams whose fill_buf fails, reader_total_faults_stop (reader as it was before /repo 23feb61, consumer stops "
        "at the first error) and reader_total_faults_repaired (with `last = buffer.len()`, any number of polls) are proved; "
        "reader_total_faults_current / reader_total_faults_stop_current speak about whichever of the two the translator reads from "
        "reader.rs (the repaired one since 23feb61). Polling the UNREPAIRED reader again after a fault in the middle of a line can "
        "panic (finding F-T1, witness kept as reader_polls_fault_refuted; status fixed in known_findings.d/transfac.json); std's "
        "read_until/read_line/append_to_string semantics (Interrupted retried, valid partial line kept on error, invalid appended "
        "bytes cut back) are modelled in TransfacFault.v and tied by the scripted-stream differential check; without faults the fault "
        "model is the reader model of the other theorems for either assignment of `last` (fault_free_agree_any, "
        "fault_free_agree_current, fault_free_trace_current); a fill_buf that returns an EMPTY slice although more data follows "
        "(event EEof) is part of the fault model and of these theorems (no panic, no hang), but the outcomes then differ from "
        "those of the uninterrupted stream (the end of input is returned, later requests return more records: ex_transient_eof) "
        "-- C14 and reader_end_is_final speak of chunkings of a byte string only",
        "TRANSFAC: reader_total is a theorem about the Gallina model (reader.rs, parse.rs, error.rs, the nom "
        "combinators and std's read_line as modelled in Nom.v / Stream.v); panic sites of the model = the slice "
        "`buffer[last..]` (bounds, char boundary) and `unreachable!()` on nom::Err::Incomplete (that parse.rs uses complete "
        "combinators only, so that Incomplete cannot arise, is a regenerated static fact: C15.parsers_are_complete / "
        "parse_streaming_is_modelled against GenReader.v; that the Incomplete arm of error.rs panics is re-read as well: "
        "C15.error_from_incomplete_is_generated); allocation failure, "
        "stack overflow and panics inside nom/std themselves are not modelled (nom's float parser and f32::from_str "
        "are total); Record::to_counts / to_freq are called by the harness under catch_unwind and compared with the model "
        "(to_freq: TransfacFreq.v) but are not part of the totality theorem",
    ],
)
