"""C05 — encoding accepts exactly the alphabet and is identical on every backend."""
from translate import encode_abc


def _fields(line):
    return dict(t.split("=", 1) for t in line.split(" ")[1:] if "=" in t)


def _bytes(f):
    h = f.get("hex", "")
    return bytes.fromhex(h) if h else b""


_ALPH = {"dna": b"ACTGN", "protein": b"ACDEFGHIKLMNPQRSTVWYX"}


def nontrivial(line):
    # distinct (alphabet, text) that contains a byte outside the alphabet or whose
    # length is not a multiple of 32 (scalar tail present)
    f = _fields(line)
    if f.get("kind") not in ("str", "win"):
        return None
    s = _bytes(f)
    al = _ALPH.get(f.get("abc", "dna"), b"")
    if f.get("kind") == "win":
        # sub-slice cases: at least one misaligned offset pair and a text with more than one
        # 16-byte vector or a foreign byte
        if (f.get("so"), f.get("do")) != ("0", "0") and (len(s) > 16 or any(b not in al for b in s)):
            return (f.get("abc"), f.get("hex"), f.get("so"), f.get("do"), f.get("dl"))
        return None
    if len(s) % 32 != 0 or any(b not in al for b in s):
        return (f.get("abc"), f.get("hex"))
    return None


def histogram(line):
    f = _fields(line)
    if f.get("kind") not in ("str", "win"):
        return ["kind=tab", "abc=" + f.get("abc", "?")]
    s = _bytes(f)
    al = _ALPH.get(f.get("abc", "dna"), b"")
    bad = [i for i, b in enumerate(s) if b not in al]
    keys = ["abc=" + f.get("abc", "?"), "nbad=%d" % min(len(bad), 3)]
    if f.get("kind") == "win":
        keys.append("kind=win")
        keys.append("win-grid:so=%s,do=%s" % ("0:31" if f.get("so") == "0:31" else "0:15" if f.get("so") == "0:15" else "one",
                                              "0:31" if f.get("do") == "0:31" else "0:15" if f.get("do") == "0:15" else "one"))
        if bad:
            p = bad[0]
            keys.append("win-first-bad:" + ("prologue(<16)" if p < 16 else "16..31" if p < 32 else
                                            "last16" if p >= len(s) - 16 else "middle"))
    n = len(s)
    keys.append("len=0" if n == 0 else "len<16" if n < 16 else "len<32" if n < 32 else "len<=130" if n <= 130
                else "len<=600" if n <= 600 else "len>600")
    keys.append("len%%32=%s" % ("0" if n % 32 == 0 else "1..15" if n % 32 < 16 else "16" if n % 32 == 16 else "17..31"))
    if f.get("dl", "0") != "0":
        keys.append("dst-length-mismatch")
    if bad:
        p = bad[0]
        keys.append("first-bad:" + ("avx2-tail" if p >= 32 * (n // 32) else "lane%d" % (p % 32) if p % 32 in (0, 15, 16, 17, 31) else "block"))
        b = s[p]
        keys.append("bad-byte:" + ("lower" if 97 <= b <= 122 else "high" if b >= 128 else "upper" if 65 <= b <= 90 else "other"))
        try:
            s.decode("utf-8")
            if any(x >= 128 for x in s):
                keys.append("utf8-multibyte")
        except UnicodeDecodeError:
            keys.append("not-utf8")
    return keys


def signature(detail, obs_line):
    return detail


SPEC = dict(
    id="C05",
    group="encode",
    props_file="C05.v",
    module="LMEncode.C05",
    harness_bin="encode",
    ml_modules=["encode_model"],
    n={"quick": 4800, "thorough": 120000},
    search_n={"quick": 20000, "thorough": 120000},
    translate=encode_abc.translate,
    nontrivial=nontrivial,
    histogram=histogram,
    signature=signature,
    rule="DNA and protein byte strings: (a) systematic part — every byte value 0..255 placed at a position class "
         "{0, 15,16,17, 31,32,33, inside the AVX2 scalar tail, last} of an otherwise valid text of length "
         "{33,34,47,48,49,64,65,66,96,97,130} (quick: 3 rotating (class,length) pairs per value and alphabet = 1536 "
         "texts; thorough: the full product 2x256x9x11 = 50688); (b) random part — lengths 0..130 (70%), block-edge "
         "lengths (20%), 131..600 (9%), 1000..3000 (1%), 0/1/2 invalid bytes (lower case, letter+-1, letter|0x80, "
         "control/punctuation, other upper case, multi-byte UTF-8 characters, uniform) at class or uniform positions; "
         "3% of the cases give encode_into a destination 1/16/32 longer or 1/16/33 shorter; (c) one table case per alphabet "
         "(from_ascii over 256 bytes, as_ascii/as_char/as_index over symbols(), as_str, K, from_char over 398 chars incl. U+017F, U+0131, U+212A, full-width and mathematical letters); "
         "(d) sub-slice cases (kind=win, one sixth of the run): texts of the lengths {0,1,2,15..18,30..34,46..50,63..66,"
         "79..81,95..97,111..113,127..130} (80%) or 0..199, 0/1/2 foreign bytes at position classes {0, 1..14, 15, 16..31, "
         "31, 32..47, last 16, the 16 before, SSE2 tail, last, uniform}, 4% destination longer/shorter; every pipeline's "
         "encode_into(&text[B+so..][..len], &mut mem[B'+do..][..len+dl]) for every pair (so,do) of a grid (0..31 x 0..31: "
         "30%, one so in 0..63 x 0..31: 30%, 0..31 x one do in 0..63: 20%, 0..15 x 0..15: 20%) of misalignments from 64-byte aligned bases, "
         "source surrounded by foreign bytes, destination by guard symbols, and encode_raw(&text[B+so..][..len]); per "
         "pipeline the set of distinct (outcome, first modified guard element) over the grid is observed: each must pass "
         "check_C05 (PROPFAIL), equal the extracted model run at the witness offsets and leave all guards intact (DIFF); "
         "(e) 8 (thorough: 64) long texts of length {4095,4096,4097,8192,8193,65535,65536,65537} with 0/1 foreign byte (last, "
         "start of the AVX2 tail, uniform): property checker only, the quadratic list model is not run above 3000 bytes. "
         "Each text goes through generic/sse2/avx2/dispatch[forced Generic,Sse2,Avx2] x encode/encode_raw/encode_into, "
         "EncodedSequence::encode and from_str with each forced arm and the native one, and to_string(); every outcome "
         "Ok(indices)|Err(code point)|panic is checked by the extracted check_C05 (= extracted encode_spec; PROPFAIL) and "
         "compared with the extracted kernel model of that pipeline (DIFF). Non-trivial: distinct (alphabet, text) "
         "containing a byte outside the alphabet or of a length that is not a multiple of 32; sub-slice cases with a "
         "misaligned offset pair and a text longer than 16 or with a foreign byte.",
    trusted_base=[
        "Coq 8.16.1 kernel (coqc); vm_compute for the finite sweeps abc_ok dna / abc_ok protein (256 bytes x tables, "
        "256 lane values x 2 kernels) and the Example lemmas; no native_compute",
        "translator translate/encode_abc.py (regex/brace-matching reader of abc.rs match arms, enum discriminants, "
        "as_str/symbols()/K, of the Dispatch Encode arm table, and of the loop bound / initial register of "
        "encode_into_avx2/sse2; it also checks textually that as_index is `*self as usize`, that the symbol impls do not "
        "override as_char/from_char, the shape of the SIMD kernels' letter loop and scalar tail, the kernels' addressing "
        "discipline (only `let mut i = 0; i += STRIDE`, src_ptr/dst_ptr initialised from the slices and advanced by STRIDE, "
        "one unaligned load from src_ptr and one unaligned store of `encoded` to dst_ptr, no aligned load/store, "
        "align_offset/align_to, pointer->integer cast, assert_eq!(seq.len(), dst.len()) first), and that the normalised "
        "bodies of EncodedSequence::{new, encode}, FromStr::from_str, Display::fmt and of the trait defaults "
        "Encode::{encode_raw, encode, encode_into} are the texts the Gallina definitions were transcribed from) — its "
        "reading of the tables is cross-checked on every run by the table case of the correspondence check",
        "extraction: ExtrOcamlBasic only (its Extract Inductive directives for bool, option, list, prod, unit, sumbool, "
        "sumor); no other Extract Inductive and no Extract Constant (nat, N, positive, Byte.byte kept as extracted "
        "inductives); OCaml 4.13.1",
        "hand-written OCaml driver ocaml/encode/driver.ml (parsing, printing, comparison with the extracted kernel models "
        "and generated tables). PROPFAIL on an encoder outcome (text and sub-slice cases) is decided by the extracted "
        "check_C05 (C05_check_sound), on the display round trip by the extracted check_C05_display. Hand-written "
        "(non-extracted) PROPFAIL paths that remain: `ts display missing` (the text is accepted by the specification but "
        "to_string() gave nothing or panicked) and `ts display of a rejected text` (a display was observed although the "
        "specification rejects the text) - both only add a PROPFAIL; and the table case (kind=tab, one per alphabet), whose "
        "PROPFAILs are OCaml comparisons of the tables the implementation itself reports (from_ascii b = Ok i iff b is the "
        "i-th byte of as_str(), else Err(b as char); as_str() and symbols() have K entries; symbols()[i].as_index() = i, "
        "as_ascii = as_char = i-th byte of as_str(); from_char c = from_ascii c below 128, Err above), next to the DIFF "
        "comparison with the generated tables",
        "Rust harness harness/src/bin/encode.rs (calls the public encoder entry points, catch_unwind, hex printing)",
        "modelled, not verified: lane-wise semantics of _mm{,256}_{set1,cmpeq}_epi8, _mm256_blendv_epi8, "
        "_mm{,256}_{andnot,or,and}_si, _mm256_testz_si256, unaligned load/store as list operations on u8 lanes; NEON "
        "vld1q_u8_x4/vst1q_u8_x4 as a 64-lane load/store, vbslq_u8 as the SSE2 select, vandq/vmvnq as andnot, "
        "vgetq_lane_u64 != 0 of the OR-ed registers as 'some lane non-zero'; "
        "sub-slicing `&v[a..a+n]` as firstn/skipn of a list and the write-back of a `&mut` sub-slice as a splice "
        "(addresses are not modelled: loads/stores of the kernels are the unaligned ones, checked textually); "
        "Vec::with_capacity+set_len as a buffer with arbitrary contents; `u8 as char` = code point of the byte; "
        "Rust `match` = first matching arm; String/Display as the UTF-8 bytes of the written chars; "
        "EncodedSequence::encode / FromStr::from_str have no model of their own: EncodeInst.encoded_sequence_encode is "
        "pipeline_encode_raw of the dispatcher pipeline by transcription of their bodies (from_str = encode(as_bytes); the "
        "translator compares the normalised texts), so the second conjunct of C05_encode_dispatch_eq holds by unfolding",
    ],
    assumptions=[
        "host is x86_64 (Dispatch arms Generic/Sse2/Avx2 are the ones run). encode_into_neon is modelled "
        "(EncodeInst.neon_params, theorem C05_encode_neon_eq_generic) but compiled on arm/aarch64 only: its model is tied "
        "to neon.rs by the translator's whole-body text comparison alone, no observation of it is ever made here; the "
        "`Dispatch::Neon` arm of the dispatcher is not modelled",
        "the destination buffer handed to encode_into by encode_raw may hold any bytes (universally quantified: junk)",
        "from_str on a str that is not pure ASCII is an encoding of its UTF-8 bytes: the reported char is the first "
        "offending *byte* as a code point (e.g. U+00C3 for a text containing U+00E9), which is what the property "
        "states for byte strings",
    ],
)
