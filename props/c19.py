"""C19 — dense matrix storage keeps rows aligned and contents intact across operations."""
from translate import dense_layout


def _parse(o):
    """op token -> (register, name, rest); two-register ops have register None"""
    d = 0
    if o.startswith("r") and "." in o and o[1:o.index(".")].isdigit():
        d = int(o[1:o.index(".")])
        o = o[o.index(".") + 1:]
    name = o.split(":")[0]
    return d, name, o


def nontrivial(line):
    # distinct (type, columns, pattern, op sequence) with a resize after a write on the same
    # register, or a clone_from / clone between registers whose source has been written
    m = line.split(" ", 1)[1] if " " in line else line
    ops = m.split("ops=", 1)[-1].split(";")
    wrote = [False, False, False]
    for o in ops:
        d, name, rest = _parse(o)
        p = rest.split(":")
        try:
            if name in ("set", "setmc", "fill", "imc") or (name == "from" and len(p) > 1) or (name == "fromx" and len(p) > 2):
                wrote[d] = True
            elif name == "resize" and wrote[d]:
                return m
            elif name in ("cf", "ct"):
                if wrote[int(p[2])]:
                    return m
            elif name == "swap":
                a, b = int(p[1]), int(p[2])
                wrote[a], wrote[b] = wrote[b], wrote[a]
            elif name == "mv":
                a, b = int(p[1]), int(p[2])
                if a != b:
                    wrote[a], wrote[b] = wrote[b], False
            elif name in ("new", "cap"):
                wrote[d] = False
        except (IndexError, ValueError):
            pass
    return None


def histogram(line):
    f = dict(t.split("=", 1) for t in line.split(" ")[1:] if "=" in t)
    ops = f.get("ops", "").split(";")
    keys = ["T=" + f.get("T", "?"), "C=" + f.get("C", "?"), "len<=%d" % (10 * ((len(ops) + 9) // 10))]
    if f.get("T") == "f32":
        ov = f.get("ops", "")
        if "1101654917120" in ov or "1103802400769" in ov:
            keys.append("f32:NaN-cell")
        if "1101659111424" in ov:
            keys.append("f32:negative-zero-cell")
    st = f.get("steps", "")
    if "N" in st or "M" in st:
        keys.append("steps:nth/nth_back")
    regs = set()
    for o in ops:
        d, name, rest = _parse(o)
        keys.append("op:" + name)
        p = rest.split(":")
        if name in ("cf", "ct", "swap", "mv"):
            keys.append("two-matrix-op")
        else:
            regs.add(d)
        if name == "fromx" and len(p) > 1:
            n = len(p[2].split("/")) if len(p) > 2 else 0
            keys.append("fromx:" + ("honest" if n == int(p[1]) else "fewer" if n < int(p[1]) else "more"))
    keys.append("registers-used=%d" % len(regs))
    return keys


SPEC = dict(
    id="C19",
    group="dense",
    props_file="C19.v",
    module="LMDense.C19",
    harness_bin="dense",
    ml_modules=["dense_model"],
    n={"quick": 600, "thorough": 20000},
    search_n={"quick": 3000, "thorough": 40000},
    nontrivial=nontrivial,
    histogram=histogram,
    translate=dense_layout.translate,
    rule="operation sequences on a register file of three DenseMatrix<T,C> (T in u8/u32/f32/i64, C in "
         "1,5,7,16,21,32,43): random ops on any register (new/with_capacity with capacity below, equal to and "
         "above the row count/resize (mostly < 13 rows, 8% up to 40)/reserve/fill/IndexMut by row and by MatrixCoordinates/from_rows/from_rows "
         "with an iterator whose len() is honest, too large or too small/clone/iter_mut; ~4% out-of-range "
         "indices and ragged rows) and between registers (clone_from, dst = src.clone(), mem::swap, "
         "mem::replace), 40% of the cases opened by directed scenarios (clone_from into a shrunk destination "
         "with spare capacity, with_capacity + resizes crossing the capacity, fill/shrink/grow, lying len(), "
         "zero-row / zero-capacity matrices, equal cells through different histories), plus the 309 directed "
         "cases of corpus/C19 (directed.txt 253, f32eq.txt 56: NaN / -0.0 / infinite cells). After EVERY op, for EVERY "
         "register: rows(), stride(), the address of every row (decided by the extracted check_mobs: multiple of the "
         "alignment, r strides after row 0; the struct-level model derives the same addresses from the observed buffer "
         "address with the layout rule), ravel() length and layout (a boolean computed by the harness: ob_ravel), whether "
         "ravel() is uniform (after fill: padding "
         "written too), capacity(), all logical cells (80% small values, 20% extremes of the element type; for f32 in 40% "
         "of the cases also NaN (two payloads), -0.0, +-infinity and 0.5, with == / != judged by the partial equivalence "
         "f32c_eqb (DenseF32.v)), and == / != for all "
         "9 register pairs; finally per register iter(), iter().rev(), (&m).into_iter(), (&mut m).into_iter(), "
         "a random pattern of positional calls next()/next_back()/nth(k)/nth_back(k) on iter()/iter_mut()/into_iter() with len() "
         "after each call, and the std adaptors built on them (skip, rev().skip, step_by, rev().step_by, iter_mut().rev().skip, "
         "last, count) - part of the final observation record (fobs.f_steps) and decided by the extracted check_steps inside "
         "check_C19 (sound and complete for the index-level specification sobs_ok: steps_idx, stepby_idx; "
         "C19_check_steps_sound_complete; C19_iteration_steps, C19_iteration_skip_adaptors, C19_iteration_step_by_adaptors "
         "relate the list surgery take_steps to it), "
         "a random next()/next_back() pattern continued past exhaustion on iter()/iter_mut()/into_iter with "
         "len() after each call, ==/clone, == against a copy with other history/capacity/padding, == after "
         "one changed cell. PROPFAIL is decided ONLY by the extracted checker check_C19 (proved sound and complete "
         "for the relation trace_ok, which now includes the positional iterator calls, the row addresses and observer "
         "panics = ObsBroken / a missing final observation: C19_check_rejects_observer_panic); DIFF compares with the "
         "struct-level model (data vector, separate rows "
         "field, capacity lower bound, junk padding; row addresses and stride derived from the observed address of row 0) and "
         "cross-checks the k of the positional calls (steps-k-mismatch). The alignments 32 / 16, the single field of Row and "
         "the body of stride() are read from dense.rs on every run (translate/dense_layout.py -> coq/dense/GenDense.v, "
         "C19_model_matches_source). Resize histories: C19_resize, C19_shrink_then_grow. 28 theorems in C19.v. Non-trivial: distinct (T, C, pattern, op list) with a "
         "resize after a write on the same register or a clone_from/clone from a written register.",
    trusted_base=[
        "Coq 8.16.1 kernel (coqc); vm_compute only in the five Example lemmas of C19.v and in the 16x16 grid lemma "
        "DenseF32Proofs.f32c_eqb_agrees_with_ieee_on_grid; no native_compute",
        "extraction: ExtrOcamlBasic only (its Extract Inductive directives for bool, option, list, prod, unit, sumbool, sumor); "
        "no other Extract Inductive, no Extract Constant (nat, Z, positive kept as extracted inductives); OCaml 4.13.1",
        "hand-written OCaml driver ocaml/dense/driver.ml (parsing of observations into the checker's records, choice of the "
        "instance eqR = Z.eqb or f32c_eqb from the T= field; every PROPFAIL is check_C19 = false - no hand-written PROPFAIL "
        "path remains: the former why_steps / OBSPANIC / STEPSPANIC decisions are inside the checker, why_steps / why_fobs / "
        "why_robs survive as diagnosis text only; diagnosis text and DIFF comparison are hand-written)",
        "translator translate/dense_layout.py (regex reader of dense.rs: repr(align) of Row per architecture, field count of "
        "Row, body of stride()) -> coq/dense/GenDense.v; the harness constant ALIGN (cfg x86_64) is what is put into `align=`",
        "Rust harness harness/src/bin/dense.rs (op interpreter over the public DenseMatrix API, catch_unwind; it computes the "
        "boolean ob_ravel = ravel() length and layout agree with m[r][c], and the uniform flag of the DIFF after fill())",
        "the coding of f32 cells as integers in harness/src/bin/dense.rs (impl Val for f32: canonical, injective on bit "
        "patterns) and its Coq reading coq/dense/DenseF32.v (f32c_eqb = f32 ==; compared with Flocq's binary32 comparison on "
        "a grid only: C19_f32_eq_agrees_with_ieee_on_grid)",
        "modelled, not verified: dense.rs itself (Vec<Row> with repr(align) rows modelled as rows = C cells + "
        "S-C padding cells holding arbitrary values; Rust's size_of/align rule for repr(align) structs; "
        "allocator returning align-aligned buffers (the buffer address is universally quantified over the multiples of the "
        "alignment in C19_struct_model_meets_spec / C19_every_reachable_state_meets_spec, not threaded through the steps; row "
        "addresses are derived from it and the alignment conjunct is proved from the rounding of the stride: "
        "C19_alignment_needs_the_rounding)), Vec capacity (modelled as a lower bound only: with_capacity/"
        "reserve/resize/clone guarantee at least the requested capacity; growth policy not modelled), "
        "derive(Clone)'s default clone_from (= assignment of source.clone()), derive(PartialEq) comparing data then rows",
    ],
    assumptions=[
        "size_of::<T>() divides the row alignment (holds for u8/u32/f32/i64 and 32/16)",
        "padding bytes and uninitialized rows may hold any value and may change at every operation (universally quantified in the theorems)",
        "C19_check_sound/complete: idT decides identity of cell values (Z.eqb on values / f32 codes); the element == (eqR) is "
        "arbitrary - Z.eqb for u8/u32/i64, f32c_eqb for f32 (C19_check_extracted_instance, C19_check_extracted_instance_f32); "
        "C19_eq_lifts_element_eq: == on matrices is = when eqR is Leibniz; C19_f32_eq_is_partial_equivalence for f32",
        "C19_struct_model_meets_spec needs 0 < size, 0 < align, align mod size = 0, S = stride size C align and buffer addresses "
        "that are multiples of align",
        "dense.rs selects align(16) with not(target_arch = \"x86_64\"), so 32-bit x86 gets 16 although the property text says "
        "non-x86 (recorded, harmless); only the x86_64 value is exercised by the harness",
    ],
)
