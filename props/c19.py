"""C19 — dense matrix storage keeps rows aligned and contents intact across operations."""


def nontrivial(line):
    # distinct (type, columns, op sequence) with at least one resize after a write
    m = line.split(" ", 1)[1] if " " in line else line
    ops = m.split("ops=", 1)[-1].split(";")
    wrote = False
    for o in ops:
        if o.startswith(("set", "setmc", "fill", "imc", "from:")):
            wrote = True
        elif o.startswith("resize") and wrote:
            return m
    return None


def histogram(line):
    f = dict(t.split("=", 1) for t in line.split(" ")[1:] if "=" in t)
    ops = f.get("ops", "").split(";")
    keys = ["T=" + f.get("T", "?"), "C=" + f.get("C", "?"), "len<=%d" % (10 * ((len(ops) + 9) // 10))]
    for o in ops:
        keys.append("op:" + o.split(":")[0])
    return keys


SPEC = dict(
    id="C19",
    group="dense",
    props_file="C19.v",
    module="LMDense.C19",
    harness_bin="dense",
    ml_modules=["dense_model"],
    n={"quick": 600, "thorough": 20000},
    search_n={"quick": 3000, "thorough": 40000},
    nontrivial=nontrivial,
    histogram=histogram,
    rule="random operation sequences (new/with_capacity/resize/fill/IndexMut by row and by "
         "MatrixCoordinates/from_rows/clone/iter_mut; ~4% out-of-range indices and ragged rows) on "
         "DenseMatrix<T,C>, T in u8/u32/f32/i64, C in 1,5,7,16,21,32,43; after every op rows(), stride(), "
         "row addresses mod alignment and spacing, ravel() layout and all logical cells are compared with "
         "the extracted Coq table model, the storage model is compared through abs; finally iter(), "
         "iter().rev(), ==/clone with same/different padding and one changed cell. Non-trivial: distinct "
         "(T, C, op list) containing a resize after a write.",
    trusted_base=[
        "Coq 8.16.1 kernel (coqc); vm_compute only in the two Example lemmas; no native_compute",
        "extraction: ExtrOcamlBasic only (nat, Z, list, option kept as extracted inductives); OCaml 4.13.1",
        "hand-written OCaml driver ocaml/dense/driver.ml (parsing, printing, comparison)",
        "Rust harness harness/src/bin/dense.rs (op interpreter over the public DenseMatrix API, catch_unwind)",
        "modelled, not verified: dense.rs itself (Vec<Row> with repr(align) rows modelled as rows = C cells + "
        "S-C padding cells holding arbitrary values; Rust's size_of/align rule for repr(align) structs; "
        "allocator returning align-aligned buffers), Vec capacity (with_capacity/reserve have no logical effect)",
    ],
    assumptions=[
        "size_of::<T>() divides the row alignment (holds for u8/u32/f32/i64 and 32/16)",
        "padding bytes may hold any value and may change at every operation (universally quantified in the theorem)",
    ],
)
