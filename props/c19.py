"""C19 — dense matrix storage keeps rows aligned and contents intact across operations."""
from translate import dense_layout


def _parse(o):
    """op token -> (register, name, rest); two-register ops have register None"""
    d = 0
    if o.startswith("r") and "." in o and o[1:o.index(".")].isdigit():
        d = int(o[1:o.index(".")])
        o = o[o.index(".") + 1:]
    name = o.split(":")[0]
    return d, name, o


def nontrivial(line):
    # distinct (type, columns, pattern, op sequence) with a resize after a write on the same
    # register, or a clone_from / clone between registers whose source has been written
    m = line.split(" ", 1)[1] if " " in line else line
    ops = m.split("ops=", 1)[-1].split(";")
    wrote = [False, False, False]
    for o in ops:
        d, name, rest = _parse(o)
        p = rest.split(":")
        try:
            if name in ("set", "setmc", "fill", "imc") or (name == "from" and len(p) > 1) or (name == "fromx" and len(p) > 2):
                wrote[d] = True
            elif name == "resize" and wrote[d]:
                return m
            elif name in ("cf", "ct"):
                if wrote[int(p[2])]:
                    return m
            elif name == "swap":
                a, b = int(p[1]), int(p[2])
                wrote[a], wrote[b] = wrote[b], wrote[a]
            elif name == "mv":
                a, b = int(p[1]), int(p[2])
                if a != b:
                    wrote[a], wrote[b] = wrote[b], False
            elif name in ("new", "cap"):
                wrote[d] = False
        except (IndexError, ValueError):
            pass
    return None


def histogram(line):
    f = dict(t.split("=", 1) for t in line.split(" ")[1:] if "=" in t)
    ops = f.get("ops", "").split(";")
    keys = ["T=" + f.get("T", "?"), "C=" + f.get("C", "?"), "len<=%d" % (10 * ((len(ops) + 9) // 10))]
    if f.get("T") == "f32":
        ov = f.get("ops", "")
        if "1101654917120" in ov or "1103802400769" in ov:
            keys.append("f32:NaN-cell")
        if "1101659111424" in ov:
            keys.append("f32:negative-zero-cell")
    st = f.get("steps", "")
    if "N" in st or "M" in st:
        keys.append("steps:nth/nth_back")
    regs = set()
    for o in ops:
        d, name, rest = _parse(o)
        keys.append("op:" + name)
        p = rest.split(":")
        if name in ("cf", "ct", "swap", "mv"):
            keys.append("two-matrix-op")
        else:
            regs.add(d)
        if name == "fromx" and len(p) > 1:
            n = len(p[2].split("/")) if len(p) > 2 else 0
            keys.append("fromx:" + ("honest" if n == int(p[1]) else "fewer" if n < int(p[1]) else "more"))
    keys.append("registers-used=%d" % len(regs))
    return keys


SPEC = dict(
    id="C19",
    group="dense",
    props_file="C19.v",
    module="LMDense.C19",
    harness_bin="dense",
    ml_modules=["dense_model"],
    n={"quick": 600, "thorough": 20000},
    search_n={"quick": 3000, "thorough": 40000},
    nontrivial=nontrivial,
    histogram=histogram,
    translate=dense_layout.translate,
    rule="operation sequences on a register file of three DenseMatrix<T,C> (T in u8/u32/f32/i64, C in "
         "1,5,7,16,21,32,43): random ops on any register (new/with_capacity with capacity below, equal to and "
         "above the row count/resize (mostly < 13 rows, 8% up to 40)/reserve/fill/IndexMut by row and by MatrixCoordinates/from_rows/from_rows "
         "with an iterator whose len() is honest, too large or too small/clone/iter_mut; ~4% out-of-range "
         "indices and ragged rows) and between registers (clone_from, dst = src.clone(), mem::swap, "
         "mem::replace), 40% of the cases opened by directed scenarios (clone_from into a shrunk destination "
         "with spare capacity, with_capacity + resizes crossing the capacity, fill/shrink/grow, lying len(), "
         "zero-row / zero-capacity matrices, equal cells through different histories), plus the 253 directed "
         "cases of corpus/C19. After EVERY op, for EVERY register: rows(), stride(), row addresses mod "
         "alignment and spacing, ravel() length and layout, whether ravel() is uniform (after fill: padding "
         "written too), capacity(), all logical cells (80% small values, 20% extremes of the element type), "
         "and == / != for all "
         "9 register pairs; finally per register iter(), iter().rev(), (&m).into_iter(), (&mut m).into_iter(), "
         "a random pattern of positional calls next()/next_back()/nth(k)/nth_back(k) on iter()/iter_mut()/into_iter() with len() "
         "after each call, and the std adaptors built on them (skip, rev().skip, step_by, rev().step_by, last, count) - "
         "judged against the extracted take_steps / steps_lens (C19_iteration_steps, C19_iteration_skip_adaptors), "
         "a random next()/next_back() pattern continued past exhaustion on iter()/iter_mut()/into_iter with "
         "len() after each call, ==/clone, == against a copy with other history/capacity/padding, == after "
         "one changed cell. PROPFAIL is decided by the extracted checker check_C19 (proved sound and complete "
         "for the relation trace_ok); DIFF compares with the struct-level model (data vector, separate rows "
         "field, capacity lower bound, junk padding). Non-trivial: distinct (T, C, pattern, op list) with a "
         "resize after a write on the same register or a clone_from/clone from a written register.",
    trusted_base=[
        "Coq 8.16.1 kernel (coqc); vm_compute only in the four Example lemmas; no native_compute",
        "extraction: ExtrOcamlBasic only (nat, Z, list, option kept as extracted inductives); OCaml 4.13.1",
        "hand-written OCaml driver ocaml/dense/driver.ml (parsing of observations into the checker's records; the "
        "PROPFAIL decision itself is the extracted check_C19; diagnosis text and DIFF comparison are hand-written)",
        "Rust harness harness/src/bin/dense.rs (op interpreter over the public DenseMatrix API, catch_unwind)",
        "modelled, not verified: dense.rs itself (Vec<Row> with repr(align) rows modelled as rows = C cells + "
        "S-C padding cells holding arbitrary values; Rust's size_of/align rule for repr(align) structs; "
        "allocator returning align-aligned buffers), Vec capacity (modelled as a lower bound only: with_capacity/"
        "reserve/resize/clone guarantee at least the requested capacity; growth policy not modelled), "
        "derive(Clone)'s default clone_from (= assignment of source.clone()), derive(PartialEq) comparing data then rows",
    ],
    assumptions=[
        "size_of::<T>() divides the row alignment (holds for u8/u32/f32/i64 and 32/16)",
        "padding bytes and uninitialized rows may hold any value and may change at every operation (universally quantified in the theorems)",
        "C19_check_sound/complete: the element comparison used by the checker decides equality (Z.eqb for the extracted instance, C19_check_extracted_instance)",
    ],
)
