"""C13 — TFM-PVALUE p-value ranges are consistent with the exact score distribution."""


def _fields(line):
    return dict(t.split("=", 1) for t in line.split(" => ")[0].split(" ")[1:] if "=" in t)


def nontrivial(line):
    # distinct (matrix, background, score) with the query strictly inside the attainable range
    f = _fields(line)
    if f.get("nt") == "1":
        return (f.get("mat"), f.get("bg"), f.get("q"))
    return None


def histogram(line):
    f = _fields(line)
    return ["M=" + f.get("M", "?"), "matrix:" + f.get("mk", "?"), "background:" + f.get("bgk", "?"),
            "query:" + f.get("qk", "?"), "steps=" + f.get("steps", "?")]


SPEC = dict(
    id="C13",
    group="tfm",
    props_file="C13.v",
    module="LMTfm.C13",
    harness_bin="tfm",
    harness_args=["c13"],
    driver_args=["c13"],
    ml_modules=["tfm_model"],
    n={"quick": 800, "thorough": 20000},
    search_n={"quick": 4000, "thorough": 40000},
    nontrivial=nontrivial,
    histogram=histogram,
    rule="DNA scoring matrices of width M in 2..6 built with ScoringMatrix::new (cells on a fine 1/1024 grid, a coarse "
         "1/4 grid with many ties, a decimal 0.1/0.01 grid, or log-odds derived from random counts through "
         "CountMatrix::to_freq/to_scoring; wildcard column -inf, rarely finite), backgrounds uniform / dyadic non-uniform "
         "(sometimes with a zero frequency) / decimal [0.3,0.2,0.2,0.3] / ~6% with wildcard mass; per matrix 9-17 query "
         "scores: below the minimum, above the maximum, min, max, exactly attainable, attainable+-eps, random. One case "
         "= one (matrix, score): every Iteration of approximate_pvalue(s) for 3..6 (thorough 7) refinement steps or "
         "until convergence (range, granularity, converged, score) plus the private state read from the iterator's "
         "Debug rendering (permutation, offsets, error_max, int_matrix, min/max rows, all Q-value rows), and pvalue(s) "
         "when the iteration converged within the cap; all under catch_unwind. PROPFAIL: extracted checker c13_check "
         "against the exact tails enumerated over all words in exact dyadic arithmetic (relative tolerance 2^-30, "
         "widened by (1+|sum b - 1|)^M for backgrounds that are not exactly normalised). DIFF: bit-exact comparison "
         "of the integer geometry / granularity / error_max with the extracted binary64 model, probabilities within "
         "1e-9 relative. Non-trivial: distinct (matrix, background, score) with the score strictly inside the "
         "attainable range of a matrix with >= 3 attainable scores.",
    trusted_base=[
        "Coq 8.16.1 kernel (coqc); vm_compute in Example/refutation lemmas and the small-matrix sweep; no native_compute",
        "Flocq 4.1.0 BinarySingleNaN (binary64 replay instance) through LMBase.IEEE",
        "extraction: ExtrOcamlBasic only (nat, Z, positive kept as extracted inductives); OCaml 4.13.1",
        "hand-written OCaml driver ocaml/tfm/driver.ml (parsing, tolerance comparison of f64 sums, verdicts)",
        "Rust harness harness/src/bin/tfm.rs (generator, catch_unwind, parser of the derived Debug rendering of "
        "PvaluesIterator/ScoresIterator used to read the private state)",
        "modelled, not verified: lightmotif-tfmpvalue/src/lib.rs itself (hand-written Gallina model tied by the "
        "bit-exact replay); IEEE rounding of x/g, of score/g and of the probability sums (theorems are about exact "
        "rational arithmetic; the slack of one integer unit on either side of the bounds is ~1e9 times the rounding "
        "error of the replayed cases); HashMap iteration order (model iterates in key order)",
    ],
    assumptions=[
        "theorems: exact rational arithmetic, M >= 2, finite non-wildcard cells, g > 0, sum of the non-wildcard background "
        "frequencies = 1, wildcard cells -inf or any value <= 0 (so that the wildcard column never wins the max in error_max)",
        "C13_lookup_pvalue_sound / C13_partial take dist_exact (the DP table of distribution(min,max) is the exact "
        "distribution of the integer score on [min,max] plus the mass above max) as an explicit hypothesis; "
        "it is validated by an exhaustive vm_compute sweep on small matrices (labelled test) and by the replay",
        "the row permutation of TfmPvalue::new (sort_unstable_by) is an input of the model; the check validates that the "
        "implementation's permutation is a decreasing-range order (perm_ok)",
    ],
)
