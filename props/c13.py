"""C13 — TFM-PVALUE score thresholds are consistent with the exact score distribution."""

from translate import tfm_const


def _fields(line):
    return dict(t.split("=", 1) for t in line.split(" => ")[0].split(" ")[1:] if "=" in t)


def nontrivial(line):
    # distinct (matrix, background, p) with p strictly between two attainable tail values
    f = _fields(line)
    if f.get("nt") == "1":
        return (f.get("mat"), f.get("bg"), f.get("q"))
    return None


def histogram(line):
    f = _fields(line)
    return ["M=" + f.get("M", "?"), "abc:" + f.get("abc", "dna"), "ref:" + f.get("ref", "enum"), "matrix:" + f.get("mk", "?"), "background:" + f.get("bgk", "?"),
            "query:" + f.get("qk", "?"), "steps=" + f.get("steps", "?")]


def _e2e_stat_obligations():
    # the statistics-side composition theorems of coq/e2e (E2EStat.v: counts -> log-odds -> both p-value methods on one
    # exact tail; they use C13's final-bounds theorem) count as obligations of this property in the thorough tier
    # (requested by the e2e builder, round 3; see props/e2e.py STAT_EXTRA)
    from props import e2e
    return e2e.obligations_stat()


SPEC = dict(
    id="C13",
    group="tfm",
    props_file="C13.v",
    module="LMTfm.C13",
    translate=tfm_const.translate,
    more_props=[("C13Ext.v", "LMTfm.C13Ext"), ("C12Gen.v", "LMTfm.C12Gen")],
    extra_obligations={"thorough": _e2e_stat_obligations},
    extra_obligations_name="coq/e2e/E2EStat.v: composition of C09, C11, C12/C13, C10, C14 and the scanning pipeline of E2E.v",
    extra_obligations_cmd="make -C coq/e2e (and imported groups) + Print Assumptions audit of LME2E.E2EStat",
    harness_bin="tfm",
    harness_args=["c13"],
    driver_args=["c13"],
    ml_modules=["tfm_model"],
    n={"quick": 800, "thorough": 20000},
    search_n={"quick": 4000, "thorough": 40000},
    nontrivial=nontrivial,
    histogram=histogram,
    rule='Same matrices/backgrounds as C12 (including the 1-in-8 protein / wide-motif cases with the convolution reference, C13_check_conv; for these also p-values between the tails of the best words and log-uniform p-values below 1e-12 that exceed the exact tail 1.5 d below the maximal score, p-values between the largest tails, 0.9 / 0.99 / 0.999999) (incl. the 8% cluster matrices shaped like the F13 witness, with extra p-values between the tails of the best few words; they raise the F13 hit rate from ~1/28000 to ~1/800 of those cases); per matrix 8-14 query p-values: exact tail values of attainable scores, values strictly between two consecutive tails, round values 0.5 .. 1e-4, random. One case = one (matrix, p): the initial window of approximate_score(p), every Iteration for 3..6 (thorough 7) refinement steps -- 9..11 steps for one case in ten, one in three for lattice-valued matrices -- or until convergence (score, range, granularity, converged) plus the private state after each step (as for C12, and the re-centred window), and score(p) when the iteration converged within the cap; all under catch_unwind. PROPFAIL: extracted checker c13_check (proved equivalent to the two clauses of the property, C13_check_sound) against the exact tails enumerated over all words in exact dyadic arithmetic; a panic is a PROPFAIL. Each PROPFAIL detail carries the model-computed window predicates of the theorems (window-exhausted = the whole window holds less mass than p, window-empty = no attainable score in the window, window-bottom-reached) and the input predicates wildcard-mass / positive-wildcard-cell, by which the remaining known finding (wildcard-mass-finite-cell) is identified; a failure on an adequate window (no tag) contradicts C13_score_step_bounds and is always reported. A PROPFAIL on a case where the implementation also differs from the model carries the tag model-differs and is never attributed to a known finding. DIFF: bit-exact comparison (integer geometry, windows, granularity, returned score; probabilities within 1e-9) with the extracted binary64 model, skipped after a knife-edge comparison (a cumulative sum within 1e-9 of p). Corpus (all must pass since the fixes): two F13 witnesses (one found by the generator, one hand-built minimal), the F26 panic witness, two wildcard-mass cases. Non-trivial: distinct (matrix, background, p) with p strictly between two attainable tail values. Theorems (coq/tfm/C13.v, all Qed): C13_approximate_score_bounds (the property for every iteration of approximate_score, no window hypothesis), C13_adequacy_preserved, C13_initial_window_ok, C13_approximate_score_no_panic31, C13_lookup_score_sound, C13_dist_exact, C13_score_step_bounds, C13_score_step_clause1, C13_score_run_bounds, C13_score_final_bounds, C13_next_window_ordered, C13_lookup_score_panic_sites, C13_lookup_score_panic_31_iff, C13_window_flags, C13_check_sound, C13_check_conv.',
    trusted_base=['Coq 8.16.1 kernel (coqc); vm_compute only in the non-vacuity Examples and in the refutation witness (coq/tfm/TfmRefute.v); no native_compute; Print Assumptions of every theorem of the property file: closed under the global context', 'Flocq 4.1.0 BinarySingleNaN (binary64 replay instance of the model) through LMBase.IEEE', 'extraction: ExtrOcamlBasic only (nat, Z, positive kept as extracted inductives); OCaml 4.13.1', "hand-written OCaml driver ocaml/tfm/driver.ml (parsing, construction of the checker's rows from the f32 cells, 1e-9 relative comparison of f64 sums, verdicts); the decision PROPFAIL itself is the extracted checker, proved equivalent to the property inequalities (C12_check_sound / C13_check_sound, C12_check_tail)", 'Rust harness harness/src/bin/tfm.rs (generator, catch_unwind, parser of the derived Debug rendering of PvaluesIterator/ScoresIterator used to read the private state)', 'modelled, not verified: lightmotif-tfmpvalue/src/lib.rs itself (hand-written Gallina model TfmModel.v tied by the bit-exact replay of the binary64 instance); IEEE rounding of x/g, of score/g and of the probability sums (the theorems are about the exact-rational instance of the same model text; the slack of one integer unit on either side of the bounds is ~1e9 times the rounding error of the replayed cases); HashMap iteration order (model iterates in key order); the row permutation of TfmPvalue::new (input of the model, validated per case)'],
    assumptions=['theorems: exact rational arithmetic (NumQ instance of the model), M >= 2, K >= 2 cells per row, finite symbol cells, g > 0, symbol frequencies >= 0 summing to 1 and wildcard frequency 0 (no wildcard mass; the table theorem C12_dist_exact itself is proved for any wildcard mass, bg_mass; what is left of finding F12 needs a finite wildcard cell together with wildcard mass), wildcard cells arbitrary (no longer read by the code), perm a permutation of 0..M (Permutation perm (seq 0 M)); results are stated for the matrix as given (Ptail is invariant under the row permutation, TfmPerm.tailS_perm_cells)', "the row permutation of TfmPvalue::new (sort_unstable_by) is an input of the model; the check validates that the implementation's permutation is a decreasing-range order (perm_ok); the theorems hold for every permutation", 'Ok-results only: the theorems speak about steps where the model returns Ok (every Panic site of the model is an observable panic of the implementation and is reported as PROPFAIL by the check)', 'C13 is no longer partial by refutation: since /repo 6b0495b window adequacy is an invariant (TfmAdequate.v); the step-level theorems keep the adequacy hypothesis for an arbitrary window, the run-level theorem from the initial window of approximate_score has none'],
)
