"""C07 — maximum, arg-maximum and thresholding of striped scores match their definitions."""
import os
import sys

sys.path.insert(0, os.path.dirname(os.path.dirname(os.path.abspath(__file__))))


def translate():
    from translate import maxi_tables
    return maxi_tables.run()


def _e2e_pad_obligations():
    # the composition of the padding clause with C01 (coq/e2e/E2EPadding.v) counts as obligations of the thorough
    # tier (round 3 wave 3; lazy import, quick tier untouched; see props/e2e.py PAD_EXTRA)
    from props import e2e
    return e2e.obligations_pad()


def _fields(line):
    head = line.split(" => ", 1)[0]
    return dict(t.split("=", 1) for t in head.split(" ")[1:] if "=" in t)


def nontrivial(line):
    # distinct non-empty matrices / end-to-end cases (kind, rows, contents, threshold)
    f = _fields(line)
    if f.get("k") == "e2e":
        return ("e2e", f.get("pssm"), f.get("seq"), f.get("rr"), f.get("dt"), f.get("t")) if f.get("seq", "-") != "-" else None
    if f.get("k") == "pad":
        return ("pad", f.get("src"), f.get("sd"), f.get("bg"), f.get("L"), f.get("seq"), f.get("sm"), f.get("t"), f.get("pssm")) \
            if int(f.get("L", "0")) > 0 else None
    if f.get("m", "-") == "-" and "h" not in f:
        return None
    return (f.get("k"), f.get("t"), f.get("R"), f.get("p"), f.get("h"), f.get("w"), hash(f.get("m")))


def histogram(line):
    f = _fields(line)
    k = f.get("k", "?")
    keys = ["kind=" + k]
    if k == "e2e":
        l = 0 if f.get("seq", "-") == "-" else len(f["seq"])
        keys.append("e2e:L<=%d" % (32 * ((l + 31) // 32)))
        keys.append("e2e:M=%d" % (f.get("pssm", "").count("/") + 1))
        if "rr" in f:
            keys.append("e2e:ranges(reused buffer)" + (":u8" if f.get("dt") == "u8" else ":f32"))
        return keys
    if k == "pad":
        l = int(f.get("L", "0"))
        m = f.get("pssm", "").count("/") + 1
        keys.append("pad:src=" + f.get("src", "?"))
        keys.append("pad:L<=%d" % (32 * ((l + 31) // 32)))
        keys.append("pad:L%32=0" if l % 32 == 0 else "pad:L%32!=0")
        if l < m:
            keys.append("pad:L<M")
        if f.get("src") == "sample":
            keys.append("pad:bg=" + f.get("bg", "0"))
        if f.get("src") == "new":
            rows = 0 if f.get("sm", "-") == "-" else f["sm"].count("/") + 1
            flat = "".join(f.get("sm", "").split("/")) if rows else ""
            # linear index i = col * rows + row; cells of index >= L are the padding
            pad = [flat[(i % rows) * 32 + i // rows] for i in range(l, rows * 32)] if rows else []
            keys.append("pad:new:padding=" + ("none" if not pad else "wildcards" if all(c == "4" for c in pad)
                                              else "symbols" if all(c != "4" for c in pad) else "mixed"))
            if rows > (l + 31) // 32:
                keys.append("pad:new:spare-rows")
        return keys
    r = int(f.get("R", "0"))
    for b in (0, 1, 2, 8, 64, 300, 1000, 3000, 32768, 70000):
        if r <= b:
            keys.append("rows<=%d" % b)
            break
    if int(f.get("mi", "0")) > 4294967295:
        keys.append("max_index>u32::MAX")
    if f.get("m", "").startswith("@"):
        keys.append("compact(tall)")
    if "h" in f:
        keys.append("history")
        ops = [o for o in f["h"].split(";") if o]
        rows = []
        for o in ops:
            if o[0] in "rd":
                rows.append(int(o[1:].split(":")[0]))
            elif o[0] == "S":
                a, b = o[2:].split("-")
                rows.append(int(b) - int(a))
                keys.append("history:score_rows_into")
        if rows and max(rows) > r:
            keys.append("history:held-more-rows")
        if rows and rows[-1] < r:
            keys.append("history:final-resize-grows")
        if "w" in f:
            keys.append("history:partial-rewrite")
    return keys


SPEC = dict(
    id="C07",
    group="maxi",
    props_file="C07.v",
    module="LMMaxi.C07",
    more_props=[("C07Source.v", "LMMaxi.C07Source")],
    translate=translate,
    harness_bin="maxi",
    ml_modules=["maxi_model"],
    ocaml_packages=("str", "unix"),
    n={"quick": 1000, "thorough": 12000},
    search_n={"quick": 3000, "thorough": 20000},
    nontrivial=nontrivial,
    histogram=histogram,
    extra_obligations={"thorough": _e2e_pad_obligations},
    extra_obligations_name="coq/e2e/E2EPadding.v: the padding clause composed with C01 (C07_padding_scored, "
                           "C07_padding_answers, C07_padding_needs_wildcard_padding, C07_first_sentence_padded)",
    extra_obligations_cmd="make -C coq/e2e (and imported groups) + Print Assumptions audit of LME2E.E2EPadding",
    rule="Proof: 54 theorems of coq/maxi/C07.v + 10 of coq/maxi/C07Source.v (+ in the thorough tier the 8 statements of "
         "coq/e2e/E2EPadding.v), all inputs (no bound on rows): over an "
         "abstract element type with a total preorder on the admissible values — generic max / argmax / threshold "
         "meet max_spec / argmax_spec (designated cell in range and >= every cell) / threshold_spec (NoDup, "
         "membership iff cell >= t), None exactly on the matrix without rows -- without any hypothesis for every entry point except "
         "the arg-maximum of the SSE2 / AVX2 arms, which panic (Panic 20, as coded: the max_index > u32::MAX guard precedes the "
         "emptiness test) on an empty StripedScores whose max_index exceeds u32::MAX (C07_empty_matrix_any_index; only "
         "resize(0, >= 2^32) builds such a value); the Generic f32 arm and the non-AVX2 u8 arms need no row-count / max_index "
         "hypothesis (C07_dispatch_unguarded_arms). Reused buffers: a StripedScores is modelled as backing vector + row count + max_index (MaxiBuffer.v); for every sequence of StripedScores::resize / DenseMatrix::resize (to more or fewer rows) and cell writes from the empty buffer, matrix().iter() yields exactly rows 0..rows(), so the default max / argmax / threshold (which walk iter()), offset() and Index answer as on a fresh matrix made of the logical rows and meet max_spec / argmax_spec / threshold_spec of those rows (C07_history_independent, C07_history_answers_meet_spec, _f32, _u8, C07_history_same_logical, C07_history_shrink_then_grow), on every arm of the dispatcher (C07_history_dispatch_f32/_u8, C07_history_all_arms_f32/_u8); a resize that only grows the vector is refuted (C07_resize_grow_only_refuted). Kernels: argmax_f32_avx2, max_f32_avx2 "
         "(repaired: starts from the first row), argmax_sse2 (any multiple of 16 columns) + Pipeline<Sse2>::max, "
         "argmax_u8_avx2 (repaired column order), max_u8_avx2 each return Ok of an answer meeting the same "
         "specification; every arm of the f32 and u8 dispatcher, the explicit guards (Panic 20/21), agreement of "
         "all arms on the maximum value and on the threshold list; offsets (StripedScores::offset / Index / "
         "argmax / threshold), unstripe and linear Scores::{max,argmax,threshold} (= the positions below "
         "min(max_index, rows*C)); padding (second sentence): wildcard column -inf => the defined score of a window reaching past "
         "the end is -inf (binary32 addition as it is, C07_padding_score_neg_inf); COMPOSED WITH C01 in coq/e2e/E2EPadding.v: for "
         "every configured striped sequence (cells past the end hold the wildcard: Striped, what to_striped and -- since /repo "
         "740d563 -- StripedSequence::sample build), K-column matrix with a -inf wildcard column, 1 <= M <= L, no NaN / +inf partial "
         "sum, the generic / AVX2 / SSE2 / dispatched scoring pipelines return ONE matrix whose cell i is the defined score of "
         "position i, -inf for every i >= max_index = L-M+1 (C07_padding_scored), and when a valid score is finite the maximum of "
         "every arm is the best valid score, the arg-maximum of every arm (L <= u32::MAX) designates a valid position, and for "
         "t > -inf the threshold list of every arm is exactly the valid positions with score >= t (C07_padding_answers). The premise "
         "is needed: on a hand-filled matrix (StripedSequence::new) whose padding holds ordinary symbols the cells past max_index are "
         "finite and every arm reports a padding position (C07_padding_needs_wildcard_padding); only the first sentence is claimed "
         "there, and proved end to end for every padded state: one score matrix from all backends, cell i = defined score of "
         "sequence ++ padding, every arm's answers meet max_spec / argmax_spec / threshold_spec (C07_first_sentence_padded). "
         "Order facts discharged for binary32 from Flocq's Bcompare/Bplus by a "
         "lexicographic key (closed under the global context) and for u8 (Z). check_C07 (extracted, used by "
         "the driver for PROPFAIL) is proved sound and complete (check_C07_sound / _complete, "
         "model_passes_C07), as is the end-to-end padding checker (check_padding_max_sound / _complete). C07Source.v: the dispatcher arm table, the Pipeline<Sse2/Avx2> overrides, the "
         "permute2x128 operands/immediates/store offsets of argmax_u8_avx2 and the load/store offsets of the "
         "f32 kernels, the statements of DenseMatrix::resize / StripedScores::resize, the source of "
         "dense::Iter::new, the outer loops of the default argmax / threshold (C07_source_buffer, C07_source_buffer_views), "
         "the vector / reduction comparisons of the two f32 arg-max kernels and the block offsets of argmax_sse2 "
         "(C07_source_compares), the Arm-host dispatcher tables (C07_source_armhost_tables), "
         "re-read from the source on every run (translate/maxi_tables.py), are those of the model. "
         "Correspondence run — corpus: one unique maximum in every column x first/last row of all-negative f32 and "
         "of u8 matrices (1, 2, 5 rows) and of 16- and 48-column f32 matrices, maxima in rows >= 256 of 300/520-row matrices (row index wider than 8 "
         "bits) and a low/high-row tie, u8 matrices of 32769..65536 rows with maxima in rows >= 32768 (row index negative as i16) incl. ties with a low row, and the 65537-row guard case (Panic 21), all-equal / all -inf / all +inf / signed-zero matrices, no rows, max_index around "
         "u32::MAX, end-to-end padding cases with L around the 32-column block size. Generated (case number mod 10): 35 % "
         "StripedScores<f32,U32>, 20 % <u8,U32>, 10 % u8 with 16 / 48 / 64 columns in turn (kinds b16 / b48 / b64: generic and SSE2 "
         "pipelines = default scans), 10 % f32 with 16 / 64 columns in turn (f16 / f64) and 10 % with 48 columns (f48) (generic "
         "pipeline and the SSE2 kernel over 1 / 4 / 3 blocks of 16 columns), 10 % end-to-end (ScoringMatrix with -inf "
         "wildcard column, half of them produced by the library's own count->frequency->log-odds "
         "conversion, + DNA sequence -> score under each forced arm; 40 % of them Scanner-pattern row ranges into one buffer), "
         "5 % padding cases `k=pad`: sequence from StripedSequence::sample(StdRng(seed), one of three dyadic backgrounds, L) (50 %), "
         "from to_striped of text (25 %), or StripedSequence::new on a hand-filled matrix with ordinary / wildcard / mixed padding "
         "symbols and 0-2 spare rows (25 %); configure; Pipeline::generic / sse2 / avx2 .score and ScoringMatrix::score under each "
         "forced arm; max / argmax / threshold of the same pipeline resp. of StripedScores under the same arm; judged by check_C07 on "
         "the observed cells (first sentence) and -- always for sample / text, for `new` only when its padding cells are all "
         "wildcards -- by check_padding / check_padding_max (every cell of index >= max_index is -inf, max = best valid score, "
         "argmax < max_index when a valid score is finite, no threshold position >= max_index for t > -inf); cells compared with the "
         "defined scores of sequence ++ padding symbols. 30 % of the matrix cases of every kind with <= 300 rows run on a REUSED "
         "buffer (history of 1-3 earlier states, see below). Matrix contents: moderate scores, "
         "all negative, few distinct values (ties), arbitrary non-NaN bit patterns, log-odds like with "
         "-inf cells, signed zeros, infinities/f32::MAX, constant; then maxima planted systematically "
         "(column = case number mod C, row = first/last/middle/random) with 0..25 duplicates in the same "
         "column / row / another 128-bit lane / anywhere; rows 0..64 mostly, up to 200 (quick) or 3000 "
         "(thorough); thresholds among the largest values, just above the maximum, a random cell, +-inf. "
         "Observed per case: max / argmax / threshold of Pipeline::generic(), sse2(), avx2(), of "
         "Pipeline::dispatch() under each forced arm, of StripedScores::{max,argmax,threshold} under each "
         "forced arm (+ scores[argmax]), and of linear Scores over the column-major cells; every answer is "
         "judged by the extracted Coq checker (PROPFAIL) and compared with the extracted kernel model "
         "incl. exact arg-max coordinates, maximum bit pattern and the threshold list as a set (DIFF). 30 % of the generated matrix cases (<= 300 rows) run on a REUSED buffer: a history of 1-3 earlier states (mostly more rows than the final matrix, filled with values at / above the final maximum or equal to the threshold, +inf; also fewer or zero rows; DenseMatrix-level resize; score_rows_into of a built-in motif on generic / SSE2 / AVX2), then resize(R, mi) and a full or partial rewrite; the answers are judged against the logical rows computed by the extracted buffer model, rows() / iter().count() / content hashes of rows 0..rows() and of iter() are compared with it; 40 % of the end-to-end slot are Scanner-pattern cases (row ranges scored in turn into one buffer under each forced arm, f32 and discrete u8: max / argmax / scores[argmax] / threshold against the observed cells and the dispatcher models). Corpus: 21 history lines, 10 range lines, 7 signed-zero lines, one maximum per column of f64 / b16 / b48 / b64 matrices, "
         "tall compact cases (f32 65537 rows, f16 / b16 70000, f48 / f64 8000, b64 30000), 22 padding lines: the probe of the "
         "repaired finding (README motif, sample seed 0, L = 40) and neighbours, the same lengths through to_striped, hand-filled "
         "matrices whose padding holds the motif itself. Non-trivial: distinct (kind, matrix, "
         "threshold) with at least one row / distinct end-to-end (matrix, sequence) / distinct padding cases with L > 0.",
    trusted_base=[
        "Coq 8.16.1 kernel (coqc; coqchk in the thorough tier); vm_compute only in closed Example / witness / refutation lemmas "
        "(C07.v, MaxiBufferProofs.v, coq/e2e/E2EPadding.v: C07_padding_needs_wildcard_padding); the 32-lane symbolic evaluation "
        "of the register-level steps (MaxiKernels.v) uses simpl / reflexivity; no native_compute",
        "Flocq 4.1.0 BinarySingleNaN definitions (Bcompare, Bplus) through coq/base/IEEE.v: that they are IEEE "
        "binary32 comparison/addition (the order lemmas themselves are proved, closed under the global context; "
        "the two x + -inf lemmas mention F32.add and inherit Flocq's allow-listed Reals axioms)",
        "extraction: ExtrOcamlBasic only (its Extract Inductive directives for bool, option, list, prod, unit, sumbool, sumor); no other "
        "Extract Inductive, no Extract Constant; OCaml 4.13.1",
        "hand-written OCaml driver ocaml/maxi/driver.ml (parsing, sorting of the reported threshold lists, "
        "decoding offsets to coordinates, the valid-position list and V = L+1-M of the end-to-end / padding cases, comparison, the "
        "history parser (ops of `h=`), the row hash; the hand-written PROPFAIL paths next to the extracted checkers: a panic where "
        "the model has no guard (max / argmax / threshold / scores[argmax] / scoring / building the sequence), `max disagrees with "
        "g.max` resp. `pg.max` (value_eq of the extracted le), offset out of range, scores[argmax] differs from the designated "
        "cell, and in the padding cases `argmax >= max_index` / `threshold position >= max_index for t > -inf` / `max is not the "
        "best valid score` / `a cell past the last valid position is not -inf` (each implied by check_C07 + check_padding / "
        "check_padding_max on the same observation, kept for the message), the premise test `pd` all N that decides whether a "
        "src=new case is judged by the padding clause)",
        "Rust harness harness/src/bin/maxi.rs (builds StripedScores through the public API, catch_unwind, "
        "verif-hooks force_backend; StripedSequence::sample with rand 0.8 StdRng::seed_from_u64, Background::new with dyadic "
        "frequencies, StripedSequence::new on DenseMatrix::from_rows)",
        "coq/e2e/E2EPadding.v relies on the models of coq/score (C01: tied to pli scoring by C01's own check) and of coq/stripe "
        "only through the predicate Striped; that to_striped / sample establish Striped is C04's claim (C04_pad_history) and is "
        "re-observed per case here (`pd` all N)",
        "translator translate/maxi_tables.py (regex / brace-matching reader of dispatch.rs, pli/mod.rs, avx2.rs, "
        "sse2.rs, dense.rs, scores.rs: match arms, overriding methods, wrapper -> kernel, permute2x128 immediates, load/store offsets, "
        "dense.rs / scores.rs struct fields and resize statements, Iter::new, default-scan loop headers, comparison predicates; a "
        "non-empty Threshold impl of the dispatcher or of a pipeline is an error: the agreement of the arms on the threshold list "
        "is `reflexivity` in the model (dispatch_threshold ignores the arm) and rests on this translator check)",
        "modelled, not verified: lane-wise semantics of the AVX2/SSE2 intrinsics used by the five kernels "
        "(load, cmp_ps LE, cmpgt_epi16, sub_epi16, blendv, and/andnot/or select, max_ps, max_epu8, "
        "unpacklo/hi_epi8, permute2x128, storeu), Rust's Iterator::max_by/max_by_key/reduce and f32::max; "
        "they are exercised against the hardware by the correspondence check on every run",
    ],
    assumptions=[
        "f32 cells and thresholds are not NaN (the property's domain); u8 cells are in 0..255",
        "every row has C cells (DenseMatrix invariant), C > 0, C = 32 for the AVX2 kernels, C a multiple of 16 for SSE2",
        "rows <= 2^32 for the f32 vector kernels (row indices are kept in 32-bit lanes; hypothesis rows_fit32); "
        "max_index <= u32::MAX and rows <= 65536 are explicit panics of the code and of the model "
        "(C07_dispatch_guards), also on a matrix without rows (C07_empty_matrix_any_index: the SSE2 / AVX2 f32 arg-maximum "
        "panics there instead of returning None)",
        "padding clause: premise `cells of the sequence matrix past the end hold the wildcard` (Striped; holds for to_striped "
        "and, since /repo 740d563, for StripedSequence::sample; NOT for StripedSequence::new on a hand-filled matrix -- there only "
        "the first sentence is claimed and judged), wildcard column -inf, no term and no partial sum of a score is NaN or +inf "
        "(checked on every case); cell = defined score is no longer an assumption of the theorem (C07_padding_scored composes C01) "
        "and is still re-validated bit-exactly on every end-to-end / padding case; `the library's conversions produce a -inf "
        "wildcard column` has no theorem in any group (the harness uses the library's own conversion in half of the cases)",
        "not executed: Arm hosts (neon.rs has no max / argmax kernel; the Arm-host dispatcher tables are modelled from the "
        "source only: C07_dispatch_armhost, C07_source_armhost_tables); generated f32 matrices have at most 3000 rows, taller "
        "ones are executed only as the compact corpus cases (f32 65537 rows, f16 70000, f48 / f64 8000; u8 up to the 65536-row "
        "limit of argmax_u8_avx2 and its guard at 65537 rows)",
        "score_rows_into steps of a history are not modelled (content unknown to the model): such cases rewrite every row "
        "afterwards; stale rows with content below the final maximum and threshold are a tie-only (DIFF) signal",
    ],
)
