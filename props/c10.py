"""C10 — reverse-complementing a motif mirrors its scores on the opposite strand."""
import os
import sys

sys.path.insert(0, os.path.dirname(os.path.dirname(os.path.abspath(__file__))))
from translate import pwm_complement, pwm_skel  # noqa: E402


def translate():
    # abc.rs -> GenComplement.v (alphabet constants, complement table); pwm/mod.rs -> GenPwmSkel.v (statement
    # skeletons of the functions modelled in PwmStat.v, compared with the pinned PwmSkel.v by C09_source_skeleton)
    a = pwm_complement.generate()
    b = pwm_skel.translate()
    return dict(ok=a.get("ok", True) and b.get("ok", True),
                errors=list(a.get("errors", [])) + list(b.get("errors", [])),
                notes=list(a.get("notes", [])) + list(b.get("notes", [])))


def _fields(line):
    return dict(t.split("=", 1) for t in line.split(" ")[1:] if "=" in t)


def nontrivial(line):
    # distinct (matrix source, raw scoring matrix, sequence) with width >= 2 and at least one window
    f = _fields(line)
    sm = f.get("sm", "")
    w = len(sm.split(";")) if sm else 0
    seq = f.get("seq", "-")
    ln = 0 if seq == "-" else len(seq)
    if w >= 2 and ln >= w:
        return (f.get("seqs", f.get("counts", "")), sm, seq, f.get("bg"), f.get("ps"))
    return None


def histogram(line):
    f = _fields(line)
    sm = f.get("sm", "")
    w = len(sm.split(";")) if sm else 0
    seq = f.get("seq", "-")
    ln = 0 if seq == "-" else len(seq)
    return ["width=%d" % w, "src=" + ("seqs" if "seqs" in f else "counts"),
            "bg=" + f.get("bg", "?").split(":")[0], "ps=" + f.get("ps", "?")[0],
            "L<M" if ln < w else "windows", "cols=" + f.get("cols", "?")]


SPEC = dict(
    id="C10",
    group="pwm",
    props_file="C10.v",
    module="LMPwm.C10",
    harness_bin="pwm",
    harness_args=["c10"],
    driver_args=["c10"],
    ml_modules=["pwm_model"],
    translate=translate,
    n={"quick": 1000, "thorough": 30000},
    search_n={"quick": 3000, "thorough": 40000},
    nontrivial=nontrivial,
    histogram=histogram,
    rule="DNA motifs of every width 0..20 (0..40 thorough; the width cycles with the case number) built from "
         "sequences (CountMatrix::from_sequences; for width 0 also from an empty collection) or from arbitrary count data "
         "(CountMatrix::new, wildcard column included), scalar / per-symbol pseudocounts (2/3 strand-symmetric), backgrounds "
         "None / strand-symmetric / arbitrary dyadic = strand-asymmetric (zero entries included), plus an arbitrary "
         "ScoringMatrix::new matrix (finite, -inf, NaN, +-0, huge cells) carrying the case's background and a DNA sequence "
         "(length 0..66, wildcards included). corpus/C10: zero-row matrices three ways, asymmetric backgrounds with odd / "
         "even widths. Observed: reverse_complement once and twice of the count, frequency, weight and scoring matrix (data, "
         "sequence count and background), the conversions applied before and after reverse-complementing, score_position of "
         "the matrix on the sequence and of the reverse-complemented matrix on the reverse-complemented sequence at every "
         "position. PROPFAIL: extracted checkers (rc = row reversal + complement permutation from the translated table, rc "
         "twice = identity bit for bit incl. sequence count and background, commutation within 1e-6 relative "
         "(weights/frequencies) or 1e-5 (scores) when background and pseudocounts are strand-symmetric, exact commutation "
         "with to_scoring, mirrored scores within M*2^-23*sum|terms|). DIFF: bit-exact comparison with the extracted "
         "binary32 model (incl. the background after one rc). Non-trivial: distinct (matrix source, scoring matrix, "
         "sequence, background, pseudocounts) of width >= 2 with at least one window.",
    trusted_base=[
        "Coq 8.16.1 kernel (coqc); Flocq 4.1.0 (binary32 semantics); vm_compute only in finite sweeps / Example lemmas",
        "extraction: ExtrOcamlBasic only (nat, N, Z, positive, Q kept as extracted inductives); OCaml 4.13.1",
        "translator translate/pwm_complement.py (regex extraction of enum discriminants, symbols(), as_str(), "
        "complement() arms from abc.rs into coq/pwm/GenComplement.v); the translate step of this SPEC also regenerates "
        "coq/pwm/GenPwmSkel.v (translate/pwm_skel.py, statement skeletons of pwm/mod.rs used by C09_source_skeleton) because "
        "groups importing LMPwm (e2e, sampler) call this translator",
        "hand-written OCaml driver ocaml/pwm/driver.ml (parsing, oracle table, tolerances, comparison)",
        "Rust harness harness/src/bin/pwm.rs (builds the reverse-complemented sequence with Dna::complement, "
        "stripes with the generic pipeline, catch_unwind)",
        "modelled, not verified: pwm/mod.rs reverse_complement / to_freq / to_weight / to_scoring / score_position "
        "(hand-written Gallina model, tied by the bit-exact correspondence check), libm log2f through the oracle table",
    ],
    assumptions=[
        "rows of every matrix have exactly K = 5 cells and symbol indices are < 5 (guaranteed by the Rust types)",
        "exact-arithmetic theorems (revcomp_commutes_*, revcomp_mirrors_scores for sums) are over Qc / any commutative "
        "monoid; in binary32 the row sum and the window sum are taken in a different order — stated for every carrier "
        "by C10_revcomp_to_freq_reassociation and C10_revcomp_scores_sum_reversed — so equality holds only up to "
        "rounding (checked with the stated tolerances, and bit-exactly against the binary32 model); for the mirrored "
        "scores the size of the difference is proved (C10_revcomp_mirrors_scores_f32: <= 2((1+u)^(M-1)-1)*sum|cells|, "
        "below the checker's M*2^-23*sum|cells| for M <= 4096 rows, both scores finite) and so is the count -> frequency one "
        "(C10_revcomp_commutes_to_freq_f32: the two routes agree within 1e-6 relative cell by cell, for nonnegative finite "
        "cells, finite positive row sums and quotients that are zero or normal numbers; the driver skips the "
        "commutation checks when a frequency cell is subnormal)",
        "flog2 (libm log2f) is a Section variable; commutation with to_scoring holds for any flog2",
        "the sequence is reverse-complemented outside the library (no such function exists in lightmotif)",
    ],
)
