"""C10 — reverse-complementing a motif mirrors its scores on the opposite strand."""
import os
import sys

sys.path.insert(0, os.path.dirname(os.path.dirname(os.path.abspath(__file__))))
from translate import pwm_complement, pwm_skel  # noqa: E402


def translate():
    # abc.rs -> GenComplement.v (alphabet constants, complement table); pwm/mod.rs -> GenPwmSkel.v (statement
    # skeletons of the functions modelled in PwmStat.v, compared with the pinned PwmSkel.v by C09_source_skeleton)
    a = pwm_complement.generate()
    b = pwm_skel.translate()
    return dict(ok=a.get("ok", True) and b.get("ok", True),
                errors=list(a.get("errors", [])) + list(b.get("errors", [])),
                notes=list(a.get("notes", [])) + list(b.get("notes", [])))


def _fields(line):
    return dict(t.split("=", 1) for t in line.split(" ")[1:] if "=" in t)


def nontrivial(line):
    # distinct (matrix source, raw scoring matrix, sequence) with width >= 2 and at least one window
    f = _fields(line)
    sm = f.get("sm", "")
    w = len(sm.split(";")) if sm else 0
    seq = f.get("seq", "-")
    ln = 0 if seq == "-" else len(seq)
    if w >= 2 and ln >= w:
        return (f.get("seqs", f.get("counts", "")), sm, seq, f.get("bg"), f.get("ps"))
    return None


def histogram(line):
    f = _fields(line)
    sm = f.get("sm", "")
    w = len(sm.split(";")) if sm else 0
    seq = f.get("seq", "-")
    ln = 0 if seq == "-" else len(seq)
    return ["width=%d" % w, "src=" + ("seqs" if "seqs" in f else "counts"),
            "bg=" + f.get("bg", "?").split(":")[0], "ps=" + f.get("ps", "?")[0],
            "L<M" if ln < w else "windows", "cols=" + f.get("cols", "?")]


SPEC = dict(
    id="C10",
    group="pwm",
    props_file="C10.v",
    module="LMPwm.C10",
    harness_bin="pwm",
    harness_args=["c10"],
    driver_args=["c10"],
    ml_modules=["pwm_model"],
    translate=translate,
    n={"quick": 1000, "thorough": 30000},
    search_n={"quick": 3000, "thorough": 40000},
    nontrivial=nontrivial,
    histogram=histogram,
    rule="DNA motifs of every width 0..20 (0..40 thorough; the width cycles with the case number) built from "
         "sequences (CountMatrix::from_sequences; for width 0 also from an empty collection) or from arbitrary count data "
         "(CountMatrix::new, wildcard column included), scalar / per-symbol pseudocounts (2/3 strand-symmetric), backgrounds "
         "None / strand-symmetric / arbitrary dyadic = strand-asymmetric (zero entries included), plus an arbitrary "
         "ScoringMatrix::new matrix (finite, -inf, NaN, +-0, huge cells) carrying the case's background and a DNA sequence "
         "(length 0..66, wildcards included). corpus/C10: zero-row matrices three ways, asymmetric backgrounds with odd / "
         "even widths. Observed: reverse_complement once and twice of the count, frequency, weight and scoring matrix (data, "
         "sequence count and background), the conversions applied before and after reverse-complementing, score_position of "
         "the matrix on the sequence and of the reverse-complemented matrix on the reverse-complemented sequence at every "
         "position. PROPFAIL: extracted checkers (rc = row reversal + complement permutation from the translated table, rc "
         "twice = identity bit for bit incl. sequence count and background, commutation within 1e-6 relative "
         "(weights/frequencies) or 1e-5 (scores) when background and pseudocounts are strand-symmetric (extracted "
         "strand_symmetric; what a passing comparison states: C10_commutation_check_sound), exact commutation "
         "with to_scoring, mirrored scores within M*2^-23*sum|terms| (check_mirror; judged cases: C10_check_mirror_sound2, "
         "incl. bit equality when a term is -inf)). Comparisons not made are counted per case and printed behind the "
         "verdict (`OK skipped=mirror:nan-or-inf:<n>`: a term or a score NaN, a term +inf, finite terms with an overflowed "
         "score - extracted mirror_skipped; `skipped=rc-commutation:subnormal-frequency`). DIFF: bit-exact comparison with "
         "the extracted binary32 model (incl. the background after one rc). Theorems: coq/pwm/C10.v (20). Non-trivial: distinct (matrix source, scoring matrix, "
         "sequence, background, pseudocounts) of width >= 2 with at least one window.",
    trusted_base=[
        "Coq 8.16.1 kernel (coqc); Flocq 4.1.0 (binary32 semantics); vm_compute only in finite sweeps / Example lemmas "
        "(incl. C10_mirror_overflow_example); no native_compute",
        "extraction: ExtrOcamlBasic only (its Extract Inductive directives for bool, option, list, prod, unit, sumbool, "
        "sumor); no other Extract Inductive (nat, N, Z, positive, Q kept as extracted inductives); OCaml 4.13.1. The driver "
        "binary is shared with C09, so the ONE Extract Constant of the whole development is linked in: coq/pwm/Extract.v "
        "realises ClassicalDedekindReals.sig_forall_dec as a function that raises (\"real-number computation reached\") "
        "because the verified interval-arithmetic checker of C09 (coq-interval / Interval library, coq/pwm/PwmLog.v) mentions "
        "it in dead code; no C10 path uses the interval checker; a call would abort the driver (reported as DIFF), never "
        "decide a verdict",
        "translator translate/pwm_complement.py (regex extraction of enum discriminants, symbols(), as_str(), "
        "complement() arms from abc.rs into coq/pwm/GenComplement.v); the translate step of this SPEC also regenerates "
        "coq/pwm/GenPwmSkel.v (translate/pwm_skel.py, statement skeletons of pwm/mod.rs used by C09_source_skeleton) because "
        "groups importing LMPwm (e2e, sampler) call this translator",
        "hand-written OCaml driver ocaml/pwm/driver.ml (parsing, oracle table and its validation by hand-written "
        "double-precision code - DIFF path only, tolerances, the iteration around the extracted checkers, counting of the "
        "skipped comparisons)",
        "PROPFAIL decisions of ocaml/pwm/driver.ml that are NOT an extracted checker: panics of calls that must not panic "
        "(unexpected-panic); sequence count unchanged by reverse_complement twice (`c2n <> n`, string equality of the "
        "printed n); the reverse-complemented sequence of the harness equals the table's (`rseq <> rc_seq_dna seq`, "
        "structural equality of extracted nat lists); background unchanged by reverse_complement: compared by the extracted "
        "row_same, the PROPFAIL decision is driver code (the matrix model has no background field, so there is no theorem); "
        "the selection of the cases in which the commutation checks apply (extracted strand_symmetric of pseudocounts / "
        "background, hand-written normal-or-zero test of the frequency cells). Every other PROPFAIL is the verdict of one "
        "extracted checker (check_rc_N / check_rc_f32, cm_same / fm_same, fm_close, check_mirror, "
        "complement_involutive_b)",
        "Rust harness harness/src/bin/pwm.rs (builds the reverse-complemented sequence with Dna::complement, "
        "stripes with the generic pipeline, catch_unwind)",
        "modelled, not verified: pwm/mod.rs reverse_complement / to_freq / to_weight / to_scoring / score_position "
        "(hand-written Gallina model, tied by the bit-exact correspondence check), libm log2f through the oracle table",
    ],
    assumptions=[
        "rows of every matrix have exactly K = 5 cells and symbol indices are < 5 (guaranteed by the Rust types)",
        "exact-arithmetic theorems (revcomp_commutes_*, revcomp_mirrors_scores for sums) are over Qc / any commutative "
        "monoid; in binary32 the row sum and the window sum are taken in a different order — stated for every carrier "
        "by C10_revcomp_to_freq_reassociation and C10_revcomp_scores_sum_reversed — so equality holds only up to "
        "rounding (checked with the stated tolerances, and bit-exactly against the binary32 model); for the mirrored "
        "scores the size of the difference is proved (C10_revcomp_mirrors_scores_f32: <= 2((1+u)^(M-1)-1)*sum|cells|, "
        "below the checker's M*2^-23*sum|cells| for M <= 4096 rows, both scores finite) and so is the count -> frequency one "
        "(C10_revcomp_commutes_to_freq_f32: the two routes agree within 1e-6 relative cell by cell, for nonnegative finite "
        "cells, finite positive row sums and quotients that are zero or normal numbers; the driver skips the "
        "commutation checks when a frequency cell is subnormal)",
        "C10_revcomp_commutes needs strand-symmetric pseudocounts as well as a strand-symmetric background: every scalar "
        "pseudocount is (C10_pseudo_scalar_symmetric, C10_revcomp_commutes_scalar_pseudo: hypothesis on the background "
        "only); a per-symbol pseudocount vector must satisfy p_A = p_T, p_C = p_G (the driver applies the commutation checks "
        "only then)",
        "the binary32 composite commutation count -> frequency -> weight / score (checks wcc 1e-6, scc 1e-5) is checked, not "
        "proved (only the frequency step has a theorem: C10_revcomp_commutes_to_freq_f32); what a passing check states: "
        "C10_commutation_check_sound",
        "mirrored scores are not judged when a term or a score is NaN, a term is +inf, or a score overflowed "
        "(C10_mirror_overflow_example: with finite terms the two summation orders may legitimately differ, one overflowing "
        "and the other not); counted in the verdict (`skipped=mirror:nan-or-inf:n`)",
        "flog2 (libm log2f) is a Section variable; commutation with to_scoring holds for any flog2",
        "the sequence is reverse-complemented outside the library (no such function exists in lightmotif)",
    ],
)
