"""C14 — well-formed motif files load completely and exactly under any stream chunking.
Decided per format by two model groups (io: JASPAR, JASPAR16, UniPROBE; transfac)."""
SPECS = []
try:
    from props.io_specs import C14_SPEC as _io
    SPECS.append(_io)
except ImportError:
    pass
try:
    from props.transfac_specs import C14_SPEC as _tf
    SPECS.append(_tf)
except ImportError:
    pass
