use pyo3::prelude::*;
use pyo3::types::{PyDict, PyList, PyModule};

fn main() -> PyResult<()> {
    let args: Vec<String> = std::env::args().collect();
    pyo3::prepare_freethreaded_python();
    Python::with_gil(|py| {
        let sys = py.import_bound("sys")?;
        sys.getattr("path")?.downcast::<PyList>()?.insert(0, "/repo/lightmotif-py")?;
        let module = PyModule::new_bound(py, "lightmotif.lib")?;
        lightmotif_py::init(py, &module).unwrap();
        sys.getattr("modules")?.downcast::<PyDict>()?.set_item("lightmotif.lib", module)?;
        if args.len() > 2 && args[1] == "py" {
            let code = std::fs::read_to_string(&args[2]).unwrap();
            py.run_bound(&code, None, None)?;
        }
        Ok(())
    })
}
