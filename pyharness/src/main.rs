//! lmpy — verification harness for the Python bindings of lightmotif (C17/C18).
//!
//! `lmpy py <script.py> [args...]` embeds CPython (like
//! /repo/lightmotif-py/lightmotif/tests/unittest.rs), registers the extension module
//! built from the repository's working tree as `lightmotif.lib` (so `import lightmotif`
//! works) and a helper module `lmcore` (src/lmcore.rs) that runs the *core* Rust
//! library on plain Python data in the same process, sets `sys.argv = [script, args...]`
//! and runs the script as `__main__`.
//!
//! The repository whose `lightmotif-py/lightmotif/__init__.py` is imported is
//! `$VERIF_REPO` (default `/repo`); the Rust code is whatever the path dependencies
//! of Cargo.toml point to (vlib rewrites them for scratch worktrees).
use pyo3::prelude::*;
use pyo3::types::{PyDict, PyList, PyModule};

mod lmcore;

fn main() {
    let args: Vec<String> = std::env::args().collect();
    if args.len() < 3 || args[1] != "py" {
        eprintln!("usage: lmpy py <script.py> [args...]");
        std::process::exit(2);
    }
    if std::env::var_os("LMPY_QUIET_PANICS").is_some() {
        std::panic::set_hook(Box::new(|_| {}));
    }
    let repo = std::env::var("VERIF_REPO").unwrap_or_else(|_| "/repo".to_string());
    let repo = repo.trim_end_matches('/').to_string();
    pyo3::prepare_freethreaded_python();
    let rc = Python::with_gil(|py| -> PyResult<i32> {
        let sys = py.import_bound("sys")?;
        let path = sys.getattr("path")?;
        let path = path.downcast::<PyList>()?;
        path.insert(0, format!("{}/lightmotif-py", repo))?;
        if let Some(dir) = std::path::Path::new(&args[2]).parent() {
            path.insert(0, dir.to_string_lossy().to_string())?;
        }
        let argv = PyList::new_bound(py, &args[2..]);
        sys.setattr("argv", argv)?;
        let modules = sys.getattr("modules")?;
        let modules = modules.downcast::<PyDict>()?;
        let module = PyModule::new_bound(py, "lightmotif.lib")?;
        lightmotif_py::init(py, &module)?;
        modules.set_item("lightmotif.lib", module)?;
        let core = PyModule::new_bound(py, "lmcore")?;
        lmcore::init(py, &core)?;
        modules.set_item("lmcore", core)?;

        let code = std::fs::read_to_string(&args[2])
            .map_err(|e| pyo3::exceptions::PyOSError::new_err(format!("{}: {}", args[2], e)))?;
        let globals = py.import_bound("__main__")?.dict();
        globals.set_item("__file__", &args[2])?;
        match py.run_bound(&code, Some(&globals), None) {
            Ok(()) => Ok(0),
            Err(e) => {
                if e.is_instance_of::<pyo3::exceptions::PySystemExit>(py) {
                    let code = e.value_bound(py).getattr("code")?;
                    if code.is_none() {
                        return Ok(0);
                    }
                    return Ok(code.extract::<i32>().unwrap_or(1));
                }
                e.print(py);
                Ok(1)
            }
        }
    });
    // flush Python's buffered stdout/stderr before leaving
    Python::with_gil(|py| {
        if let Ok(sys) = py.import_bound("sys") {
            for s in ["stdout", "stderr"] {
                if let Ok(f) = sys.getattr(s) {
                    let _ = f.call_method0("flush");
                }
            }
        }
    });
    match rc {
        Ok(c) => std::process::exit(c),
        Err(e) => {
            Python::with_gil(|py| e.print(py));
            std::process::exit(1)
        }
    }
}
