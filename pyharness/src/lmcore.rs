//! `lmcore` — the core Rust library of lightmotif, callable from the embedded
//! interpreter on plain Python data, *without* going through lightmotif-py.
//!
//! Values of the core library live in opaque `CoreVal` objects; `content(v)` renders
//! a value canonically (floats as IEEE bit patterns) so that the Python driver and the
//! OCaml model driver can compare them bit for bit.  Every call into the library is
//! wrapped in `catch_unwind`: a panic becomes `lmcore.CorePanic`, an `Err` of the
//! library becomes `lmcore.CoreErr(kind)`.
use std::io::Cursor;
use std::io::Read;
use std::panic::{catch_unwind, AssertUnwindSafe};

use lightmotif::abc::{Alphabet, Background, Dna, Protein, Pseudocounts};
use lightmotif::dense::DenseMatrix;
use lightmotif::num::Unsigned;
use lightmotif::pli::{Pipeline, Score};
use lightmotif::pwm::{CountMatrix, FrequencyMatrix, ScoringMatrix, WeightMatrix};
use lightmotif::scores::StripedScores;
use lightmotif::seq::{EncodedSequence, StripedSequence};
use lightmotif_tfmpvalue::TfmPvalue;

use generic_array::GenericArray;
use pyo3::exceptions::PyTypeError;
use pyo3::prelude::*;
use pyo3::types::{PyBytes, PyTuple};

pyo3::create_exception!(lmcore, CorePanic, pyo3::exceptions::PyException);
pyo3::create_exception!(lmcore, CoreErr, pyo3::exceptions::PyException);

pub enum V {
    CountD(CountMatrix<Dna>),
    CountP(CountMatrix<Protein>),
    FreqD(FrequencyMatrix<Dna>),
    FreqP(FrequencyMatrix<Protein>),
    WeightD(WeightMatrix<Dna>),
    WeightP(WeightMatrix<Protein>),
    ScoreD(ScoringMatrix<Dna>),
    ScoreP(ScoringMatrix<Protein>),
    SeqD(StripedSequence<Dna>, String),
    SeqP(StripedSequence<Protein>, String),
    Scores(StripedScores<f32>),
}

#[pyclass(module = "lmcore", unsendable)]
pub struct CoreVal {
    v: V,
}

fn wrapv(v: V) -> CoreVal {
    CoreVal { v }
}

fn guard<T, F: FnOnce() -> PyResult<T>>(what: &str, f: F) -> PyResult<T> {
    match catch_unwind(AssertUnwindSafe(f)) {
        Ok(r) => r,
        Err(e) => {
            let msg = if let Some(s) = e.downcast_ref::<&str>() {
                s.to_string()
            } else if let Some(s) = e.downcast_ref::<String>() {
                s.clone()
            } else {
                "?".to_string()
            };
            Err(CorePanic::new_err(format!("{}: {}", what, msg)))
        }
    }
}

fn bad(what: &str) -> PyErr {
    PyTypeError::new_err(format!("lmcore: wrong kind of value for {}", what))
}

/// bit pattern with NaN canonicalised (quiet, positive, zero payload)
fn cb32(x: f32) -> u32 {
    if x.is_nan() {
        0x7FC0_0000
    } else {
        x.to_bits()
    }
}

fn cb64(x: f64) -> u64 {
    if x.is_nan() {
        0x7FF8_0000_0000_0000
    } else {
        x.to_bits()
    }
}

fn bits(xs: &[f32]) -> String {
    xs.iter().map(|x| cb32(*x).to_string()).collect::<Vec<_>>().join(",")
}

fn rows_f32<K: lightmotif::num::ArrayLength>(m: &DenseMatrix<f32, K>) -> String {
    if m.rows() == 0 {
        return "-".to_string();
    }
    (0..m.rows()).map(|i| bits(&m[i][..K::USIZE])).collect::<Vec<_>>().join("/")
}

fn rows_u32<K: lightmotif::num::ArrayLength>(m: &DenseMatrix<u32, K>) -> String {
    if m.rows() == 0 {
        return "-".to_string();
    }
    (0..m.rows())
        .map(|i| m[i][..K::USIZE].iter().map(|x| x.to_string()).collect::<Vec<_>>().join(","))
        .collect::<Vec<_>>()
        .join("/")
}

fn garr<A: Alphabet>(vals: &[u32]) -> PyResult<GenericArray<f32, A::K>> {
    if vals.len() != A::K::USIZE {
        return Err(PyTypeError::new_err("lmcore: array length differs from alphabet size"));
    }
    Ok(vals.iter().map(|b| f32::from_bits(*b)).collect())
}

fn dense_f32<A: Alphabet>(rows: &[Vec<u32>]) -> PyResult<DenseMatrix<f32, A::K>> {
    let mut m = DenseMatrix::<f32, A::K>::new(rows.len());
    for (i, r) in rows.iter().enumerate() {
        if r.len() != A::K::USIZE {
            return Err(PyTypeError::new_err("lmcore: row length differs from alphabet size"));
        }
        for (j, x) in r.iter().enumerate() {
            m[i][j] = f32::from_bits(*x);
        }
    }
    Ok(m)
}

fn dense_u32<A: Alphabet>(rows: &[Vec<u32>]) -> PyResult<DenseMatrix<u32, A::K>> {
    let mut m = DenseMatrix::<u32, A::K>::new(rows.len());
    for (i, r) in rows.iter().enumerate() {
        if r.len() != A::K::USIZE {
            return Err(PyTypeError::new_err("lmcore: row length differs from alphabet size"));
        }
        for (j, x) in r.iter().enumerate() {
            m[i][j] = *x;
        }
    }
    Ok(m)
}

// ------------------------------------------------------------------ conversions

#[pyfunction]
fn f32bits(x: f64) -> u32 {
    cb32(x as f32)
}
#[pyfunction]
fn f64bits(x: f64) -> u64 {
    cb64(x)
}
#[pyfunction]
fn f32val(b: u32) -> f64 {
    f32::from_bits(b) as f64
}
#[pyfunction]
fn f64val(b: u64) -> f64 {
    f64::from_bits(b)
}
#[pyfunction]
fn f64_to_f32bits(b: u64) -> u32 {
    cb32(f64::from_bits(b) as f32)
}
#[pyfunction]
fn symbols(protein: bool) -> String {
    if protein {
        Protein::as_str().to_string()
    } else {
        Dna::as_str().to_string()
    }
}

// ------------------------------------------------------------------ matrices

#[pyfunction]
fn count_new(protein: bool, rows: Vec<Vec<u32>>) -> PyResult<CoreVal> {
    guard("CountMatrix::new", || {
        if protein {
            CountMatrix::<Protein>::new(dense_u32::<Protein>(&rows)?)
                .map(|c| wrapv(V::CountP(c)))
                .map_err(|_| CoreErr::new_err("invalid"))
        } else {
            CountMatrix::<Dna>::new(dense_u32::<Dna>(&rows)?)
                .map(|c| wrapv(V::CountD(c)))
                .map_err(|_| CoreErr::new_err("invalid"))
        }
    })
}

#[pyfunction]
fn count_from_seqs(protein: bool, seqs: Vec<String>) -> PyResult<CoreVal> {
    guard("CountMatrix::from_sequences", || {
        macro_rules! run {
            ($a:ty, $c:ident) => {{
                let mut enc = Vec::new();
                for s in seqs.iter() {
                    enc.push(
                        EncodedSequence::<$a>::encode(s.as_str())
                            .map_err(|_| CoreErr::new_err("symbol"))?,
                    );
                }
                CountMatrix::<$a>::from_sequences(enc)
                    .map(|c| wrapv(V::$c(c)))
                    .map_err(|_| CoreErr::new_err("length"))
            }};
        }
        if protein {
            run!(Protein, CountP)
        } else {
            run!(Dna, CountD)
        }
    })
}

/// `kind` is "S" (scalar pseudocount, `vals[0]`) or "A" (one value per symbol).
#[pyfunction]
fn to_freq(cm: PyRef<CoreVal>, kind: &str, vals: Vec<u32>) -> PyResult<CoreVal> {
    guard("CountMatrix::to_freq", || {
        macro_rules! run {
            ($a:ty, $c:ident, $m:expr) => {{
                let p: Pseudocounts<$a> = match kind {
                    "S" => Pseudocounts::from(f32::from_bits(vals[0])),
                    "A" => Pseudocounts::from(garr::<$a>(&vals)?),
                    _ => return Err(bad("pseudocount kind")),
                };
                Ok(wrapv(V::$c($m.to_freq(p))))
            }};
        }
        match &cm.v {
            V::CountD(m) => run!(Dna, FreqD, m),
            V::CountP(m) => run!(Protein, FreqP, m),
            _ => Err(bad("to_freq")),
        }
    })
}

#[pyfunction]
fn to_weight(fm: PyRef<CoreVal>) -> PyResult<CoreVal> {
    guard("FrequencyMatrix::to_weight", || match &fm.v {
        V::FreqD(m) => Ok(wrapv(V::WeightD(m.to_weight(None)))),
        V::FreqP(m) => Ok(wrapv(V::WeightP(m.to_weight(None)))),
        _ => Err(bad("to_weight")),
    })
}

#[pyfunction]
fn bg_new(protein: bool, vals: Vec<u32>) -> PyResult<Vec<u32>> {
    guard("Background::new", || {
        if protein {
            Background::<Protein>::new(garr::<Protein>(&vals)?)
                .map(|b| b.frequencies().iter().map(|x| cb32(*x)).collect())
                .map_err(|_| CoreErr::new_err("invalid"))
        } else {
            Background::<Dna>::new(garr::<Dna>(&vals)?)
                .map(|b| b.frequencies().iter().map(|x| cb32(*x)).collect())
                .map_err(|_| CoreErr::new_err("invalid"))
        }
    })
}

#[pyfunction]
fn bg_uniform(protein: bool) -> Vec<u32> {
    if protein {
        Background::<Protein>::uniform().frequencies().iter().map(|x| cb32(*x)).collect()
    } else {
        Background::<Dna>::uniform().frequencies().iter().map(|x| cb32(*x)).collect()
    }
}

#[pyfunction]
fn weight_bg(w: PyRef<CoreVal>) -> PyResult<Vec<u32>> {
    match &w.v {
        V::WeightD(m) => Ok(m.background().frequencies().iter().map(|x| cb32(*x)).collect()),
        V::WeightP(m) => Ok(m.background().frequencies().iter().map(|x| cb32(*x)).collect()),
        _ => Err(bad("weight_bg")),
    }
}

#[pyfunction]
fn rescale(w: PyRef<CoreVal>, bg: Vec<u32>) -> PyResult<CoreVal> {
    guard("WeightMatrix::rescale", || match &w.v {
        V::WeightD(m) => {
            let b = Background::<Dna>::new(garr::<Dna>(&bg)?).map_err(|_| CoreErr::new_err("invalid"))?;
            Ok(wrapv(V::WeightD(m.rescale(b))))
        }
        V::WeightP(m) => {
            let b = Background::<Protein>::new(garr::<Protein>(&bg)?)
                .map_err(|_| CoreErr::new_err("invalid"))?;
            Ok(wrapv(V::WeightP(m.rescale(b))))
        }
        _ => Err(bad("rescale")),
    })
}

#[pyfunction]
fn to_scoring_base(w: PyRef<CoreVal>, base: u32) -> PyResult<CoreVal> {
    guard("WeightMatrix::to_scoring_with_base", || match &w.v {
        V::WeightD(m) => Ok(wrapv(V::ScoreD(m.to_scoring_with_base(f32::from_bits(base))))),
        V::WeightP(m) => Ok(wrapv(V::ScoreP(m.to_scoring_with_base(f32::from_bits(base))))),
        _ => Err(bad("to_scoring_base")),
    })
}

#[pyfunction]
fn to_scoring(w: PyRef<CoreVal>) -> PyResult<CoreVal> {
    guard("WeightMatrix::to_scoring", || match &w.v {
        V::WeightD(m) => Ok(wrapv(V::ScoreD(m.to_scoring()))),
        V::WeightP(m) => Ok(wrapv(V::ScoreP(m.to_scoring()))),
        _ => Err(bad("to_scoring")),
    })
}

/// `bg` = None for the uniform background.
#[pyfunction]
#[pyo3(signature = (protein, bg, rows))]
fn scoring_new(protein: bool, bg: Option<Vec<u32>>, rows: Vec<Vec<u32>>) -> PyResult<CoreVal> {
    guard("ScoringMatrix::new", || {
        macro_rules! run {
            ($a:ty, $c:ident) => {{
                let b = match &bg {
                    None => Background::<$a>::uniform(),
                    Some(v) => Background::<$a>::new(garr::<$a>(v)?).map_err(|_| CoreErr::new_err("invalid"))?,
                };
                Ok(wrapv(V::$c(ScoringMatrix::<$a>::new(b, dense_f32::<$a>(&rows)?))))
            }};
        }
        if protein {
            run!(Protein, ScoreP)
        } else {
            run!(Dna, ScoreD)
        }
    })
}

#[pyfunction]
fn revcomp(s: PyRef<CoreVal>) -> PyResult<CoreVal> {
    guard("ScoringMatrix::reverse_complement", || match &s.v {
        V::ScoreD(m) => Ok(wrapv(V::ScoreD(m.reverse_complement()))),
        V::ScoreP(_) => Err(CoreErr::new_err("protein")),
        _ => Err(bad("revcomp")),
    })
}

#[pyfunction]
fn max_score(s: PyRef<CoreVal>) -> PyResult<u32> {
    guard("ScoringMatrix::max_score", || match &s.v {
        V::ScoreD(m) => Ok(cb32(m.max_score())),
        V::ScoreP(m) => Ok(cb32(m.max_score())),
        _ => Err(bad("max_score")),
    })
}

#[pyfunction]
fn motif_len(s: PyRef<CoreVal>) -> PyResult<usize> {
    match &s.v {
        V::ScoreD(m) => Ok(m.len()),
        V::ScoreP(m) => Ok(m.len()),
        V::CountD(m) => Ok(m.len()),
        V::CountP(m) => Ok(m.len()),
        V::WeightD(m) => Ok(m.len()),
        V::WeightP(m) => Ok(m.len()),
        V::FreqD(m) => Ok(m.len()),
        V::FreqP(m) => Ok(m.len()),
        _ => Err(bad("motif_len")),
    }
}

// ------------------------------------------------------------------ sequences and scores

/// Encode and stripe `text`, then add `wrap` look-ahead rows (`configure_wrap`).
#[pyfunction]
fn stripe(protein: bool, text: &str, wrap: usize) -> PyResult<CoreVal> {
    guard("encode + stripe", || {
        if protein {
            let e = EncodedSequence::<Protein>::encode(text).map_err(|_| CoreErr::new_err("symbol"))?;
            let mut s = e.to_striped();
            s.configure_wrap(wrap);
            Ok(wrapv(V::SeqP(s, text.to_string())))
        } else {
            let e = EncodedSequence::<Dna>::encode(text).map_err(|_| CoreErr::new_err("symbol"))?;
            let mut s = e.to_striped();
            s.configure_wrap(wrap);
            Ok(wrapv(V::SeqD(s, text.to_string())))
        }
    })
}

/// `StripedSequence::configure(motif)` on a copy; returns the new sequence value.
#[pyfunction]
fn configure(seq: PyRef<CoreVal>, s: PyRef<CoreVal>) -> PyResult<CoreVal> {
    guard("StripedSequence::configure", || match (&seq.v, &s.v) {
        (V::SeqD(q, t), V::ScoreD(m)) => {
            let mut q = q.clone();
            q.configure(m);
            Ok(wrapv(V::SeqD(q, t.clone())))
        }
        (V::SeqP(q, t), V::ScoreP(m)) => {
            let mut q = q.clone();
            q.configure(m);
            Ok(wrapv(V::SeqP(q, t.clone())))
        }
        (V::SeqD(_, _), V::ScoreP(_)) | (V::SeqP(_, _), V::ScoreD(_)) => Err(CoreErr::new_err("alphabet")),
        _ => Err(bad("configure")),
    })
}

#[pyfunction]
fn wrap_of(seq: PyRef<CoreVal>) -> PyResult<usize> {
    match &seq.v {
        V::SeqD(q, _) => Ok(q.wrap()),
        V::SeqP(q, _) => Ok(q.wrap()),
        _ => Err(bad("wrap_of")),
    }
}

/// `Pipeline::dispatch().score(pssm, seq)` on the sequence as it is (no configure).
#[pyfunction]
fn score(s: PyRef<CoreVal>, seq: PyRef<CoreVal>) -> PyResult<CoreVal> {
    guard("Pipeline::score", || match (&s.v, &seq.v) {
        (V::ScoreD(m), V::SeqD(q, _)) => {
            let pli = Pipeline::dispatch();
            Ok(wrapv(V::Scores(pli.score(m, q))))
        }
        (V::ScoreP(m), V::SeqP(q, _)) => {
            let pli = Pipeline::dispatch();
            Ok(wrapv(V::Scores(pli.score(m, q))))
        }
        (V::ScoreD(_), V::SeqP(_, _)) | (V::ScoreP(_), V::SeqD(_, _)) => Err(CoreErr::new_err("alphabet")),
        _ => Err(bad("score")),
    })
}

/// The score of every position by the scalar definition (`score_position`).
#[pyfunction]
fn score_positions(s: PyRef<CoreVal>, seq: PyRef<CoreVal>) -> PyResult<Vec<u32>> {
    guard("ScoringMatrix::score_position", || match (&s.v, &seq.v) {
        (V::ScoreD(m), V::SeqD(q, _)) => {
            let n = (q.len() + 1).saturating_sub(m.len());
            Ok((0..n).map(|i| cb32(m.score_position(q, i))).collect())
        }
        (V::ScoreP(m), V::SeqP(q, _)) => {
            let n = (q.len() + 1).saturating_sub(m.len());
            Ok((0..n).map(|i| cb32(m.score_position(q, i))).collect())
        }
        _ => Err(bad("score_positions")),
    })
}

fn as_scores<'a>(v: &'a CoreVal) -> PyResult<&'a StripedScores<f32>> {
    match &v.v {
        V::Scores(s) => Ok(s),
        _ => Err(bad("scores")),
    }
}

#[pyfunction]
fn scores_len(sc: PyRef<CoreVal>) -> PyResult<usize> {
    Ok(as_scores(&sc)?.max_index())
}

#[pyfunction]
fn scores_list(sc: PyRef<CoreVal>) -> PyResult<Vec<u32>> {
    guard("StripedScores index", || {
        let s = as_scores(&sc)?;
        Ok((0..s.max_index()).map(|i| cb32(s[i])).collect())
    })
}

#[pyfunction]
fn scores_max(sc: PyRef<CoreVal>) -> PyResult<Option<u32>> {
    guard("StripedScores::max", || Ok(as_scores(&sc)?.max().map(cb32)))
}

#[pyfunction]
fn scores_argmax(sc: PyRef<CoreVal>) -> PyResult<Option<usize>> {
    guard("StripedScores::argmax", || Ok(as_scores(&sc)?.argmax()))
}

#[pyfunction]
fn scores_threshold(sc: PyRef<CoreVal>, t: u32) -> PyResult<Vec<usize>> {
    guard("StripedScores::threshold", || Ok(as_scores(&sc)?.threshold(f32::from_bits(t))))
}

// ------------------------------------------------------------------ p-values

#[pyfunction]
fn dist_pvalue(s: PyRef<CoreVal>, score: u32) -> PyResult<u64> {
    guard("ScoreDistribution::pvalue", || match &s.v {
        V::ScoreD(m) => Ok(cb64(m.to_score_distribution().pvalue(f32::from_bits(score)))),
        V::ScoreP(m) => Ok(cb64(m.to_score_distribution().pvalue(f32::from_bits(score)))),
        _ => Err(bad("dist_pvalue")),
    })
}

#[pyfunction]
fn dist_score(s: PyRef<CoreVal>, pvalue: u64) -> PyResult<u32> {
    guard("ScoreDistribution::score", || match &s.v {
        V::ScoreD(m) => Ok(cb32(m.to_score_distribution().score(f64::from_bits(pvalue)))),
        V::ScoreP(m) => Ok(cb32(m.to_score_distribution().score(f64::from_bits(pvalue)))),
        _ => Err(bad("dist_score")),
    })
}

#[pyfunction]
fn tfm_pvalue(s: PyRef<CoreVal>, score: u64) -> PyResult<u64> {
    guard("TfmPvalue::pvalue", || match &s.v {
        V::ScoreD(m) => Ok(cb64(TfmPvalue::new(m).pvalue(f64::from_bits(score)))),
        V::ScoreP(m) => Ok(cb64(TfmPvalue::new(m).pvalue(f64::from_bits(score)))),
        _ => Err(bad("tfm_pvalue")),
    })
}

#[pyfunction]
fn tfm_score(s: PyRef<CoreVal>, pvalue: u64) -> PyResult<u64> {
    guard("TfmPvalue::score", || match &s.v {
        V::ScoreD(m) => Ok(cb64(TfmPvalue::new(m).score(f64::from_bits(pvalue)))),
        V::ScoreP(m) => Ok(cb64(TfmPvalue::new(m).score(f64::from_bits(pvalue)))),
        _ => Err(bad("tfm_score")),
    })
}

/// FNV-1a (64 bit) over the decimal text of the f64 bit patterns, each followed by ','
fn fnv_f64(xs: &[f64]) -> String {
    let mut h: u64 = 0xcbf29ce484222325;
    for x in xs {
        for b in format!("{},", cb64(*x)).bytes() {
            h ^= b as u64;
            h = h.wrapping_mul(0x100000001b3);
        }
    }
    format!("sd:{}:{:016x}", xs.len(), h)
}

/// digest of `to_score_distribution().sf()`
#[pyfunction]
fn dist_sf(s: PyRef<CoreVal>) -> PyResult<String> {
    guard("ScoreDistribution::sf", || match &s.v {
        V::ScoreD(m) => Ok(fnv_f64(m.to_score_distribution().sf())),
        V::ScoreP(m) => Ok(fnv_f64(m.to_score_distribution().sf())),
        _ => Err(bad("dist_sf")),
    })
}

/// the derived `PartialEq` of the core types (false for values of different kinds)
#[pyfunction]
fn core_eq(a: PyRef<CoreVal>, b: PyRef<CoreVal>) -> PyResult<bool> {
    guard("PartialEq", || {
        Ok(match (&a.v, &b.v) {
            (V::CountD(x), V::CountD(y)) => x == y,
            (V::CountP(x), V::CountP(y)) => x == y,
            (V::WeightD(x), V::WeightD(y)) => x == y,
            (V::WeightP(x), V::WeightP(y)) => x == y,
            (V::ScoreD(x), V::ScoreD(y)) => x == y,
            (V::ScoreP(x), V::ScoreP(y)) => x == y,
            _ => false,
        })
    })
}

// ------------------------------------------------------------------ scanner

/// All hits of a fresh core `Scanner` over (a configured copy of) the sequence, in
/// the order in which the iterator yields them.
#[pyfunction]
fn scan_all(s: PyRef<CoreVal>, seq: PyRef<CoreVal>, threshold: u32, block_size: usize) -> PyResult<Vec<(usize, u32)>> {
    guard("Scanner", || match (&s.v, &seq.v) {
        (V::ScoreD(m), V::SeqD(q, _)) => {
            let mut q = q.clone();
            q.configure(m);
            let mut sc = lightmotif::scan::Scanner::<Dna, _, _>::new(m, &q);
            sc.threshold(f32::from_bits(threshold));
            sc.block_size(block_size);
            Ok(sc.map(|h| (h.position(), cb32(h.score()))).collect())
        }
        (V::ScoreP(_), V::SeqP(_, _)) => Err(CoreErr::new_err("protein")),
        (V::ScoreD(_), V::SeqP(_, _)) | (V::ScoreP(_), V::SeqD(_, _)) => Err(CoreErr::new_err("alphabet")),
        _ => Err(bad("scan_all")),
    })
}

// ------------------------------------------------------------------ readers

fn opt(py: Python, s: Option<&str>) -> PyObject {
    match s {
        Some(x) => x.to_object(py),
        None => py.None(),
    }
}

fn err_item(py: Python, e: &lightmotif_io::error::Error) -> PyObject {
    let kind = match e {
        lightmotif_io::error::Error::InvalidData => "invalid",
        lightmotif_io::error::Error::Io(_) => "io",
        lightmotif_io::error::Error::Nom(_) => "nom",
    };
    PyTuple::new_bound(py, &["err".to_object(py), kind.to_object(py)]).to_object(py)
}

fn ok_item(py: Python, kind: &str, name: PyObject, desc: PyObject, id: PyObject, acc: PyObject, val: Option<V>) -> PyResult<PyObject> {
    let v = match val {
        Some(v) => Py::new(py, wrapv(v))?.to_object(py),
        None => py.None(),
    };
    Ok(PyTuple::new_bound(py, &["ok".to_object(py), kind.to_object(py), name, desc, id, acc, v]).to_object(py))
}

/// Read every record of `data` with the reader of `format`; stops after the first
/// error.  Items: ("ok", kind, name, description, id, accession, CoreVal|None) with a
/// count matrix (jaspar, jaspar16, transfac; None when TRANSFAC `to_counts()` is None)
/// or a frequency matrix (uniprobe); ("err", "invalid"|"io"|"nom").
#[pyfunction]
fn read_all(py: Python, format: &str, protein: bool, data: &Bound<PyBytes>) -> PyResult<Vec<PyObject>> {
    let bytes = data.as_bytes().to_vec();
    guard("reader", || {
        let mut out = Vec::new();
        let cur = Cursor::new(bytes);
        macro_rules! j16 {
            ($a:ty, $c:ident) => {{
                for r in lightmotif_io::jaspar16::read::<_, $a>(cur) {
                    match r {
                        Err(e) => {
                            out.push(err_item(py, &e));
                            break;
                        }
                        Ok(rec) => {
                            let name = rec.id().to_object(py);
                            let desc = opt(py, rec.description());
                            out.push(ok_item(py, "jaspar", name, desc, py.None(), py.None(), Some(V::$c(rec.into_matrix())))?);
                        }
                    }
                }
            }};
        }
        macro_rules! uni {
            ($a:ty, $c:ident) => {{
                for r in lightmotif_io::uniprobe::read::<_, $a>(cur) {
                    match r {
                        Err(e) => {
                            out.push(err_item(py, &e));
                            break;
                        }
                        Ok(rec) => {
                            let name = rec.id().to_object(py);
                            out.push(ok_item(py, "uniprobe", name, py.None(), py.None(), py.None(), Some(V::$c(rec.into_matrix())))?);
                        }
                    }
                }
            }};
        }
        macro_rules! tf {
            ($a:ty, $c:ident) => {{
                for r in lightmotif_io::transfac::read::<_, $a>(cur) {
                    match r {
                        Err(e) => {
                            out.push(err_item(py, &e));
                            break;
                        }
                        Ok(rec) => {
                            let name = opt(py, rec.name());
                            let desc = opt(py, rec.description());
                            let id = opt(py, rec.id());
                            let acc = opt(py, rec.accession());
                            out.push(ok_item(py, "transfac", name, desc, id, acc, rec.to_counts().map(V::$c))?);
                        }
                    }
                }
            }};
        }
        match (format, protein) {
            ("jaspar", false) => {
                for r in lightmotif_io::jaspar::read(cur) {
                    match r {
                        Err(e) => {
                            out.push(err_item(py, &e));
                            break;
                        }
                        Ok(rec) => {
                            let name = rec.id().to_object(py);
                            let desc = opt(py, rec.description());
                            let cm: CountMatrix<Dna> = rec.into();
                            out.push(ok_item(py, "jaspar", name, desc, py.None(), py.None(), Some(V::CountD(cm)))?);
                        }
                    }
                }
            }
            ("jaspar16", false) => j16!(Dna, CountD),
            ("jaspar16", true) => j16!(Protein, CountP),
            ("uniprobe", false) => uni!(Dna, FreqD),
            ("uniprobe", true) => uni!(Protein, FreqP),
            ("transfac", false) => tf!(Dna, CountD),
            ("transfac", true) => tf!(Protein, CountP),
            _ => return Err(CoreErr::new_err("format")),
        }
        Ok(out)
    })
}

// ------------------------------------------------------------------ readers over a misbehaving stream

/// A stream that serves at most `chunk` bytes per call and fails on the `fail_at`-th call
/// (1-based) with an `io::Error` of the given kind ("perm" = raw os error 13, "invalid" =
/// InvalidData, anything else = Other); with `sticky` every later call fails as well.
struct FaultyRead {
    data: Vec<u8>,
    pos: usize,
    calls: usize,
    chunk: usize,
    fail_at: usize,
    kind: String,
    sticky: bool,
    /// number of failed calls so far (shared with the driver of the reader)
    fired: std::rc::Rc<std::cell::Cell<usize>>,
}

impl std::io::Read for FaultyRead {
    fn read(&mut self, buf: &mut [u8]) -> std::io::Result<usize> {
        self.calls += 1;
        if self.calls == self.fail_at || (self.sticky && self.calls > self.fail_at) {
            self.fired.set(self.fired.get() + 1);
            return Err(match self.kind.as_str() {
                "perm" => std::io::Error::from_raw_os_error(13),
                "invalid" => std::io::Error::new(std::io::ErrorKind::InvalidData, "too many bytes"),
                _ => std::io::Error::new(std::io::ErrorKind::Other, "read method failed"),
            });
        }
        let n = buf.len().min(self.chunk).min(self.data.len() - self.pos);
        buf[..n].copy_from_slice(&self.data[self.pos..self.pos + n]);
        self.pos += n;
        Ok(n)
    }
}

/// Items of the reader of `format` over a `BufReader` around such a stream: like `read_all`, but
/// the iteration goes on for up to 3 items after the first error, and a panic inside one
/// `next()` is an item ("panic",) of its own.  A marker item ("fired",) follows every item during
/// whose `next()` a call of the stream failed; a leading ("ctorfired",) says that a call failed
/// while the reader was constructed (the JASPAR readers read - and swallow errors - there).
#[pyfunction]
#[allow(clippy::too_many_arguments)]
fn read_faulty(
    py: Python,
    format: &str,
    protein: bool,
    data: &Bound<PyBytes>,
    chunk: usize,
    fail_at: usize,
    kind: &str,
    sticky: bool,
) -> PyResult<Vec<PyObject>> {
    let fired = std::rc::Rc::new(std::cell::Cell::new(0usize));
    let stream = FaultyRead {
        data: data.as_bytes().to_vec(),
        pos: 0,
        calls: 0,
        chunk,
        fail_at,
        kind: kind.to_string(),
        sticky,
        fired: fired.clone(),
    };
    let mut out: Vec<PyObject> = Vec::new();
    let panic_item = |py: Python| PyTuple::new_bound(py, &["panic".to_object(py)]).to_object(py);
    let marker = |py: Python, what: &str| PyTuple::new_bound(py, &[what.to_object(py)]).to_object(py);
    macro_rules! drive {
        ($mk:expr, $conv:expr) => {{
            let made = catch_unwind(AssertUnwindSafe(|| $mk));
            let mut it = match made {
                Ok(it) => it,
                Err(_) => {
                    out.push(panic_item(py));
                    return Ok(out);
                }
            };
            let mut after_error = 0;
            let mut seen_error = false;
            let mut seen_fired = fired.get();
            if seen_fired > 0 {
                out.push(marker(py, "ctorfired"));
            }
            while out.len() < 120 {
                let r = catch_unwind(AssertUnwindSafe(|| it.next()));
                match r {
                    Err(_) => {
                        out.push(panic_item(py));
                        seen_error = true;
                    }
                    Ok(None) => {
                        // the end of the iteration is only an item when a call failed on the way
                        if fired.get() == seen_fired {
                            break;
                        }
                        out.push(marker(py, "stop"));
                    }
                    Ok(Some(Err(e))) => {
                        out.push(err_item(py, &e));
                        seen_error = true;
                    }
                    Ok(Some(Ok(rec))) => {
                        let f = $conv;
                        out.push(f(rec)?);
                    }
                }
                if fired.get() != seen_fired {
                    seen_fired = fired.get();
                    out.push(marker(py, "fired"));
                    seen_error = true;
                }
                if seen_error {
                    after_error += 1;
                    if after_error > 3 {
                        break;
                    }
                }
            }
        }};
    }
    let b = std::io::BufReader::new(stream);
    match (format, protein) {
        ("jaspar", false) => drive!(lightmotif_io::jaspar::read(b), |rec: lightmotif_io::jaspar::Record| {
            let name = rec.id().to_object(py);
            let desc = opt(py, rec.description());
            let cm: CountMatrix<Dna> = rec.into();
            ok_item(py, "jaspar", name, desc, py.None(), py.None(), Some(V::CountD(cm)))
        }),
        ("jaspar16", false) => drive!(lightmotif_io::jaspar16::read::<_, Dna>(b), |rec: lightmotif_io::jaspar16::Record<Dna>| {
            let name = rec.id().to_object(py);
            let desc = opt(py, rec.description());
            ok_item(py, "jaspar", name, desc, py.None(), py.None(), Some(V::CountD(rec.into_matrix())))
        }),
        ("uniprobe", false) => drive!(lightmotif_io::uniprobe::read::<_, Dna>(b), |rec: lightmotif_io::uniprobe::Record<Dna>| {
            let name = rec.id().to_object(py);
            ok_item(py, "uniprobe", name, py.None(), py.None(), py.None(), Some(V::FreqD(rec.into_matrix())))
        }),
        ("transfac", false) => drive!(lightmotif_io::transfac::read::<_, Dna>(b), |rec: lightmotif_io::transfac::Record<Dna>| {
            let name = opt(py, rec.name());
            let desc = opt(py, rec.description());
            let id = opt(py, rec.id());
            let acc = opt(py, rec.accession());
            ok_item(py, "transfac", name, desc, id, acc, rec.to_counts().map(V::CountD))
        }),
        _ => return Err(CoreErr::new_err("format")),
    }
    Ok(out)
}

// ------------------------------------------------------------------ lazy readers over a shared stream

/// An in-memory file shared by several readers (like one Python file object handed to several
/// `load()` calls): every reader has its own `BufReader` and takes what it reads away from the others.
#[pyclass(module = "lmcore", unsendable)]
pub struct Stream {
    inner: std::rc::Rc<std::cell::RefCell<Cursor<Vec<u8>>>>,
}

struct SharedRead(std::rc::Rc<std::cell::RefCell<Cursor<Vec<u8>>>>);

impl std::io::Read for SharedRead {
    fn read(&mut self, buf: &mut [u8]) -> std::io::Result<usize> {
        self.0.borrow_mut().read(buf)
    }
}

type Item = (String, Option<String>, Option<String>, Option<String>, Option<String>, Option<V>);

#[pyclass(module = "lmcore", unsendable)]
pub struct LazyReader {
    it: Box<dyn Iterator<Item = Result<Item, lightmotif_io::error::Error>>>,
}

#[pyfunction]
fn stream(data: &Bound<PyBytes>) -> Stream {
    Stream {
        inner: std::rc::Rc::new(std::cell::RefCell::new(Cursor::new(data.as_bytes().to_vec()))),
    }
}

/// what `lightmotif_io::<format>::read(BufReader::new(stream))` is (the constructor may already read)
#[pyfunction]
fn lazy_reader(st: PyRef<Stream>, format: &str, protein: bool) -> PyResult<LazyReader> {
    let b = std::io::BufReader::new(SharedRead(st.inner.clone()));
    guard("reader constructor", || {
        let it: Box<dyn Iterator<Item = Result<Item, lightmotif_io::error::Error>>> = match (format, protein) {
            ("jaspar", false) => Box::new(lightmotif_io::jaspar::read(b).map(|r| {
                r.map(|rec| {
                    let name = rec.id().to_string();
                    let desc = rec.description().map(String::from);
                    let cm: CountMatrix<Dna> = rec.into();
                    ("jaspar".to_string(), Some(name), desc, None, None, Some(V::CountD(cm)))
                })
            })),
            ("jaspar16", false) => Box::new(lightmotif_io::jaspar16::read::<_, Dna>(b).map(|r| {
                r.map(|rec| {
                    let name = rec.id().to_string();
                    let desc = rec.description().map(String::from);
                    ("jaspar".to_string(), Some(name), desc, None, None, Some(V::CountD(rec.into_matrix())))
                })
            })),
            ("uniprobe", false) => Box::new(lightmotif_io::uniprobe::read::<_, Dna>(b).map(|r| {
                r.map(|rec| {
                    let name = rec.id().to_string();
                    ("uniprobe".to_string(), Some(name), None, None, None, Some(V::FreqD(rec.into_matrix())))
                })
            })),
            ("transfac", false) => Box::new(lightmotif_io::transfac::read::<_, Dna>(b).map(|r| {
                r.map(|rec| {
                    (
                        "transfac".to_string(),
                        rec.name().map(String::from),
                        rec.description().map(String::from),
                        rec.id().map(String::from),
                        rec.accession().map(String::from),
                        rec.to_counts().map(V::CountD),
                    )
                })
            })),
            _ => return Err(CoreErr::new_err("format")),
        };
        Ok(LazyReader { it })
    })
}

/// one `next()` of the reader: None at the end, otherwise an item as in `read_all`
#[pyfunction]
fn lazy_next(py: Python, mut r: PyRefMut<LazyReader>) -> PyResult<Option<PyObject>> {
    let it = &mut r.it;
    guard("reader next", move || match it.next() {
        None => Ok(None),
        Some(Err(e)) => Ok(Some(err_item(py, &e))),
        Some(Ok((kind, name, desc, id, acc, val))) => Ok(Some(ok_item(
            py,
            &kind,
            opt(py, name.as_deref()),
            opt(py, desc.as_deref()),
            opt(py, id.as_deref()),
            opt(py, acc.as_deref()),
            val,
        )?)),
    })
}

// ------------------------------------------------------------------ rendering

#[pyfunction]
fn content(v: PyRef<CoreVal>) -> PyResult<String> {
    guard("content", || {
        Ok(match &v.v {
            // the number of sequences takes part in the equality of count matrices
            V::CountD(m) => format!("cm:D:{}:{}", m.sequence_count(), rows_u32(m.matrix())),
            V::CountP(m) => format!("cm:P:{}:{}", m.sequence_count(), rows_u32(m.matrix())),
            V::FreqD(m) => format!("fm:D:{}", rows_f32(m.matrix())),
            V::FreqP(m) => format!("fm:P:{}", rows_f32(m.matrix())),
            V::WeightD(m) => format!("wm:D:{}:{}", bits(m.background().frequencies()), rows_f32(m.matrix())),
            V::WeightP(m) => format!("wm:P:{}:{}", bits(m.background().frequencies()), rows_f32(m.matrix())),
            V::ScoreD(m) => format!("sm:D:{}:{}", bits(m.background().frequencies()), rows_f32(m.matrix())),
            V::ScoreP(m) => format!("sm:P:{}:{}", bits(m.background().frequencies()), rows_f32(m.matrix())),
            V::SeqD(q, t) => format!("sq:D:{}:{}", q.wrap(), if t.is_empty() { "-" } else { t.as_str() }),
            V::SeqP(q, t) => format!("sq:P:{}:{}", q.wrap(), if t.is_empty() { "-" } else { t.as_str() }),
            V::Scores(s) => {
                let m = s.matrix();
                let cells = (0..m.rows())
                    .map(|i| bits(&m[i][..m.columns()]))
                    .collect::<Vec<_>>()
                    .join("/");
                format!("sc:{}:{}:{}", s.max_index(), m.rows(), if cells.is_empty() { "-".to_string() } else { cells })
            }
        })
    })
}

pub fn init(py: Python, m: &Bound<PyModule>) -> PyResult<()> {
    m.add("CorePanic", py.get_type_bound::<CorePanic>())?;
    m.add("CoreErr", py.get_type_bound::<CoreErr>())?;
    m.add_class::<CoreVal>()?;
    m.add_class::<Stream>()?;
    m.add_class::<LazyReader>()?;
    macro_rules! add {
        ($($f:ident),*) => { $( m.add_function(wrap_pyfunction!($f, m)?)?; )* };
    }
    add!(
        f32bits, f64bits, f32val, f64val, f64_to_f32bits, symbols, count_new, count_from_seqs, to_freq,
        to_weight, bg_new, bg_uniform, weight_bg, rescale, to_scoring_base, to_scoring, scoring_new,
        revcomp, max_score, motif_len, stripe, configure, wrap_of, score, score_positions, scores_len,
        scores_list, scores_max, scores_argmax, scores_threshold, dist_pvalue, dist_score, tfm_pvalue,
        tfm_score, scan_all, read_all, content, dist_sf, core_eq, read_faulty, stream, lazy_reader, lazy_next
    );
    Ok(())
}
