"""Python-value notation shared by the C17 generator and worker (and parsed again by
ocaml/pyglue/driver.ml).  One value is a self-delimiting string without spaces,
':' ';' '=' '|' or '~':

  N None | T True | F False | O object() | i<int>. | f<u64 bits of the float>. |
  s<hex utf-8>. str | y<hex>. bytes | V<slot>. object created earlier in the history |
  R<k>. the float returned by op number k of the history (pvalue / score results) |
  L(<v>*) list | U(<v>*) tuple | G(<v>*) generator object yielding the items | D(<k><v> ...) dict

The abstract syntax is a tuple: ('N',) ('T',) ('F',) ('O',) ('i', n) ('f', bits)
('s', text) ('y', data) ('V', slot) ('L', [..]) ('U', [..]) ('D', [(k, v), ..]).
"""
import struct


def parse(s, i=0):
    c = s[i]
    if c in "NTFO":
        return (c,), i + 1
    if c in "ifsyVR":
        j = s.index(".", i)
        body = s[i + 1:j]
        if c == "i":
            return ("i", int(body)), j + 1
        if c == "f":
            return ("f", int(body)), j + 1
        if c == "s":
            return ("s", bytes.fromhex(body).decode("utf-8")), j + 1
        if c == "y":
            return ("y", bytes.fromhex(body)), j + 1
        if c == "R":
            return ("R", int(body)), j + 1
        return ("V", int(body)), j + 1
    if c in "LUDG":
        assert s[i + 1] == "("
        i += 2
        items = []
        while s[i] != ")":
            v, i = parse(s, i)
            items.append(v)
        i += 1
        if c == "D":
            assert len(items) % 2 == 0
            return ("D", [(items[k], items[k + 1]) for k in range(0, len(items), 2)]), i
        return (c, items), i
    raise ValueError("bad value notation at %d in %r" % (i, s))


def parse_all(s):
    v, i = parse(s, 0)
    if i != len(s):
        raise ValueError("trailing text in %r" % s)
    return v


def show(v):
    t = v[0]
    if t in "NTFO":
        return t
    if t == "i":
        return "i%d." % v[1]
    if t == "f":
        return "f%d." % v[1]
    if t == "s":
        return "s%s." % v[1].encode("utf-8").hex()
    if t == "y":
        return "y%s." % bytes(v[1]).hex()
    if t == "V":
        return "V%d." % v[1]
    if t == "R":
        return "R%d." % v[1]
    if t in "LUG":
        return "%s(%s)" % (t, "".join(show(x) for x in v[1]))
    if t == "D":
        return "D(%s)" % "".join(show(k) + show(x) for k, x in v[1])
    raise ValueError(v)


def f64bits(x):
    return struct.unpack("<Q", struct.pack("<d", x))[0]


def f64val(b):
    return struct.unpack("<d", struct.pack("<Q", b))[0]


def f32bits_exact(x):
    """bits of an f32-representable float"""
    return struct.unpack("<I", struct.pack("<f", x))[0]


def f32val(b):
    return struct.unpack("<f", struct.pack("<I", b))[0]


def F(x):
    """float -> ('f', bits)"""
    return ("f", f64bits(float(x)))


def F32(b):
    """f32 bit pattern -> float value node (exactly representable)"""
    return ("f", f64bits(f32val(b)))


def S(text):
    return ("s", text)


def I(n):
    return ("i", int(n))


def to_py(v, slots):
    """Build the Python object denoted by v (slots: slot -> object)."""
    t = v[0]
    if t == "N":
        return None
    if t == "T":
        return True
    if t == "F":
        return False
    if t == "O":
        return object()
    if t == "i":
        return v[1]
    if t == "f":
        return f64val(v[1])
    if t == "s":
        return v[1]
    if t == "y":
        return bytes(v[1])
    if t == "V":
        return slots[v[1]]
    if t == "L":
        return [to_py(x, slots) for x in v[1]]
    if t == "U":
        return tuple(to_py(x, slots) for x in v[1])
    if t == "G":
        items = [to_py(x, slots) for x in v[1]]
        return (x for x in items)
    if t == "D":
        return {to_py(k, slots): to_py(x, slots) for k, x in v[1]}
    raise ValueError(v)


def refs(v):
    t = v[0]
    if t == "V":
        return [v[1]]
    if t in "LUG":
        return [r for x in v[1] for r in refs(x)]
    if t == "D":
        return [r for k, x in v[1] for r in refs(k) + refs(x)]
    return []
