"""C17 worker: interprets API histories against `lightmotif` (the Python module built
from the repository's working tree) and, for the same data, against the core Rust
library through `lmcore`; prints one observation line per case.

Input line :  <id> h=<op>;<op>;...
Output line:  <input line> => abc=<dna symbols>/<protein symbols> o0=<outcome> o1=... or=<core call>|<result> ...

Ops (fields separated by ':'; <v> is a value in the notation of c17_pv.py, '-' = argument
omitted; <slot> a decimal slot number):
  cm:<dst>:<values v>:<protein v|->        CountMatrix(values, protein=...)
  nz:<dst>:<cm slot>:<pseudocount v|->     cm.normalize(pseudocount)
  lo:<dst>:<wm slot>:<background v|->:<base v|->   wm.log_odds(background, base)
  sm:<dst>:<values v>:<background v|->:<protein v|->   ScoringMatrix(values, background, protein=...)
  st:<dst>:<sequence v>:<protein v|->      stripe(sequence, protein=...)
  ca:<dst>:<sm slot>:<sequence v>          sm.calculate(sequence)     (sequence usually V<slot>.)
  th:<sc slot>:<threshold v>  mx:<sc slot>  am:<sc slot>     scores.threshold/max/argmax
  pv:<sm slot>:<score v>:<method v|->      sm.pvalue(score, method)
  sv:<sm slot>:<pvalue v>:<method v|->     sm.score(pvalue, method)
  ms:<sm slot>                             sm.max_score()
  rc:<dst>:<sm slot>                       sm.reverse_complement()
  sn:<dst>:<pssm v>:<sequence v>:<threshold v|->:<block_size v|->   scan(pssm, sequence, threshold=, block_size=)
  sc:...                                   same through the class: Scanner(pssm, sequence, threshold=, block_size=)
  nx:<scanner slot>:<k|*>                  up to k (or all) further hits from the scanner
  cr:<dst>:<sequences v>:<protein v|->:<name v|->   create(sequences, protein=, name=)
  gm:<dst>:<motif slot>:<c|w|s>            motif.counts / .pwm / .pssm
  ld:<dst>:<mode>:<data hex>:<format v|->:<protein v|->   list(load(file, format, protein=)); mode: p path (pb as bytes, pP as pathlib.Path),
        q missing path, b BytesIO, r<k> read() returns at most k bytes, o read() returns one byte too many,
        t read() returns str, e read() raises OSError, x object without read()
  lc:...                                   same as ld through the class: list(Loader(file, format, protein=...))
  gl:<dst>:<loaded slot>:<index>:<c|w|s>   matrices of the index-th loaded motif
  es:<dst>:<sequence v>:<protein v|->      EncodedSequence(sequence, protein)   (protein positional)
  et:<dst>:<es slot>                       encoded.stripe()
  cp:<dst>:<slot>:<m|c>                    obj.copy() (m; only EncodedSequence / StripedSequence have it) or copy.copy(obj) (c)
  eq:<slot>:<other v>                      obj == other  (CountMatrix / WeightMatrix / ScoringMatrix)
  sr:<es slot>                             str(encoded)
  sd:<dst>:<sm slot>                       sm.score_distribution (digest of the survival function; `same`: two accesses give
                                           one object; `shared`: the object is also the distribution of another live matrix)
  fo:<dst>:<data hex>                      io.BytesIO(data): one file object that several loaders may share
  ll:<dst>:<file slot>:<format v|->:<protein v|->   Loader(file, format, protein=...) - lazy, nothing is iterated
  ln:<loader slot>:<k>                     up to k next() calls (stops at StopIteration or at an exception)
  mt:<sm slot>:<n>:<r|s|f>                 r: n threads, each with its own sequence, share the scoring matrix read-only
                                           (calculate, max, argmax, threshold, pvalue); outcome `mt:ok` when every thread
                                           got what the same calls give sequentially.  s: n threads calculate on ONE shared
                                           sequence: sequential result or the documented RuntimeError (already borrowed).
                                           f: the first p-value of the matrix is asked while another thread is inside
                                           calculate() on it (GIL released there): no exception
  dl:<slot>                                the history drops its (last) reference to the object: del, gc.collect(), then
                                           allocation churn (new matrices / sequences of the same size, kept alive) so
                                           that freed memory is reused while scanners / scores derived from it live on
  further file modes of ld / lc (real files on disk, used before load() sees them; the loader must go on from
  the current position): fb<k> open(path,"rb") after read(k), fu<k> the same unbuffered (FileIO), fk<k> after
  seek(k), fn<n> after n readline() calls, fe after read() to the end, fz<k> gzip.open(path,"rb") after read(k),
  fx text-mode file (read() returns str)
  X<w><k>c<n>: a file object serving at most n bytes per read() whose k-th read() call (k >= 2; the first call is
  load()'s read(0) probe) misbehaves: w = k raises KeyError, p raises PermissionError(13), o raises OSError without
  errno, s returns str, n returns None, m returns 5 bytes too many, c closes the underlying file (every later read
  fails); the iteration then goes on for up to 3 more next() calls after the first exception

Outcomes: V:<visible content> | E:<exception type name> | P (PanicException) | U (slot unbound / wrong use,
nothing was called).  A crash of the interpreter is reported by the supervisor (c17_main.py) as A:<signal>.
"""
import copy
import gc
import gzip
import io
import os
import pathlib
import sys
import tempfile

import lightmotif
import lmcore
import c17_pv as PV

SYMS = {False: lmcore.symbols(False), True: lmcore.symbols(True)}
TWO = 1073741824  # bits of 2.0f32


def hx(s):
    return "N" if s is None else "s" + s.encode("utf-8", "surrogatepass").hex()


def tag(protein):
    return "P" if protein else "D"


# ------------------------------------------------------------ rendering of Python results

def rows_u32(m):
    n = len(m)
    if n == 0:
        return "-"
    return "/".join(",".join(str(int(x)) for x in m[i]) for i in range(n))


def rows_f32(m):
    n = len(m)
    if n == 0:
        return "-"
    return "/".join(",".join(str(lmcore.f32bits(x)) for x in m[i]) for i in range(n))


def render(obj):
    if isinstance(obj, lightmotif.CountMatrix):
        return "cm:%s:%s" % (tag(obj.protein), rows_u32(obj))
    if isinstance(obj, lightmotif.WeightMatrix):
        return "wm:%s:%s" % (tag(obj.protein), rows_f32(obj))
    if isinstance(obj, lightmotif.ScoringMatrix):
        return "sm:%s:%s" % (tag(obj.protein), rows_f32(obj))
    if isinstance(obj, lightmotif.StripedSequence):
        return "sq:%s" % tag(obj.protein)
    if isinstance(obj, lightmotif.StripedScores):
        n = len(obj)
        return "sc:%d:%s" % (n, ",".join(str(lmcore.f32bits(obj[i])) for i in range(n)) or "-")
    if isinstance(obj, lightmotif.Scanner):
        return "scanner"
    if isinstance(obj, lightmotif.EncodedSequence):
        return "es:%s:%s" % (tag(obj.protein), str(obj).encode("utf-8").hex() or "-")
    if isinstance(obj, lightmotif.Motif):
        extra = ""
        if isinstance(obj, lightmotif.JasparMotif):
            extra = "+jaspar+%s+N+N" % hx(obj.description)
        elif isinstance(obj, lightmotif.TransfacMotif):
            extra = "+transfac+%s+%s+%s" % (hx(obj.description), hx(obj.id), hx(obj.accession))
        elif isinstance(obj, lightmotif.UniprobeMotif):
            extra = "+uniprobe+N+N+N"
        else:
            extra = "+motif+N+N+N"
        return "mo+%s+%s+%s+%s+%s%s" % (
            tag(obj.protein), hx(obj.name), "N" if obj.counts is None else render(obj.counts),
            render(obj.pwm), render(obj.pssm), extra)
    raise TypeError("cannot render %r" % (obj,))


def exc_outcome(e):
    name = type(e).__name__
    if name == "PanicException":
        return "P"
    return "E:" + name


class Unbound(Exception):
    pass


# ------------------------------------------------------------ shadow (core) side helpers

def f32b(v):
    """f32 bits the glue would extract from value node v (float/int/bool), or None."""
    if v[0] == "f":
        return lmcore.f64_to_f32bits(v[1])
    if v[0] == "i" and abs(v[1]) < 2 ** 1024 - 2 ** 970:   # float(int): OverflowError from there on
        return lmcore.f32bits(float(v[1]))
    if v[0] in "TF":
        return lmcore.f32bits(1.0 if v[0] == "T" else 0.0)
    return None


def f64b(v):
    if v[0] == "f":
        return v[1]
    if v[0] == "i" and abs(v[1]) < 2 ** 1024 - 2 ** 970:
        return lmcore.f64bits(float(v[1]))
    if v[0] in "TF":
        return lmcore.f64bits(1.0 if v[0] == "T" else 0.0)
    return None


def boolv(v, default=False):
    if v is None:
        return default
    if v[0] == "T":
        return True
    if v[0] == "F":
        return False
    return None


def dict_array(v, protein):
    """alphabet array (f32 bits) the glue builds from a dict node, or None when invalid"""
    if v[0] != "D":
        return None
    syms = SYMS[protein]
    arr = [0] * len(syms)
    for k, x in v[1]:
        if k[0] != "s" or len(k[1].encode("utf-8", "surrogatepass")) != 1 or k[1] not in syms:
            return None
        b = f32b(x)
        if b is None:
            return None
        arr[syms.index(k[1])] = b
    return arr


def items_of(v, need_len=False):
    if v[0] in "LU" or (v[0] == "G" and not need_len):
        return list(v[1])
    if v[0] == "s":
        return [("s", c) for c in v[1]]
    if v[0] == "y":
        return [("i", c) for c in v[1]]
    if v[0] == "D":
        return [k for k, _ in v[1]]
    return None


def u32v(v):
    if v[0] == "i" and 0 <= v[1] <= 0xFFFFFFFF:
        return v[1]
    if v[0] in "TF":
        return 1 if v[0] == "T" else 0
    return None


def columns_matrix(v, protein, conv):
    """rows (lists of ints) the glue builds from a dict of columns, or None when invalid"""
    if v[0] != "D":
        return None
    syms = SYMS[protein]
    d = {}
    for k, x in v[1]:
        if k[0] == "s":
            d[k[1]] = x
    rows = None
    for j, c in enumerate(syms):
        if c in d:
            items = items_of(d[c], need_len=True)     # a column must have len(): no generators
            if items is None:
                return None
            if rows is None:
                rows = [[0] * len(syms) for _ in items]
            if len(rows) != len(items):
                return None
            for i, x in enumerate(items):
                b = conv(x)
                if b is None:
                    return None
                rows[i][j] = b
    return rows


def rows_txt(rows):
    return "/".join(",".join(str(x) for x in r) for r in rows) or "-"


def bits_txt(xs):
    return ",".join(str(x) for x in xs)


class Case:
    def __init__(self):
        self.slots = {}     # slot -> python object
        self.shadow = {}    # slot -> shadow (CoreVal, or dict for motifs/scanners/loaded lists)
        self.oracle = {}    # call -> result (insertion ordered)
        self.results = {}   # op index -> f64 bits of a float result
        self.churn = []     # objects allocated after deletions, kept alive to occupy freed memory
        self.live = {}      # id(StripedSequence object) -> its shadow as reconfigured so far (what a scanner on it sees)

    # -- oracle ----------------------------------------------------------------
    def core(self, call, fn, ren):
        """Run a core operation, record `call -> rendered result`, return the value or None."""
        try:
            r = fn()
        except lmcore.CorePanic:
            self.oracle[call] = "P"
            return None
        except lmcore.CoreErr:
            self.oracle[call] = "E"
            return None
        self.oracle[call] = ren(r)
        return r

    def cv(self, call, fn):
        return self.core(call, fn, lmcore.content)

    def get(self, slot):
        if slot not in self.slots:
            raise Unbound()
        return self.slots[slot]

    def recv(self, slot, cls):
        o = self.get(slot)
        if not isinstance(o, cls):
            raise Unbound()
        return o

    def resolve(self, v):
        """replace R<k> nodes by the float returned by op k"""
        t = v[0]
        if t == "R":
            if v[1] not in self.results:
                raise Unbound()
            return ("f", self.results[v[1]])
        if t in "LUG":
            return (t, [self.resolve(x) for x in v[1]])
        if t == "D":
            return ("D", [(self.resolve(k), self.resolve(x)) for k, x in v[1]])
        return v

    def val(self, v):
        for r in PV.refs(v):
            if r not in self.slots:
                raise Unbound()
        return PV.to_py(v, self.slots)

    # -- shadow chains ---------------------------------------------------------
    def sh_motif_from_counts(self, cm):
        """counts -> (weights, scoring) as Motif::from_counts / create do"""
        c = lmcore.content
        fm = self.cv("to_freq~%s~S0" % c(cm), lambda: lmcore.to_freq(cm, "S", [0]))
        if fm is None:
            return None
        return self.sh_motif_from_freq(fm)

    def sh_motif_from_freq(self, fm):
        c = lmcore.content
        wm = self.cv("to_weight~%s" % c(fm), lambda: lmcore.to_weight(fm))
        if wm is None:
            return None
        sm = self.cv("to_scoring_base~%s~%d" % (c(wm), TWO), lambda: lmcore.to_scoring_base(wm, TWO))
        if sm is None:
            return None
        return wm, sm

    def sh_configure_score(self, sm, q, also_fresh=True):
        """configure + score on the shadow sequence; returns (q', scores)"""
        c = lmcore.content
        q2 = self.cv("configure~%s~%s" % (c(q), c(sm)), lambda: lmcore.configure(q, sm))
        if q2 is None:
            return None, None
        sc = self.cv("score~%s~%s" % (c(sm), c(q2)), lambda: lmcore.score(sm, q2))
        return q2, sc

    def sh_fresh(self, q):
        """the freshly striped sequence with the same text (for the history-free spec)"""
        cont = lmcore.content(q)
        _, t, _, text = cont.split(":", 3)
        text = "" if text == "-" else text
        protein = t == "P"
        call = "stripe~%s~%s" % (t, text.encode().hex() or "-")
        return self.cv(call, lambda: lmcore.stripe(protein, text, 0))


def run_op(cs, op):
    f = op.split(":")
    name = f[0]
    c = lmcore.content

    def arg(i):
        return None if f[i] == "-" else cs.resolve(PV.parse_all(f[i]))

    if name == "cm":
        dst, values, protein = int(f[1]), arg(2), arg(3)
        cs.slots.pop(dst, None)
        cs.shadow.pop(dst, None)
        # shadow first (does not depend on the Python call)
        p = boolv(protein)
        if p is not None and values is not None:
            rows = columns_matrix(values, p, u32v)
            if rows is not None:
                sh = cs.cv("count_new~%s~%s" % (tag(p), rows_txt(rows)), lambda: lmcore.count_new(p, rows))
                if sh is not None:
                    cs.shadow[dst] = sh
        kw = {} if protein is None else {"protein": cs.val(protein)}
        obj = lightmotif.CountMatrix(cs.val(values), **kw)
        cs.slots[dst] = obj
        return "V:" + render(obj)

    if name == "nz":
        dst, src, pc = int(f[1]), int(f[2]), arg(3)
        cs.slots.pop(dst, None)
        cs.shadow.pop(dst, None)
        me = cs.recv(src, lightmotif.CountMatrix)
        sh = cs.shadow.get(src)
        if sh is not None:
            protein = c(sh).split(":")[1] == "P"
            key = None
            if pc is None or pc[0] == "N":
                key = ("S", [0])
            elif f32b(pc) is not None:
                key = ("S", [f32b(pc)])
            elif pc[0] == "D":
                arr = dict_array(pc, protein)
                if arr is not None:
                    key = ("A", arr)
            if key is not None:
                fm = cs.cv("to_freq~%s~%s%s" % (c(sh), key[0], bits_txt(key[1])), lambda: lmcore.to_freq(sh, key[0], key[1]))
                if fm is not None:
                    wm = cs.cv("to_weight~%s" % c(fm), lambda: lmcore.to_weight(fm))
                    if wm is not None:
                        cs.shadow[dst] = wm
        obj = me.normalize() if pc is None else me.normalize(cs.val(pc))
        cs.slots[dst] = obj
        return "V:" + render(obj)

    if name == "lo":
        dst, src, bg, base = int(f[1]), int(f[2]), arg(3), arg(4)
        cs.slots.pop(dst, None)
        cs.shadow.pop(dst, None)
        me = cs.recv(src, lightmotif.WeightMatrix)
        sh = cs.shadow.get(src)
        if sh is not None:
            t = c(sh).split(":")[1]
            protein = t == "P"
            bgarr = None
            if bg is None or bg[0] == "N":
                bgarr = lmcore.bg_uniform(protein)
                cs.oracle["bg_uniform~%s" % t] = bits_txt(bgarr)
            elif bg[0] == "D":
                arr = dict_array(bg, protein)
                if arr is not None:
                    bgarr = cs.core("bg_new~%s~%s" % (t, bits_txt(arr)), lambda: lmcore.bg_new(protein, arr), bits_txt)
            b = TWO if base is None else f32b(base)
            if bgarr is not None and b is not None:
                cs.oracle["weight_bg~%s" % c(sh)] = bits_txt(lmcore.weight_bg(sh))
                w2 = sh
                if list(bgarr) != list(lmcore.weight_bg(sh)):
                    w2 = cs.cv("rescale~%s~%s" % (c(sh), bits_txt(bgarr)), lambda: lmcore.rescale(sh, bgarr))
                if w2 is not None:
                    sm = cs.cv("to_scoring_base~%s~%d" % (c(w2), b), lambda: lmcore.to_scoring_base(w2, b))
                    if sm is not None:
                        cs.shadow[dst] = sm
        args = [] if bg is None else [cs.val(bg)]
        kw = {} if base is None else {"base": cs.val(base)}
        obj = me.log_odds(*args, **kw)
        cs.slots[dst] = obj
        return "V:" + render(obj)

    if name == "sm":
        dst, values, bg, protein = int(f[1]), arg(2), arg(3), arg(4)
        cs.slots.pop(dst, None)
        cs.shadow.pop(dst, None)
        p = boolv(protein)
        if p is not None and values is not None:
            t = tag(p)
            bgarr = None
            bgkey = None
            if bg is None or bg[0] == "N":
                uni = lmcore.bg_uniform(p)
                cs.oracle["bg_uniform~%s" % t] = bits_txt(uni)
                bgarr, bgkey = "U", bits_txt(uni)
            elif bg[0] == "D":
                arr = dict_array(bg, p)
                if arr is not None:
                    r = cs.core("bg_new~%s~%s" % (t, bits_txt(arr)), lambda: lmcore.bg_new(p, arr), bits_txt)
                    if r is not None:
                        bgarr, bgkey = arr, bits_txt(arr)
            if bgarr is not None:
                ok = values[0] == "D" and all(k[0] != "s" or k[1] not in SYMS[p] or x[0] == "L" for k, x in values[1])
                rows = columns_matrix(values, p, f32b) if ok else None
                if rows is not None:
                    sh = cs.cv("scoring_new~%s~%s~%s" % (t, bgkey, rows_txt(rows)),
                               lambda: lmcore.scoring_new(p, None if bgarr == "U" else bgarr, rows))
                    if sh is not None:
                        cs.shadow[dst] = sh
        args = [cs.val(values)] + ([] if bg is None else [cs.val(bg)])
        kw = {} if protein is None else {"protein": cs.val(protein)}
        obj = lightmotif.ScoringMatrix(*args, **kw)
        cs.slots[dst] = obj
        return "V:" + render(obj)

    if name == "st":
        dst, seq, protein = int(f[1]), arg(2), arg(3)
        cs.slots.pop(dst, None)
        cs.shadow.pop(dst, None)
        p = boolv(protein)
        if p is not None and seq is not None and seq[0] == "s":
            try:
                text = seq[1].encode("utf-8")
            except UnicodeEncodeError:
                text = None
            if text is not None:
                sh = cs.cv("stripe~%s~%s" % (tag(p), text.hex() or "-"), lambda: lmcore.stripe(p, seq[1], 0))
                if sh is not None:
                    cs.shadow[dst] = sh
        kw = {} if protein is None else {"protein": cs.val(protein)}
        obj = lightmotif.stripe(cs.val(seq), **kw)
        cs.slots[dst] = obj
        return "V:" + render(obj)

    if name == "ca":
        dst, src, seq = int(f[1]), int(f[2]), arg(3)
        cs.slots.pop(dst, None)
        cs.shadow.pop(dst, None)
        me = cs.recv(src, lightmotif.ScoringMatrix)
        sm = cs.shadow.get(src)
        if sm is not None and seq[0] == "V" and cs.shadow.get(seq[1]) is not None and c(cs.shadow[seq[1]]).startswith("sq:"):
            q = cs.shadow[seq[1]]
            if c(q).split(":")[1] == c(sm).split(":")[1]:
                q2, sc = cs.sh_configure_score(sm, q)
                if q2 is not None:
                    cs.shadow[seq[1]] = q2
                    cs.live[id(cs.slots[seq[1]])] = q2
                if sc is not None:
                    cs.shadow[dst] = sc
                qf = cs.sh_fresh(q)
                if qf is not None:
                    cs.sh_configure_score(sm, qf)
        obj = me.calculate(cs.val(seq))
        cs.slots[dst] = obj
        return "V:" + render(obj)

    if name in ("th", "mx", "am"):
        src = int(f[1])
        me = cs.recv(src, lightmotif.StripedScores)
        sh = cs.shadow.get(src)
        if name == "th":
            t = arg(2)
            if sh is not None and f32b(t) is not None:
                cs.core("threshold~%s~%d" % (c(sh), f32b(t)), lambda: lmcore.scores_threshold(sh, f32b(t)),
                        lambda r: "li:" + (bits_txt(r) or "-"))
            r = me.threshold(cs.val(t))
            return "V:li:" + (bits_txt(r) or "-")
        if name == "mx":
            if sh is not None:
                cs.core("max~%s" % c(sh), lambda: lmcore.scores_max(sh), lambda r: "fo:none" if r is None else "fo:%d" % r)
            r = me.max()
            return "V:fo:none" if r is None else "V:fo:%d" % lmcore.f32bits(r)
        if sh is not None:
            cs.core("argmax~%s" % c(sh), lambda: lmcore.scores_argmax(sh), lambda r: "io:none" if r is None else "io:%d" % r)
        r = me.argmax()
        return "V:io:none" if r is None else "V:io:%d" % r

    if name in ("pv", "sv"):
        src, x, method = int(f[1]), arg(2), arg(3)
        me = cs.recv(src, lightmotif.ScoringMatrix)
        sh = cs.shadow.get(src)
        xb = f64b(x)
        if sh is not None and xb is not None and (method is None or method[0] == "s"):
            m = "meme" if method is None else method[1]
            if name == "pv" and m == "meme":
                sb = lmcore.f64_to_f32bits(xb)
                cs.core("dist_pvalue~%s~%d" % (c(sh), sb), lambda: lmcore.dist_pvalue(sh, sb), lambda r: "d:%d" % r)
            elif name == "pv" and m == "tfmpvalue":
                cs.core("tfm_pvalue~%s~%d" % (c(sh), xb), lambda: lmcore.tfm_pvalue(sh, xb), lambda r: "d:%d" % r)
            elif name == "sv" and m == "meme":
                cs.core("dist_score~%s~%d" % (c(sh), xb), lambda: lmcore.dist_score(sh, xb), lambda r: "fo:%d" % r)
            elif name == "sv" and m == "tfmpvalue":
                cs.core("tfm_score~%s~%d" % (c(sh), xb), lambda: lmcore.tfm_score(sh, xb), lambda r: "d:%d" % r)
        fn = me.pvalue if name == "pv" else me.score
        r = fn(cs.val(x)) if method is None else fn(cs.val(x), cs.val(method))
        return "V:d:%d" % lmcore.f64bits(r)

    if name == "ms":
        src = int(f[1])
        me = cs.recv(src, lightmotif.ScoringMatrix)
        sh = cs.shadow.get(src)
        if sh is not None:
            cs.core("max_score~%s" % c(sh), lambda: lmcore.max_score(sh), lambda r: "fo:%d" % r)
        return "V:fo:%d" % lmcore.f32bits(me.max_score())

    if name == "rc":
        dst, src = int(f[1]), int(f[2])
        cs.slots.pop(dst, None)
        cs.shadow.pop(dst, None)
        me = cs.recv(src, lightmotif.ScoringMatrix)
        sh = cs.shadow.get(src)
        if sh is not None and c(sh).split(":")[1] == "D":
            r = cs.cv("revcomp~%s" % c(sh), lambda: lmcore.revcomp(sh))
            if r is not None:
                cs.shadow[dst] = r
        obj = me.reverse_complement()
        cs.slots[dst] = obj
        return "V:" + render(obj)

    if name in ("sn", "sc"):
        dst, pssm, seq, thr, bs = int(f[1]), arg(2), arg(3), arg(4), arg(5)
        cs.slots.pop(dst, None)
        cs.shadow.pop(dst, None)
        tb = 0 if thr is None else f32b(thr)
        b = 256 if bs is None else (bs[1] if bs[0] == "i" else (1 if bs[0] == "T" else (0 if bs[0] == "F" else None)))
        if (pssm[0] == "V" and seq[0] == "V" and tb is not None and b is not None and 0 < b < 2 ** 64
                and cs.shadow.get(pssm[1]) is not None and cs.shadow.get(seq[1]) is not None):
            sm, q = cs.shadow[pssm[1]], cs.shadow[seq[1]]
            if c(sm).startswith("sm:D:") and c(q).startswith("sq:D:"):
                q2 = cs.cv("configure~%s~%s" % (c(q), c(sm)), lambda: lmcore.configure(q, sm))
                if q2 is not None:
                    cs.shadow[seq[1]] = q2
                    pyseq = cs.slots[seq[1]]
                    cs.live[id(pyseq)] = q2
                    ren = lambda r: "h:" + ("/".join("%d,%d" % h for h in r) or "-")
                    hits = cs.core("scan_all~%s~%s~%d~%d" % (c(sm), c(q2), tb, b), lambda: lmcore.scan_all(sm, q2, tb, b), ren)
                    if hits is not None:
                        # the scanner refers to the sequence *object*: whatever reconfigures that object later
                        # (under any name) is seen by the scanner (lazy reading of the model, run_call_lazy)
                        cs.shadow[dst] = {"hits": list(hits), "live": (pyseq, sm, tb, b)}
                    qf = cs.sh_fresh(q)
                    if qf is not None:
                        qf2 = cs.cv("configure~%s~%s" % (c(qf), c(sm)), lambda: lmcore.configure(qf, sm))
                        if qf2 is not None:
                            cs.core("scan_all~%s~%s~%d~%d" % (c(sm), c(qf2), tb, b), lambda: lmcore.scan_all(sm, qf2, tb, b), ren)
        kw = {}
        if thr is not None:
            kw["threshold"] = cs.val(thr)
        if bs is not None:
            kw["block_size"] = cs.val(bs)
        obj = (lightmotif.scan if name == "sn" else lightmotif.Scanner)(cs.val(pssm), cs.val(seq), **kw)
        cs.slots[dst] = obj
        return "V:scanner"

    if name == "nx":
        src = int(f[1])
        me = cs.get(src)
        if not isinstance(me, lightmotif.Scanner):
            raise Unbound()
        k = None if f[2] == "*" else int(f[2])
        sh = cs.shadow.get(src)
        if isinstance(sh, dict) and "live" in sh:
            # the core scan over the sequence object as it is now
            pyseq, sm, tb, b = sh["live"]
            q = cs.live.get(id(pyseq))
            if q is not None:
                key = "scan_all~%s~%s~%d~%d" % (c(sm), c(q), tb, b)
                if key not in cs.oracle:
                    cs.core(key, lambda: lmcore.scan_all(sm, q, tb, b),
                            lambda r: "h:" + ("/".join("%d,%d" % h for h in r) or "-"))
        hits = []
        end = 0
        while k is None or len(hits) < k:
            try:
                h = next(me)
            except StopIteration:
                end = 1
                break
            hits.append("%d,%d" % (h.position, lmcore.f32bits(h.score)))
            if len(hits) > 200000:
                return "E:Runaway"
        return "V:h:%s:%d" % ("/".join(hits) or "-", end)

    if name == "cr":
        dst, seqs, protein, nm = int(f[1]), arg(2), arg(3), arg(4)
        cs.slots.pop(dst, None)
        cs.shadow.pop(dst, None)
        p = boolv(protein)
        if p is not None and (nm is None or nm[0] in "Ns"):
            items = items_of(seqs)
            if items is not None:
                texts, allok = [], True
                for x in items:
                    if x[0] != "s":
                        allok = False
                        break
                    try:
                        t = x[1].encode("utf-8")
                    except UnicodeEncodeError:
                        allok = False
                        break
                    r = cs.core("encode~%s~%s" % (tag(p), t.hex() or "-"), lambda: lmcore.stripe(p, x[1], 0), lambda r: "ok")
                    if r is None:
                        allok = False
                        break
                    texts.append(t)
                if allok:
                    call = "from_seqs~%s~%s" % (tag(p), ",".join(t.hex() or "-" for t in texts) or "none")
                    cm = cs.cv(call, lambda: lmcore.count_from_seqs(p, [x[1] for x in items]))
                    if cm is not None:
                        r = cs.sh_motif_from_counts(cm)
                        if r is not None:
                            cs.shadow[dst] = {"c": cm, "w": r[0], "s": r[1]}
        kw = {}
        if protein is not None:
            kw["protein"] = cs.val(protein)
        if nm is not None:
            kw["name"] = cs.val(nm)
        obj = lightmotif.create(cs.val(seqs), **kw)
        cs.slots[dst] = obj
        return "V:" + render(obj)

    if name == "gm":
        dst, src, which = int(f[1]), int(f[2]), f[3]
        cs.slots.pop(dst, None)
        cs.shadow.pop(dst, None)
        me = cs.get(src)
        if not isinstance(me, lightmotif.Motif):
            raise Unbound()
        obj = {"c": me.counts, "w": me.pwm, "s": me.pssm}[which]
        if obj is None:
            raise Unbound()
        sh = cs.shadow.get(src)
        if isinstance(sh, dict) and sh.get(which) is not None:
            cs.shadow[dst] = sh[which]
        cs.slots[dst] = obj
        return "V:" + render(obj)

    if name in ("ld", "lc"):
        dst, mode, data, fmt, protein = int(f[1]), f[2], bytes.fromhex(f[3] if f[3] != "-" else ""), arg(4), arg(5)
        cs.slots.pop(dst, None)
        cs.shadow.pop(dst, None)
        p = boolv(protein)
        fm = "jaspar" if fmt is None else (fmt[1] if fmt[0] == "s" else None)
        faulty = None
        if mode[0] == "X":
            w, rest = mode[1], mode[2:]
            kth, chunk = (int(x) for x in rest.split("c"))
            faulty = (w, kth, chunk)
        # the stream the core reader gets for a misbehaving file object: (chunk, failing call, kind, sticky)
        core_fault = None
        if faulty is not None:
            core_fault = (faulty[2], faulty[1] - 1, {"p": "perm", "m": "invalid"}.get(faulty[0], "other"), faulty[0] == "c")
        elif mode == "o":
            core_fault = (8192, 1, "invalid", True)     # every read() after the read(0) probe returns too much
        good = mode in ("p", "b", "pb", "pP") or mode[0] == "r" or (mode[0] == "f" and mode != "fx") or core_fault is not None
        full = data
        if mode == "r0" or mode == "fe":
            data = b""
        elif mode[0] == "f" and mode[1] in "buzk":
            data = data[int(mode[2:]):]
        elif mode[0] == "f" and mode[1] == "n":
            for _ in range(int(mode[2:])):
                i = data.find(b"\n")
                data = b"" if i < 0 else data[i + 1:]
        if p is not None and fm in ("jaspar", "jaspar16", "uniprobe", "transfac") and not (fm == "jaspar" and p) and good:
            shadows = []

            def ren(items):
                out = []
                for it in items:
                    if it[0] == "err":
                        out.append("err+" + it[1])
                    else:
                        out.append("ok+%s+%s+%s+%s+%s+%s" % (it[1], hx(it[2]), hx(it[3]), hx(it[4]), hx(it[5]),
                                                         "N" if it[6] is None else c(it[6])))
                return "&".join(out) or "none"
            def ren_item(it):
                return "panic" if it[0] == "panic" else None
            if core_fault is not None:
                ren0 = ren

                def ren(items):
                    out = []
                    for it in items:
                        if it[0] == "ctorfired":
                            out.append("ctor!")
                        elif it[0] == "fired":
                            out[-1] += "!"
                        elif it[0] in ("panic", "stop"):
                            out.append(it[0])
                        else:
                            out.append(ren0([it]))
                    return "&".join(out) or "none"
                items = cs.core("read_faulty~%s~%s~%s~%s" % (fm, tag(p), mode, data.hex() or "-"),
                                lambda: lmcore.read_faulty(fm, p, data, *core_fault), ren)
            else:
                items = cs.core("read~%s~%s~%s" % (fm, tag(p), data.hex() or "-"), lambda: lmcore.read_all(fm, p, data), ren)
            if items is not None:
                if items and items[0][0] == "ctorfired":
                    items = []              # the constructor raises: no loader, no motif
                for k, it in enumerate(items):
                    if it[0] != "ok":
                        continue            # errors and panics yield no motif
                    if k + 1 < len(items) and items[k + 1][0] == "fired":
                        continue            # the exception of read() wins over the item
                    if it[6] is None:
                        continue            # TRANSFAC record without counts: ValueError, no motif
                    if it[1] == "uniprobe":
                        r = cs.sh_motif_from_freq(it[6])
                        shadows.append(None if r is None else {"c": None, "w": r[0], "s": r[1]})
                    else:
                        r = cs.sh_motif_from_counts(it[6])
                        shadows.append(None if r is None else {"c": it[6], "w": r[0], "s": r[1]})
                cs.shadow[dst] = {"motifs": shadows}
        tmp = None
        opened = None
        try:
            if mode in ("p", "pb", "pP"):
                fd, tmp = tempfile.mkstemp(prefix="c17-", suffix=".txt")
                os.write(fd, data)
                os.close(fd)
                fobj = tmp if mode == "p" else (os.fsencode(tmp) if mode == "pb" else pathlib.Path(tmp))
            elif mode == "q":
                fobj = "/nonexistent/c17/%d.txt" % os.getpid()
            elif mode == "b":
                fobj = io.BytesIO(data)
            elif mode[0] == "f":
                fd, tmp = tempfile.mkstemp(prefix="c17-", suffix=".gz" if mode[1] == "z" else ".txt")
                os.write(fd, gzip.compress(full) if mode[1] == "z" else full)
                os.close(fd)
                if mode == "fx":
                    fobj = open(tmp, "r", encoding="latin-1")
                elif mode[1] == "z":
                    fobj = gzip.open(tmp, "rb")
                    fobj.read(int(mode[2:]))
                elif mode[1] == "u":
                    fobj = open(tmp, "rb", buffering=0)
                    fobj.read(int(mode[2:]))
                else:
                    fobj = open(tmp, "rb")
                    if mode[1] == "b":
                        fobj.read(int(mode[2:]))
                    elif mode[1] == "k":
                        fobj.seek(int(mode[2:]))
                    elif mode[1] == "n":
                        for _ in range(int(mode[2:])):
                            fobj.readline()
                    elif mode == "fe":
                        fobj.read()
                opened = fobj
            elif faulty is not None:
                fobj = FaultyFile(data, *faulty)
            elif mode == "x":
                fobj = NoRead()
            else:
                fobj = OddFile(data, mode)
            args = [fobj] + ([] if fmt is None else [cs.val(fmt)])
            kw = {} if protein is None else {"protein": cs.val(protein)}
            loader = (lightmotif.load if name == "ld" else lightmotif.Loader)(*args, **kw)
            motifs, out = [], []
            after = 0
            while after <= 3:
                try:
                    m = next(loader)
                except StopIteration:
                    break
                except BaseException as e:
                    out.append(exc_outcome(e))
                    if core_fault is None:
                        break
                    after += 1
                    if after > 3:
                        break
                    continue
                if after:
                    after += 1
                motifs.append(m)
                out.append(render(m))
                if len(out) > 10000:
                    out.append("E:Runaway")
                    break
            cs.slots[dst] = motifs
            return "V:ld&" + "&".join(out) if out else "V:ld"
        finally:
            if opened is not None:
                try:
                    opened.close()
                except Exception:
                    pass
            if tmp is not None:
                try:
                    os.unlink(tmp)
                except OSError:
                    pass

    if name == "gl":
        dst, src, idx, which = int(f[1]), int(f[2]), int(f[3]), f[4]
        cs.slots.pop(dst, None)
        cs.shadow.pop(dst, None)
        me = cs.get(src)
        if not isinstance(me, list) or idx >= len(me):
            raise Unbound()
        m = me[idx]
        obj = {"c": m.counts, "w": m.pwm, "s": m.pssm}[which]
        if obj is None:
            raise Unbound()
        sh = cs.shadow.get(src)
        if isinstance(sh, dict) and idx < len(sh.get("motifs", [])) and sh["motifs"][idx] is not None:
            if sh["motifs"][idx].get(which) is not None:
                cs.shadow[dst] = sh["motifs"][idx][which]
        cs.slots[dst] = obj
        return "V:" + render(obj)

    if name == "es":
        dst, seq, protein = int(f[1]), arg(2), arg(3)
        cs.slots.pop(dst, None)
        cs.shadow.pop(dst, None)
        p = boolv(protein)
        if p is not None and seq is not None and seq[0] == "s":
            try:
                text = seq[1].encode("utf-8")
            except UnicodeEncodeError:
                text = None
            if text is not None:
                r = cs.core("encode~%s~%s" % (tag(p), text.hex() or "-"), lambda: lmcore.stripe(p, seq[1], 0), lambda r: "ok")
                if r is not None:
                    cs.shadow[dst] = {"es": (p, seq[1])}
        args = [cs.val(seq)] + ([] if protein is None else [cs.val(protein)])
        obj = lightmotif.EncodedSequence(*args)
        cs.slots[dst] = obj
        return "V:" + render(obj)

    if name == "et":
        dst, src = int(f[1]), int(f[2])
        cs.slots.pop(dst, None)
        cs.shadow.pop(dst, None)
        me = cs.recv(src, lightmotif.EncodedSequence)
        sh = cs.shadow.get(src)
        if isinstance(sh, dict) and "es" in sh:
            p, text = sh["es"]
            q = cs.cv("stripe~%s~%s" % (tag(p), text.encode("utf-8").hex() or "-"), lambda: lmcore.stripe(p, text, 0))
            if q is not None:
                cs.shadow[dst] = q
        obj = me.stripe()
        cs.slots[dst] = obj
        return "V:" + render(obj)

    if name == "cp":
        dst, src, how = int(f[1]), int(f[2]), f[3]
        cs.slots.pop(dst, None)
        cs.shadow.pop(dst, None)
        me = cs.get(src)
        if isinstance(me, (lightmotif.Scanner, lightmotif.Motif, list)) or (how == "m" and not isinstance(me, (lightmotif.EncodedSequence, lightmotif.StripedSequence))):
            raise Unbound()
        sh = cs.shadow.get(src)
        if isinstance(me, (lightmotif.EncodedSequence, lightmotif.StripedSequence)) and sh is not None:
            cs.shadow[dst] = sh      # core values are immutable snapshots
        obj = me.copy() if how == "m" else copy.copy(me)
        cs.slots[dst] = obj
        return "V:" + render(obj)

    if name == "eq":
        src, other = int(f[1]), arg(2)
        me = cs.get(src)
        if not isinstance(me, (lightmotif.CountMatrix, lightmotif.WeightMatrix, lightmotif.ScoringMatrix)):
            raise Unbound()
        sh = cs.shadow.get(src)
        if sh is not None and other[0] == "V" and other[1] in cs.shadow and not isinstance(cs.shadow[other[1]], dict):
            so = cs.shadow[other[1]]
            cs.oracle["eq~%s~%s" % (c(sh), c(so))] = "true" if lmcore.core_eq(sh, so) else "false"
        r = (me == cs.val(other))
        if r is not True and r is not False:
            return "E:NotBool"
        ne = (me != cs.val(other))
        if ne is not (not r):
            return "E:NeInconsistent"
        return "V:b:%d" % (1 if r else 0)

    if name == "sr":
        src = int(f[1])
        me = cs.recv(src, lightmotif.EncodedSequence)
        return "V:s:" + (str(me).encode("utf-8").hex() or "-")

    if name == "sd":
        dst, src = int(f[1]), int(f[2])
        cs.slots.pop(dst, None)
        cs.shadow.pop(dst, None)
        me = cs.recv(src, lightmotif.ScoringMatrix)
        sh = cs.shadow.get(src)
        if sh is not None:
            cs.core("dist_sf~%s" % c(sh), lambda: lmcore.dist_sf(sh), lambda r: r)
        d = me.score_distribution
        same = d is me.score_distribution
        shared = False
        for o in list(cs.slots.values()):
            if o is not me and isinstance(o, lightmotif.ScoringMatrix):
                try:
                    shared = shared or (o.score_distribution is d)
                except Exception:
                    pass
        vals = memoryview(d).tolist()
        h = 0xcbf29ce484222325
        for x in vals:
            for b in ("%d," % lmcore.f64bits(x)).encode():
                h = ((h ^ b) * 0x100000001b3) & 0xFFFFFFFFFFFFFFFF
        cs.slots[dst] = d
        return "V:sd:%d:%016x:same=%d:shared=%d" % (len(vals), h, 1 if same else 0, 1 if shared else 0)

    if name == "fo":
        dst = int(f[1])
        data = bytes.fromhex(f[2] if f[2] != "-" else "")
        cs.slots[dst] = io.BytesIO(data)
        cs.shadow[dst] = {"stream": lmcore.stream(data)}
        return "V:file"

    if name == "ll":
        dst, fl, fmt, protein = int(f[1]), int(f[2]), arg(3), arg(4)
        cs.slots.pop(dst, None)
        cs.shadow.pop(dst, None)
        fobj = cs.recv(fl, io.BytesIO)
        p = boolv(protein)
        fm = "jaspar" if fmt is None else (fmt[1] if fmt[0] == "s" else None)
        sh = cs.shadow.get(fl)
        if p is False and fm in ("jaspar", "jaspar16", "uniprobe", "transfac") and isinstance(sh, dict) and "stream" in sh:
            try:
                cs.shadow[dst] = {"reader": lmcore.lazy_reader(sh["stream"], fm, False), "calls": 0, "id": dst}
            except (lmcore.CorePanic, lmcore.CoreErr):
                pass
        args = [fobj] + ([] if fmt is None else [cs.val(fmt)])
        kw = {} if protein is None else {"protein": cs.val(protein)}
        obj = lightmotif.Loader(*args, **kw)
        cs.slots[dst] = obj
        return "V:loader"

    if name == "ln":
        src, k = int(f[1]), int(f[2])
        me = cs.recv(src, lightmotif.Loader)
        sh = cs.shadow.get(src)
        out = []
        for _ in range(k):
            # mirror the call on the core reader first (both sides consume the shared stream in step)
            stop_core = False
            if isinstance(sh, dict) and "reader" in sh:
                key = "lnext~%d~%d" % (sh["id"], sh["calls"])
                sh["calls"] += 1
                try:
                    it = lmcore.lazy_next(sh["reader"])
                    if it is None:
                        cs.oracle[key] = "stop"
                    elif it[0] == "err":
                        cs.oracle[key] = "err+" + it[1]
                    else:
                        cs.oracle[key] = "ok+%s+%s+%s+%s+%s+%s" % (it[1], hx(it[2]), hx(it[3]), hx(it[4]), hx(it[5]),
                                                                  "N" if it[6] is None else c(it[6]))
                        if it[6] is not None:
                            if it[1] == "uniprobe":
                                cs.sh_motif_from_freq(it[6])
                            else:
                                cs.sh_motif_from_counts(it[6])
                except lmcore.CorePanic:
                    cs.oracle[key] = "P"
            try:
                m = next(me)
            except StopIteration:
                break
            except BaseException as e:
                out.append(exc_outcome(e))
                break
            out.append(render(m))
        return "V:ld&" + "&".join(out) if out else "V:ld"

    if name == "mt":
        import threading
        import time
        src, n, variant = int(f[1]), int(f[2]), f[3]
        me = cs.recv(src, lightmotif.ScoringMatrix)
        if variant == "f":
            # one thread keeps calculating on a long sequence (GIL released inside) while this thread asks the
            # first p-value of the same matrix
            long_seq = lightmotif.stripe("ACGTTGCAAC" * 100000)
            stop = []
            seen = []

            def calc():
                try:
                    while not stop:
                        me.calculate(long_seq)
                except BaseException as e:
                    seen.append(exc_outcome(e))
            t = threading.Thread(target=calc)
            t.start()
            time.sleep(0.05)
            try:
                for _ in range(3):
                    me.pvalue(1.0)
                    time.sleep(0.01)
            except BaseException as e:
                seen.append(exc_outcome(e))
            stop.append(1)
            t.join()
            if "P" in seen:
                return "P"
            return "V:mt:ok" if not [x for x in seen if x != "E:ValueError"] else "V:mt:" + seen[0]
        if variant == "s":
            # n threads call calculate on ONE shared sequence (plus p-values of the shared matrix): a call either
            # gives what it gives sequentially or raises the documented RuntimeError ("Already borrowed": the
            # sequence is mutably borrowed for the whole call, also while the GIL is released)
            q = lightmotif.stripe(("ACGTTGCAAC" * 30000)[: 200003])
            try:
                sc = me.calculate(q)
                want = (len(sc), lmcore.f32bits(sc.max()) if len(sc) else None, sc.argmax(), lmcore.f64bits(me.pvalue(1.0)))
            except BaseException as e:
                return exc_outcome(e)
            bad = []
            busy = [0]

            def work_shared():
                for _ in range(12):
                    try:
                        sc = me.calculate(q)
                        got = (len(sc), lmcore.f32bits(sc.max()) if len(sc) else None, sc.argmax(), lmcore.f64bits(me.pvalue(1.0)))
                        if got != want:
                            bad.append("mismatch")
                    except RuntimeError as e:
                        if "borrow" in str(e).lower():
                            busy[0] += 1
                        else:
                            bad.append("E:RuntimeError:" + str(e).replace(" ", "_")[:40])
                    except BaseException as e:
                        bad.append(exc_outcome(e))
            threads = [threading.Thread(target=work_shared) for _ in range(max(n, 2))]
            for t in threads:
                t.start()
            for t in threads:
                t.join()
            if "P" in bad:
                return "P"
            return "V:mt:ok" if not bad else "V:mt:" + bad[0]
        texts = [("ACGTTGCA" * (5 + 3 * i) + "TTGACA" * i)[: 40 + 37 * i] for i in range(n)]

        def work(text, out):
            try:
                q = lightmotif.stripe(text)
                res = []
                for _ in range(20):
                    sc = me.calculate(q)
                    res.append((len(sc), lmcore.f32bits(sc.max()) if len(sc) else None, sc.argmax(), tuple(sc.threshold(0.0))))
                res.append(lmcore.f64bits(me.pvalue(1.0)))
                out.append(res)
            except BaseException as e:
                out.append(exc_outcome(e))
        seq_out = []
        for t in texts:
            work(t, seq_out)        # sequential first: also fills the distribution cache
        par_out = [[] for _ in texts]
        threads = [threading.Thread(target=work, args=(t, o)) for t, o in zip(texts, par_out)]
        for t in threads:
            t.start()
        for t in threads:
            t.join()
        if any(s == "P" for s in seq_out) or any(o and o[0] == "P" for o in par_out):
            return "P"
        ok = all(len(o) == 1 and o[0] == s for o, s in zip(par_out, seq_out))
        return "V:mt:ok" if ok else "V:mt:mismatch"

    if name == "dl":
        slot = int(f[1])
        if slot not in cs.slots:
            raise Unbound()
        obj = cs.slots.pop(slot)
        cs.shadow.pop(slot, None)
        kind = obj
        churn = []
        # what to allocate afterwards so that the freed blocks are taken again
        if isinstance(obj, lightmotif.ScoringMatrix):
            w, prot = len(obj), obj.protein
            recipe = ("sm", w, prot)
        elif isinstance(obj, lightmotif.StripedSequence):
            try:
                shape = memoryview(obj).shape
                n = int(shape[0]) * int(shape[1])
            except Exception:
                n = 64
            recipe = ("sq", n, obj.protein)
        else:
            recipe = None
        del obj, kind
        gc.collect()
        if recipe is not None and recipe[0] == "sm":
            syms = SYMS[recipe[2]][:-1]
            for k in range(24):
                churn.append(lightmotif.ScoringMatrix({c: [-60.0 - k] * recipe[1] for c in syms}, protein=recipe[2]))
        elif recipe is not None:
            n = max(recipe[1], 1)
            for k in range(24):
                churn.append(lightmotif.stripe(("CATGG" * (n // 5 + 1))[:n]))
        else:
            for k in range(24):
                churn.append(bytearray(64 * (k + 1)))
        cs.churn.extend(churn)
        return "V:deleted"

    raise ValueError("unknown op " + op)


class FaultyFile:
    """a file object whose k-th read() call misbehaves"""

    def __init__(self, data, what, kth, chunk):
        self.b = io.BytesIO(data)
        self.what, self.kth, self.chunk = what, kth, chunk
        self.calls = 0

    def read(self, n=-1):
        self.calls += 1
        if self.calls == self.kth:
            w = self.what
            if w == "k":
                raise KeyError("boom")
            if w == "p":
                raise PermissionError(13, "denied")
            if w == "o":
                raise OSError("no errno")
            if w == "s":
                return "text"
            if w == "n":
                return None
            if w == "m":
                return b"x" * (max(n, 0) + 5)
            if w == "c":
                self.b.close()
        if n is None or n < 0:
            return self.b.read()
        return self.b.read(min(n, self.chunk))


class NoRead:
    """an object that is neither a path nor a file"""


class OddFile:
    """file-like objects with unusual read() behaviour"""

    def __init__(self, data, mode):
        self.data = data
        self.pos = 0
        self.mode = mode

    def read(self, n=-1):
        m = self.mode
        if m == "e":
            raise OSError(5, "Input/output error")
        if m == "t":
            return ""
        if m == "o":
            chunk = self.data[self.pos:self.pos + n]
            self.pos += n
            return chunk + b"\n" * (n + 1 - len(chunk))
        k = int(m[1:])
        if n is None or n < 0:
            n = len(self.data)
        n = min(n, k) if n > 0 else 0
        chunk = self.data[self.pos:self.pos + n]
        self.pos += len(chunk)
        return chunk

    def __getattr__(self, name):
        raise AttributeError(name)


def test_fault(cid):
    """C17_TEST_FAULT=<id>:<hang|abort|kill9once>[,...] simulates a hang / crash of the interpreter on a
    case (self-test of the supervisor in c17_main.py; never set by the check)."""
    spec = os.environ.get("C17_TEST_FAULT", "")
    for item in spec.split(","):
        if ":" in item and item.split(":")[0] == cid:
            kind = item.split(":")[1]
            if kind == "hang":
                import time
                time.sleep(100000)
            elif kind == "abort":
                os.abort()
            elif kind == "kill9once":
                flag = "/tmp/c17-kill9once-%s-%d" % (cid, os.getppid())
                if not os.path.exists(flag):
                    open(flag, "w").close()
                    os.kill(os.getpid(), 9)


def run_case(line):
    line = line.rstrip("\n")
    toks = line.split(" ")
    if "C17_TEST_FAULT" in os.environ:
        test_fault(toks[0])
    fields = dict(t.split("=", 1) for t in toks[1:] if "=" in t)
    ops = [o for o in fields.get("h", "").split(";") if o]
    cs = Case()
    outs = []
    for i, op in enumerate(ops):
        try:
            o = run_op(cs, op)
        except Unbound:
            o = "U"
        except BaseException as e:  # PanicException derives from BaseException
            if isinstance(e, (KeyboardInterrupt, SystemExit, MemoryError)):
                raise
            o = exc_outcome(e)
        if o.startswith("V:d:"):
            cs.results[i] = int(o[4:])
        outs.append("o%d=%s" % (i, o))
    orc = ["or=%s|%s" % kv for kv in cs.oracle.items()]
    return "%s => abc=%s/%s %s %s" % (line, SYMS[False], SYMS[True], " ".join(outs), " ".join(orc))


def main():
    out = sys.stdout
    for line in sys.stdin:
        if not line.strip() or line.startswith("#"):
            continue
        cid = line.split(" ", 1)[0]
        # announce the case first: if the interpreter dies, the supervisor knows where
        out.write("@start %s\n" % cid)
        out.flush()
        try:
            res = run_case(line)
        except BaseException as e:
            if isinstance(e, (KeyboardInterrupt, SystemExit)):
                raise
            import traceback
            res = "%s => harness-error=%s" % (line.rstrip("\n"), repr(e).replace(" ", "_")[:300])
            traceback.print_exc(file=sys.stderr)
        out.write(res + "\n")
        out.flush()


if __name__ == "__main__":
    main()
