# C18 / F24 probe, run in a sub-process of the check (it may read freed memory).
# Call sequence under test, safe Python API only:
#     s = lightmotif.stripe(seq); v = memoryview(s); pssm.calculate(s); <read v>
# calculate() reconfigures the sequence in place (configure_wrap resizes the Vec behind
# the exported pointer).  Prints one line:
#   STALE moved=<n>/<N> changed=<n>/<N>   the view outlived a reallocation n times
#   BLOCKED <exception>                   the API refused the call while a view is exported
import sys
import ctypes
from lightmotif import lib

N = 48


class PyBuffer(ctypes.Structure):
    _fields_ = [("buf", ctypes.c_void_p), ("obj", ctypes.py_object), ("len", ctypes.c_ssize_t),
                ("itemsize", ctypes.c_ssize_t), ("readonly", ctypes.c_int), ("ndim", ctypes.c_int),
                ("format", ctypes.c_char_p), ("shape", ctypes.POINTER(ctypes.c_ssize_t)),
                ("strides", ctypes.POINTER(ctypes.c_ssize_t)), ("suboffsets", ctypes.POINTER(ctypes.c_ssize_t)),
                ("internal", ctypes.c_void_p)]


def address(obj):
    """buffer address handed out by __getbuffer__ (the export is released at once)"""
    try:
        api = ctypes.pythonapi
        api.PyObject_GetBuffer.argtypes = [ctypes.py_object, ctypes.POINTER(PyBuffer), ctypes.c_int]
        api.PyObject_GetBuffer.restype = ctypes.c_int
        api.PyBuffer_Release.argtypes = [ctypes.POINTER(PyBuffer)]
        b = PyBuffer()
        if api.PyObject_GetBuffer(obj, ctypes.byref(b), 0x18) != 0:   # PyBUF_STRIDES
            return None
        a = b.buf
        api.PyBuffer_Release(ctypes.byref(b))
        return a
    except Exception:
        return None


def main():
    wide = lib.ScoringMatrix({s: [0.0] * 120 for s in "ACTG"})
    moved = changed = 0
    for k in range(N):
        seq = ("ACGT" * 400)[: 64 + 32 * k]
        s = lib.stripe(seq)
        view = memoryview(s)                    # stays exported across the call
        a0 = address(s)
        before = view.tobytes()
        try:
            wide.calculate(s)
        except BaseException as e:
            print("BLOCKED %s" % type(e).__name__)
            return
        a1 = address(s)
        if a0 is not None and a1 is not None and a0 != a1:
            moved += 1
        fresh = memoryview(s)
        if before != fresh.tobytes():
            print("FRESH-VIEW-WRONG")
            return
        if a0 is None or a1 is None:
            # no address available: compare what the old view shows now (reads freed memory)
            if view.tobytes() != before:
                changed += 1
        fresh.release()
    print("STALE moved=%d/%d changed=%d/%d" % (moved, N, changed, N))


main()
sys.stdout.flush()
