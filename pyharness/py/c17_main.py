"""C17 harness entry point, run as `lmpy py c17_main.py <cmd> ...`:

  gen --seed S --n N --tier T     print N generated histories (one per line)
  run                             stdin: case lines; stdout: observation lines.  The cases are
                                  interpreted by a *child* lmpy process (c17_worker.py) so that a
                                  crash or hang of the interpreter under test becomes the
                                  observation `abort=<why>` of the case that caused it, and the
                                  remaining cases continue in a fresh child.
"""
import os
import select
import subprocess
import sys
import threading

HERE = os.path.dirname(os.path.abspath(__file__))
CASE_TIMEOUT = float(os.environ.get("C17_CASE_TIMEOUT", "30"))


def cmd_gen(argv):
    import c17_gen
    seed, n, tier = 1, 100, "quick"
    i = 0
    while i < len(argv):
        if argv[i] == "--seed":
            seed = int(argv[i + 1])
            i += 2
        elif argv[i] == "--n":
            n = int(argv[i + 1])
            i += 2
        elif argv[i] == "--tier":
            tier = argv[i + 1]
            i += 2
        else:
            i += 1
    for l in c17_gen.generate(seed, n, tier):
        print(l)


class Child:
    def __init__(self, lines):
        exe = os.readlink("/proc/self/exe")
        env = dict(os.environ)
        env["LMPY_QUIET_PANICS"] = "1"
        self.p = subprocess.Popen([exe, "py", os.path.join(HERE, "c17_worker.py")], stdin=subprocess.PIPE,
                                  stdout=subprocess.PIPE, stderr=subprocess.DEVNULL, env=env)
        self.buf = b""
        self.t = threading.Thread(target=self._feed, args=(lines,), daemon=True)
        self.t.start()

    def _feed(self, lines):
        try:
            for l in lines:
                self.p.stdin.write((l + "\n").encode("utf-8"))
            self.p.stdin.close()
        except (BrokenPipeError, OSError, ValueError):
            pass

    def readline(self, timeout):
        """next output line (str), '' at end of output, None on timeout"""
        fd = self.p.stdout.fileno()
        while b"\n" not in self.buf:
            r, _, _ = select.select([fd], [], [], timeout)
            if not r:
                return None
            chunk = os.read(fd, 1 << 16)
            if not chunk:
                rest, self.buf = self.buf, b""
                return rest.decode("utf-8", "replace")
            self.buf += chunk
        line, self.buf = self.buf.split(b"\n", 1)
        return line.decode("utf-8", "replace") + "\n"

    def kill(self):
        try:
            self.p.kill()
        except OSError:
            pass
        self.p.wait()


def run_alone(line, timeout):
    """one case in its own child; returns the observation line or None (crash / hang again)"""
    ch = Child([line])
    res = None
    while True:
        l = ch.readline(timeout)
        if l is None:
            ch.kill()
            return None
        if l == "":
            ch.p.wait()
            return res
        l = l.rstrip("\n")
        if " => " in l:
            res = l


def blame(out, line, why):
    """A hang or a SIGKILL may come from the machine (load, OOM killer) rather than from the code
    under test: such a case is run once more on its own, with a four times longer time limit,
    before the abort is reported.  Other signals (SIGSEGV, SIGABRT, ...) are reported at once."""
    if why in ("timeout", "signal9"):
        again = run_alone(line, 4 * CASE_TIMEOUT)
        if again is not None:
            out.write(again + "\n")
            return
    out.write("%s => abort=%s\n" % (line, why))


def cmd_run():
    lines = [l.rstrip("\n") for l in sys.stdin if l.strip() and not l.startswith("#")]
    out = sys.stdout
    pos = 0
    while pos < len(lines):
        ch = Child(lines[pos:])
        current = None
        while True:
            l = ch.readline(CASE_TIMEOUT)
            if l is None:
                # hang: blame the running case
                ch.kill()
                if current is None:
                    current = pos
                blame(out, lines[current], "timeout")
                pos = current + 1
                break
            if l == "":
                ch.p.wait()
                rc = ch.p.returncode
                if current is not None:
                    blame(out, lines[current], "signal%d" % (-rc) if rc < 0 else "exit%d" % rc)
                    pos = current + 1
                elif pos < len(lines) and rc != 0:
                    out.write("%s => abort=worker-start-exit%d\n" % (lines[pos], rc))
                    pos += 1
                else:
                    pos = len(lines)
                break
            l = l.rstrip("\n")
            if l.startswith("@start "):
                cid = l.split(" ", 1)[1]
                # locate the case (they come in order)
                k = pos
                while k < len(lines) and lines[k].split(" ", 1)[0] != cid:
                    k += 1
                current = k if k < len(lines) else None
            elif " => " in l:
                out.write(l + "\n")
                if current is not None:
                    pos = current + 1
                current = None
        out.flush()


def main():
    argv = sys.argv[1:]
    if not argv:
        print(__doc__)
        return 2
    if argv[0] == "gen":
        cmd_gen(argv[1:])
        return 0
    if argv[0] == "run":
        cmd_run()
        return 0
    print(__doc__)
    return 2


if __name__ == "__main__":
    sys.exit(main())
