"""C17 generator: API histories for the Python module (see c17_worker.py for the op
language).  Every random choice derives from the seed."""
import random

import c17_pv as PV
from c17_pv import F, S, I

DNA = "ACTGN"
PROT = "ACDEFGHIKLMNPQRSTVWYX"
N_, T_, F_, O_ = ("N",), ("T",), ("F",), ("O",)
LENGTHS = [0, 1, 2, 5, 14, 15, 16, 31, 32, 33, 40, 63, 64, 65, 90, 127, 128, 129, 200, 257, 320]
NAN = ("f", 0x7FF8000000000000)
INF = ("f", 0x7FF0000000000000)


def L(xs):
    return ("L", list(xs))


def U(xs):
    return ("U", list(xs))


def D(kv):
    return ("D", list(kv))


def B(b):
    return T_ if b else F_


class Gen:
    def __init__(self, rnd, tier):
        self.r = rnd
        self.tier = tier
        self.ops = []
        self.n = 0

    def slot(self):
        self.n += 1
        return self.n - 1

    def emit(self, *fields):
        self.ops.append(":".join("-" if x is None else (x if isinstance(x, str) else (str(x) if isinstance(x, int) else PV.show(x))) for x in fields))

    def chance(self, p):
        return self.r.random() < p

    # ------------------------------------------------------------ values
    def syms(self, protein):
        return PROT if protein else DNA

    def seq_text(self, protein, n, with_unknown=True):
        al = self.syms(protein)
        core = al[:-1]
        out = []
        for _ in range(n):
            if with_unknown and self.chance(0.03):
                out.append(al[-1])
            else:
                out.append(self.r.choice(core))
        return "".join(out)

    def protein_arg(self, protein):
        if not protein and self.chance(0.5):
            return None
        return B(protein)

    def counts_columns(self, protein, width, zeros=0.15):
        al = self.syms(protein)
        cols = {}
        for c in al[:-1]:
            cols[c] = [0 if self.chance(zeros) else self.r.randint(1, 20) for _ in range(width)]
        if self.chance(0.3):
            cols[al[-1]] = [self.r.randint(0, 2) for _ in range(width)]
        # make sure no row is entirely zero
        for i in range(width):
            if all(cols[c][i] == 0 for c in cols):
                cols[al[0]][i] = 1
        return cols

    def counts_dict(self, protein, width, bad=None):
        cols = self.counts_columns(protein, width)
        al = self.syms(protein)
        kv = []
        for c, col in cols.items():
            v = L(I(x) for x in col)
            style = self.r.random()
            if style < 0.1:
                v = U(I(x) for x in col)
            elif style < 0.15 and all(x < 256 for x in col):
                v = ("y", bytes(col))
            elif style < 0.2:
                v = L(B(x) if x in (0, 1) else I(x) for x in col)
            kv.append((S(c), v))
        if bad is None:
            if self.chance(0.15):      # drop some keys (still valid as long as one remains)
                keep = self.r.randint(1, len(kv))
                self.r.shuffle(kv)
                kv = kv[:keep]
            if self.chance(0.15):      # keys outside the alphabet are ignored by CountMatrix()
                kv.append((S(self.r.choice(["Z", "a", "AB", "", "*"])), L([I(1)] * self.r.randint(0, 3))))
            if self.chance(0.05):
                kv.append((I(7), L([I(1)])))
            self.r.shuffle(kv)
            return D(kv)
        k = self.r.randrange(len(kv))
        key, col = kv[k]
        items = list(col[1]) if col[0] in "LU" else [I(x) for x in col[1]]
        if bad == "ragged":
            if len(kv) == 1:
                kv.append((S(al[1] if key[1] == al[0] else al[0]), L(items + [I(1)])))
            else:
                kv[k] = (key, L(items[:-1] if items and self.chance(0.5) else items + [I(3)]))
        elif bad == "empty":
            return D([]) if self.chance(0.5) else D([(S("Z"), L([I(1)]))])
        elif bad == "neg":
            items = items or [I(0)]
            items[self.r.randrange(len(items))] = I(-self.r.randint(1, 5))
            kv = [(kk, L(items) if kk == key else (vv if len(PV.to_py(vv, {})) == len(items) else L([I(1)] * len(items)))) for kk, vv in kv]
        elif bad == "big":
            items = items or [I(0)]
            items[self.r.randrange(len(items))] = I(self.r.choice([2 ** 32, 2 ** 63, 2 ** 64, 2 ** 70]))
            kv = [(kk, L(items) if kk == key else (vv if len(PV.to_py(vv, {})) == len(items) else L([I(1)] * len(items)))) for kk, vv in kv]
        elif bad == "float":
            items = items or [I(0)]
            items[self.r.randrange(len(items))] = self.r.choice([F(1.0), F(0.5), S("1"), N_, L([I(1)])])
            kv = [(kk, L(items) if kk == key else (vv if len(PV.to_py(vv, {})) == len(items) else L([I(1)] * len(items)))) for kk, vv in kv]
        elif bad == "column":
            kv[k] = (key, self.r.choice([I(3), N_, F(1.0), S("12"), O_, D([(I(1), I(2))]), ("G", items), ("G", [])]))
        elif bad == "notdict":
            return self.r.choice([L([L([I(1), I(2), I(3), I(4)])]), N_, S("ACGT"), I(4), O_])
        return D(kv)

    def pseudocount(self, protein, bad=False):
        al = self.syms(protein)
        if bad:
            k = self.r.randrange(9)
            if k == 0:
                return S("0.1")
            if k == 1:
                return L([F(0.1)] * len(al))
            if k == 2:
                return D([(S("Z"), F(0.1))])
            if k == 3:
                return D([(S(al[0] + al[1]), F(0.1))])
            if k == 4:
                return D([(S(""), F(0.1))])
            if k == 5:
                return D([(I(0), F(0.1))])
            if k == 6:
                return D([(S(al[0]), S("x"))])
            if k == 7:
                return D([(S("\u00e9"), F(0.1))])
            return D([(S(al[0].lower()), F(0.1)), (S(al[1]), N_)])
        k = self.r.randrange(12)
        if k == 0:
            return None
        if k == 1:
            return N_
        if k == 2:
            return F(self.r.choice([0.1, 0.25, 1.0, 0.5, 1e-3, 2.5]))
        if k == 3:
            return I(self.r.choice([1, 2, 0]))
        if k == 4:
            return self.r.choice([T_, F_])
        if k == 5:
            return self.r.choice([F(0.0), F(-0.5), F(-1.0), NAN, INF, F(1e30), F(1e-45), F(0.1 + 1e-12)])
        if k == 6:   # full dictionary in a shuffled order, distinct values
            kv = [(S(c), F(self.r.choice([0.1, 0.2, 0.3, 0.4, 0.5, 1.0, 2.0]) + 0.01 * i)) for i, c in enumerate(al)]
            self.r.shuffle(kv)
            return D(kv)
        if k == 7:   # partial dictionary
            cs = self.r.sample(al, self.r.randint(0, len(al) - 1))
            return D([(S(c), F(self.r.choice([0.1, 0.5, 1.0, 3.0]))) for c in cs])
        if k == 8:   # integer / bool values in the dictionary
            return D([(S(c), self.r.choice([I(1), I(2), T_, F(0.75)])) for c in al[:-1]])
        kv = [(S(c), F(round(self.r.uniform(0.01, 2.0), 3))) for c in al[:-1]]
        self.r.shuffle(kv)
        return D(kv)

    def background(self, protein, bad=False):
        al = self.syms(protein)
        k = len(al) - 1
        if bad:
            j = self.r.randrange(8)
            if j == 0:
                return F(0.25)
            if j == 1:
                return S("uniform")
            if j == 2:
                return L([F(1.0 / k)] * k)
            if j == 3:
                return D([(S("Z"), F(1.0))])
            if j == 4:
                return D([(S(c), F(1.0 / k)) for c in al[:-2]])           # sums to less than one
            if j == 5:
                return D([(S(al[0]), F(1.5)), (S(al[1]), F(-0.5))])
            if j == 6:
                return D([(S(al[0]), F(0.5)), (S(al[1]), S("0.5"))])
            return D([(S(al[0]), NAN), (S(al[1]), F(1.0))])
        j = self.r.randrange(8)
        if j == 0:
            return None
        if j == 1:
            return N_
        if j == 2 and not protein:
            kv = [(S(c), F(0.25)) for c in "ACGT"]
            self.r.shuffle(kv)
            return D(kv)
        if j == 3 and not protein:
            w = [0.5, 0.25, 0.125, 0.125]
            self.r.shuffle(w)
            kv = [(S(c), F(x)) for c, x in zip("ACGT", w)]
            self.r.shuffle(kv)
            return D(kv)
        if j == 4 and not protein:
            w = self.r.choice([[0.25, 0.25, 0.25, 0.125, 0.125], [0.5, 0.125, 0.125, 0.125, 0.125]])
            kv = [(S(c), F(x)) for c, x in zip("ACGTN", w)]     # wildcard mass
            self.r.shuffle(kv)
            return D(kv)
        if j == 5 and not protein:
            a = self.r.choice([0.3, 0.2, 0.35, 0.1])
            w = [a, 0.5 - a, 0.5 - a, a]
            return D([(S(c), F(x)) for c, x in zip("ATGC", w)])   # may or may not sum to 1.0f32
        if protein:
            w = [0.0625] * 12 + [0.03125] * 8        # sums to exactly one
            self.r.shuffle(w)
            kv = [(S(c), F(x)) for c, x in zip(al[:-1], w)]
            self.r.shuffle(kv)
            return D(kv)
        return D([(S(c), F(0.25)) for c in "ACGT"])

    def base(self, bad=False):
        if bad:
            return self.r.choice([S("2"), N_, L([F(2.0)]), O_])
        j = self.r.randrange(10)
        if j < 3:
            return None
        if self.chance(0.06):
            return self.r.choice([F(1.0), F(0.0), F(-2.0), NAN, T_, INF])      # degenerate logarithms
        return self.r.choice([F(2.0), F(10.0), F(2.718281828459045), F(0.5), F(3.0), I(2), I(10), F(4.0), F(1.5), F(7.25)])

    # ------------------------------------------------------------ building blocks
    def make_motif(self, protein, width, route=None, clean=False):
        """Emit ops building a ScoringMatrix; returns (pssm slot, width)."""
        r = self.r
        route = route or r.choice(["cm", "cm", "cr", "sm"])
        if route == "cm":
            c, w, s = self.slot(), self.slot(), self.slot()
            self.emit("cm", c, self.counts_dict(protein, width), B(protein) if protein or self.chance(0.5) else None)
            pc = F(r.choice([0.1, 0.5, 1.0])) if clean else self.pseudocount(protein)
            self.emit("nz", w, c, pc)
            if clean:
                self.emit("lo", s, w, None, None)
            else:
                self.emit("lo", s, w, self.background(protein), self.base())
            return s
        if route == "cr":
            m, s = self.slot(), self.slot()
            n = r.randint(1, 12)
            seqs = [self.seq_text(protein, width, with_unknown=not clean) for _ in range(n)]
            k = r.random()
            node = L(S(x) for x in seqs) if k < 0.7 else (U(S(x) for x in seqs) if k < 0.85 else ("G", [S(x) for x in seqs]))
            name = r.choice([None, None, N_, S("motif"), S("M \u00e9 1")])
            self.emit("cr", m, node, B(protein) if protein or self.chance(0.5) else None, name)
            which = "s"
            if self.chance(0.3) and not clean:
                # go through the counts of the created motif
                c, w = self.slot(), self.slot()
                self.emit("gm", c, m, "c")
                self.emit("nz", w, c, self.pseudocount(protein))
                self.emit("lo", s, w, self.background(protein), self.base())
                return s
            self.emit("gm", s, m, which)
            return s
        s = self.slot()
        al = self.syms(protein)
        kv = []
        for c in al[:-1] if self.chance(0.7) else al:
            col = []
            for _ in range(width):
                x = r.choice([-2.5, -1.0, 0.0, 0.5, 1.0, 1.5, 2.0, -0.25, 3.25, round(r.uniform(-4, 3), 2)])
                node = F(x)
                if not clean and self.chance(0.03):
                    node = r.choice([("f", 0xFFF0000000000000), I(1), F(1e-40), F(0.1)])
                col.append(node)
            kv.append((S(c), L(col)))
        r.shuffle(kv)
        self.emit("sm", s, D(kv), None if clean else self.background(protein), B(protein) if protein or self.chance(0.5) else None)
        return s

    def make_seq(self, protein, n=None):
        q = self.slot()
        if n is None:
            n = self.r.choice(LENGTHS) if self.tier == "quick" or self.chance(0.8) else self.r.choice([500, 1000, 1023, 1024, 1025, 2100])
        text = S(self.seq_text(protein, n))
        if self.chance(0.25):
            e = self.slot()
            self.emit("es", e, text, self.protein_arg(protein))
            if self.chance(0.4):
                self.emit("sr", e)
            if self.chance(0.3):
                e2 = self.slot()
                self.emit("cp", e2, e, self.r.choice(["m", "c"]))
                if self.chance(0.5):
                    self.emit("dl", e)
                e = e2
            self.emit("et", q, e)
        else:
            self.emit("st", q, text, self.protein_arg(protein))
        return q, n

    def use_scores(self, sc):
        r = self.r
        ops = r.sample(["th", "mx", "am", "th"], r.randint(1, 4))
        for o in ops:
            if o == "th":
                t = r.choice([F(0.0), F(-1.0), F(2.5), F(5.0), F(-20.0), F(-1e30), F(1e30), ("f", 0xFFF0000000000000), INF,
                              NAN, I(0), I(3), F(round(r.uniform(-10, 10), 2)), F(0.1)])
                if self.chance(0.03):
                    t = I(r.choice([1, -1]) * r.choice([2 ** 1023, 2 ** 1024 - 2 ** 970 - 1, 2 ** 1024 - 2 ** 970, 2 ** 1024]))
                self.emit("th", sc, t)
            else:
                self.emit(o, sc)

    def use_pvalues(self, s, width, protein):
        r = self.r
        for _ in range(r.randint(1, 3)):
            tfm_ok = width <= (4 if protein else 7)
            method = r.choice([None, S("meme"), S("tfmpvalue") if tfm_ok else None])
            if self.chance(0.03):
                # float(int) at the edge of binary64: 2^1024 - 2^970 is the first int CPython refuses (OverflowError)
                x = I(r.choice([1, -1]) * r.choice([2 ** 1023, 2 ** 1024 - 2 ** 970 - 1, 2 ** 1024 - 2 ** 970, 2 ** 1024, 2 ** 2000]))
                self.emit(r.choice(["pv", "pv", "sv"]), s, x, r.choice([None, S("meme")]))
                continue
            if self.chance(0.5):
                x = r.choice([F(0.0), F(1.0), F(-3.5), F(4.25), F(8.0), F(100.0), F(-100.0), I(2), F(round(r.uniform(-12, 12), 3)),
                              F(0.1), F(1e-300)])
                self.emit("pv", s, x, method)
                if self.chance(0.6):
                    # round trip: the p-value just returned is an exact boundary of the score table
                    k = len(self.ops) - 1
                    self.emit("sv", s, ("R", k), method if self.chance(0.8) else None)
            else:
                p = r.choice([F(1e-3), F(1e-5), F(0.5), F(1.0), F(0.05), F(0.999), F(1e-9), I(1), F(round(r.uniform(0, 1), 4))])
                if self.chance(0.1):
                    p = r.choice([F(0.0), F(2.0), F(-0.5), NAN])
                self.emit("sv", s, p, method)
                if self.chance(0.4):
                    k = len(self.ops) - 1
                    self.emit("pv", s, ("R", k), method)

    # ------------------------------------------------------------ templates
    def t_chain(self):
        protein = self.chance(0.3)
        width = self.r.randint(1, 6 if protein else 14)
        s = self.make_motif(protein, width)
        if self.chance(0.5):
            self.emit("ms", s)
        q, n = self.make_seq(protein)
        early = self.chance(0.3)
        if early:
            # the distribution is cached on first use: before any calculate, and again after it
            self.emit("sd", self.slot(), s)
        sc = self.slot()
        self.emit("ca", sc, s, ("V", q))
        self.use_scores(sc)
        self.use_pvalues(s, width, protein)
        if early or self.chance(0.4):
            self.emit("sd", self.slot(), s)
        rc = self.slot()
        self.emit("rc", rc, s)
        if self.chance(0.5):
            self.emit("eq", s, self.r.choice([("V", rc), ("V", s), ("V", q), N_, I(3), ("V", 0)]))
        if not protein and self.chance(0.5):
            self.emit("sd", self.slot(), rc)
            self.emit("sd", self.slot(), s)
        if not protein:
            sc2 = self.slot()
            self.emit("ca", sc2, rc, ("V", q))
            self.use_scores(sc2)
            # the reverse complement is a matrix of its own: its p-values come from its own distribution
            self.use_pvalues(rc, width, protein)
            if self.chance(0.3):
                rc2 = self.slot()
                self.emit("rc", rc2, rc)
                self.use_pvalues(rc2, width, protein)
                self.emit("ms", rc2)

    def t_reuse(self):
        """one striped sequence reused with motifs of different widths (both alphabets)"""
        r = self.r
        protein = self.chance(0.25)
        q, n = self.make_seq(protein)
        k = r.randint(2, 5)
        widths = [r.randint(1, 6 if protein else 20) for _ in range(k)]
        order = r.choice(["asc", "desc", "rand"])
        if order == "asc":
            widths.sort()
        elif order == "desc":
            widths.sort(reverse=True)
        motifs = []
        earlier = []
        for w in widths:
            other = self.chance(0.12)
            s = self.make_motif(protein != other, w if not other else min(w, 5), clean=self.chance(0.6))
            motifs.append((s, w))
            sc = self.slot()
            self.emit("ca", sc, s, ("V", q))
            if self.chance(0.7):
                self.use_scores(sc)
            if not other:
                earlier.append(sc)
            if len(earlier) >= 2 and self.chance(0.5):
                # scores of an earlier (narrower / wider) motif, used after the sequence was reconfigured
                self.use_scores(r.choice(earlier[:-1]))
        if self.chance(0.5) and motifs:
            # a copy of the sequence goes its own way: reconfigure one, use the other
            q2 = self.slot()
            self.emit("cp", q2, q, r.choice(["m", "c"]))
            wide = self.make_motif(protein, r.randint(15, 40) if not protein else 6, route="cr", clean=True)
            sc = self.slot()
            self.emit("ca", sc, wide, ("V", q2 if self.chance(0.5) else q))
            self.emit("mx", sc)
            s0, w0 = motifs[0]
            for qq in (q, q2):
                sc = self.slot()
                self.emit("ca", sc, s0, ("V", qq))
                self.emit(r.choice(["mx", "am"]), sc)
            if self.chance(0.4):
                self.emit("dl", q)
                sc = self.slot()
                self.emit("ca", sc, s0, ("V", q2))
                self.emit("am", sc)
                return
        # come back to earlier motifs after the sequence was reconfigured
        for s, w in r.sample(motifs, min(len(motifs), 2)):
            sc = self.slot()
            self.emit("ca", sc, s, ("V", q))
            self.emit(r.choice(["mx", "am"]), sc)

    def t_scan(self):
        r = self.r
        q, n = self.make_seq(False, r.choice([40, 64, 65, 129, 200, 320, 500, 700]))
        w = r.randint(2, 10)
        s = self.make_motif(False, w, clean=True)
        scn = self.slot()
        thr = r.choice([None, F(0.0), F(-5.0), F(2.0), F(5.0), F(-50.0), F(-1000.0), I(1), F(round(r.uniform(-8, 8), 2))])
        bs = r.choice([None, I(1), I(2), I(3), I(7), I(16), I(256), I(5), I(1000), T_])
        if self.chance(0.04):      # the largest block sizes a usize can hold (row + block_size must not wrap)
            bs = I(r.choice([2 ** 64 - 1, 2 ** 63, 2 ** 64 - 256, 2 ** 32]))
        self.emit(r.choice(["sn", "sn", "sc"]), scn, ("V", s), ("V", q), thr, bs)
        self.emit("nx", scn, r.choice([0, 1, 2, 3, 5]))
        if self.chance(0.7):
            # reconfigure the sequence under the live scanner with a wider motif
            s2 = self.make_motif(False, w + r.randint(1, 40), route="cr", clean=True)
            sc = self.slot()
            self.emit("ca", sc, s2, ("V", q))
            self.emit("mx", sc)
        self.emit("nx", scn, "*")
        self.emit("nx", scn, 1)
        if self.chance(0.5):
            scn2 = self.slot()
            self.emit("sn", scn2, ("V", s), ("V", q), thr, r.choice([None, I(4), I(64)]))
            self.emit("nx", scn2, "*")

    def file_text(self, fmt, protein, nrec, corrupt):
        r = self.r
        al = (PROT if protein else DNA)[:-1]
        out = []
        for k in range(nrec):
            width = r.randint(1, 8)
            name = "M%05d.%d" % (r.randint(0, 99999), r.randint(1, 3))
            desc = r.choice(["", "GATA6", "some description", "x y  z"])
            cols = {c: [r.randint(0, 30) for _ in range(width)] for c in al}
            for i in range(width):
                if all(cols[c][i] == 0 for c in al):
                    cols[al[0]][i] = 1
            if fmt == "jaspar":
                out.append(">%s%s\n" % (name, " " + desc if desc else ""))
                for c in "ACGT":
                    out.append(" ".join("%*d" % (r.randint(1, 5), x) for x in cols[c]) + "\n")
            elif fmt == "jaspar16":
                out.append(">%s%s\n" % (name, "\t" + desc if desc else ""))
                for c in al:
                    out.append("%s  [ %s ]\n" % (c, " ".join("%*d" % (r.randint(1, 5), x) for x in cols[c])))
            elif fmt == "uniprobe":
                out.append(name + "\n")
                tot = [sum(cols[c][i] for c in al) for i in range(width)]
                for c in al:
                    out.append("%s:\t%s\n" % (c, "\t".join("%.4f" % (cols[c][i] / tot[i]) for i in range(width))))
                if self.chance(0.7):
                    out.append("\n")
            else:
                if k == 0 and self.chance(0.5):
                    out.append("VV  TRANSFAC MATRIX TABLE, Release 9.2\nXX\n//\n")
                if self.chance(0.8):
                    out.append("AC  %s\nXX\n" % name)
                if self.chance(0.6):
                    out.append("ID  id_%s\nXX\n" % name)
                if self.chance(0.5):
                    out.append("NA  %s\nXX\n" % (desc.split(" ")[0] or "nm"))
                if self.chance(0.4):
                    out.append("DE  %s\nXX\n" % (desc or "descr"))
                order = list(al)
                if self.chance(0.3):
                    r.shuffle(order)
                out.append("P0  " + "".join("%7s" % c for c in order) + "\n")
                frac = self.chance(0.15)
                for i in range(width):
                    vals = ["%7s" % (("%.1f" % (cols[c][i] + 0.5)) if frac and c == order[0] else cols[c][i]) for c in order]
                    out.append("%02d  %s      N\n" % (i + 1, "".join(vals)))
                out.append("XX\n//\n")
        text = "".join(out)
        if corrupt == "trunc" and text:
            text = text[:r.randrange(len(text))]
        elif corrupt == "garble" and text:
            i = r.randrange(len(text))
            text = text[:i] + r.choice(["x", "-", "[", "\t", ">", ".", "e"]) + text[i + 1:]
        elif corrupt == "dropline":
            lines = text.splitlines(True)
            if lines:
                del lines[r.randrange(len(lines))]
            text = "".join(lines)
        elif corrupt == "crlf":
            text = text.replace("\n", "\r\n")
        elif corrupt == "binary":
            text = text + "\udcff"
        return text.encode("utf-8", "surrogateescape")

    def t_load(self):
        r = self.r
        protein = self.chance(0.25)
        fmt = r.choice(["jaspar", "jaspar16", "uniprobe", "transfac"])
        if fmt == "jaspar" and protein and self.chance(0.8):
            protein = False
        corrupt = r.choice([None, None, None, None, "trunc", "garble", "dropline", "crlf", "binary"])
        data = self.file_text(fmt, protein, r.randint(0, 4) if self.chance(0.9) else r.randint(20, 60), corrupt)
        mode = r.choice(["p", "pb", "pP", "b", "b", "r1", "r2", "r7", "r64", "r8191", "r8192", "r100000", "r%d" % r.randint(1, 300)])
        if self.chance(0.35):
            # a real file on disk, already used before load() sees it: the loader goes on from there
            n = len(data)
            nl = data.count(b"\n")
            # positions: start, a record boundary (start of a later record), anywhere, end
            marks = [i for i in range(1, n) if data[i - 1:i] == b"\n" and (data[i:i + 1] == b">" or data[i - 3:i] == b"//\n" or data[i - 2:i] == b"\n\n")]
            k = r.choice([0, n, r.randint(0, n)] + (marks * 3 if marks else []))
            mode = r.choice(["fb%d" % k, "fb%d" % k, "fu%d" % k, "fk%d" % k, "fz%d" % k, "fn%d" % r.randint(0, nl + 1), "fe", "fx"])
        if not protein and self.chance(0.2):
            # a file object that misbehaves on a later read(): raises, returns non-bytes / too much, closes itself
            # every kind of failure (since e7689c9 the loader raises the exception of read() itself): KeyError,
            # PermissionError with errno, OSError without errno, str / None instead of bytes, too many bytes, a file
            # that closes itself (ValueError from then on)
            what = r.choice("pmkosncpm")
            # 1000: the fault never fires - what is exercised then is the iteration going on after *parse* errors
            kth = r.choice([2, 2, 3, 4, 5, 7, 1000])
            chunk = r.choice([1, 5, 20, 64, 300, 8192])
            mode = "X%s%dc%d" % (what, kth, chunk)
        fmt_arg = S(fmt) if fmt != "jaspar" or self.chance(0.5) else None
        ld = self.slot()
        self.emit(r.choice(["ld", "ld", "lc"]), ld, mode, data.hex() or "-", fmt_arg, B(protein) if protein or self.chance(0.3) else None)
        if corrupt in (None, "crlf") and self.chance(0.7):
            # use a loaded motif like any other
            s = self.slot()
            self.emit("gl", s, ld, 0, "s")
            q, n = self.make_seq(protein, r.choice([20, 33, 64, 100]))
            sc = self.slot()
            self.emit("ca", sc, s, ("V", q))
            self.use_scores(sc)
            if fmt != "uniprobe" and self.chance(0.5):
                c, w, s2 = self.slot(), self.slot(), self.slot()
                self.emit("gl", c, ld, 0, "c")
                self.emit("nz", w, c, self.pseudocount(protein))
                self.emit("lo", s2, w, self.background(protein), self.base())
                sc2 = self.slot()
                self.emit("ca", sc2, s2, ("V", q))
                self.emit("mx", sc2)

    def t_invalid(self):
        """every kind of invalid argument, one per op, around otherwise valid objects"""
        r = self.r
        protein = self.chance(0.3)
        width = r.randint(1, 6)
        c, w, s = self.slot(), self.slot(), self.slot()
        self.emit("cm", c, self.counts_dict(protein, width), B(protein))
        self.emit("nz", w, c, F(0.5))
        self.emit("lo", s, w, None, None)
        q, n = self.make_seq(protein, r.choice([0, 3, 40, 70]))
        for _ in range(r.randint(3, 7)):
            k = r.randrange(16)
            if k == 0:
                self.emit("cm", self.slot(), self.counts_dict(protein, width, bad=r.choice(["ragged", "empty", "neg", "big", "float", "column", "notdict"])), B(protein))
            elif k == 1:
                self.emit("cm", self.slot(), self.counts_dict(protein, width), r.choice([I(1), I(0), N_, S("yes"), F(1.0)]))
            elif k == 2:
                self.emit("nz", self.slot(), c, self.pseudocount(protein, bad=True))
            elif k == 3:
                self.emit("lo", self.slot(), w, self.background(protein, bad=True), self.base())
            elif k == 4:
                self.emit("lo", self.slot(), w, self.background(protein), self.base(bad=True))
            elif k == 5:
                # motif of the other alphabet on this sequence, and wrong object kinds
                s2 = self.make_motif(not protein, r.randint(1, 4), clean=True)
                self.emit("ca", self.slot(), s2, ("V", q))
                self.emit("ca", self.slot(), s, r.choice([("V", c), ("V", s), N_, S("ACGT"), ("V", w)]))
            elif k == 6:
                sc = self.slot()
                self.emit("ca", sc, s, ("V", q))
                self.emit("th", sc, r.choice([S("1"), N_, L([F(1.0)]), O_]))
            elif k == 7:
                self.emit(r.choice(["pv", "sv"]), s, F(0.5), r.choice([S("MEME"), S(""), S("tfm"), S("meme "), N_, I(1), S("tfmpvalue\u00e9")]))
            elif k == 8:
                self.emit(r.choice(["pv", "sv"]), s, r.choice([S("0.5"), N_, L([]), O_]), r.choice([None, S("meme"), S("tfmpvalue")]))
            elif k == 9:
                qd, _ = (q, n) if not protein else self.make_seq(False, 50)
                sd = s if not protein else self.make_motif(False, 3, clean=True)
                bs = r.choice([I(0), I(-1), I(-256), I(2 ** 64), I(2 ** 70), F(16.0), S("16"), N_, F_])
                self.emit("sn", self.slot(), ("V", sd), ("V", qd), r.choice([None, F(1.0)]), bs)
            elif k == 10:
                qd, _ = (q, n) if not protein else self.make_seq(False, 50)
                sd = s if not protein else self.make_motif(False, 3, clean=True)
                scn = self.slot()
                self.emit("sn", scn, ("V", sd), ("V", qd), r.choice([NAN, S("1"), N_, INF, ("f", 0xFFF0000000000000)]), r.choice([None, I(8)]))
                self.emit("nx", scn, "*")
            elif k == 11:
                # protein scanner / mixed alphabets
                qp, _ = self.make_seq(True, 30)
                sp = self.make_motif(True, 3, clean=True)
                self.emit("sn", self.slot(), ("V", sp), ("V", qp), None, None)
                qd, _ = self.make_seq(False, 30)
                self.emit("sn", self.slot(), ("V", sp), ("V", qd), None, None)
                self.emit("sn", self.slot(), ("V", qd), ("V", sp), None, None)
            elif k == 12:
                al = self.syms(protein)
                bad = r.choice([L([S("ACGT"), S("ACG")]), L([S("ACGU")]), L([S("acgt")]), L([I(1)]), I(5), N_, L([S("ACGT"), N_]),
                                S("AC!"), L([S("AC\u00e9")]), L([]), L([S("")]), L([S("ACGT"), S("ACGTA")])])
                self.emit("cr", self.slot(), bad, B(protein) if self.chance(0.5) else None, r.choice([None, I(3), L([])]))
            elif k == 13:
                self.emit("st", self.slot(), r.choice([S("acgt"), S("ACGU"), I(4), N_, ("y", b"ACGT"), S("AC GT"), S("ACGT\n"), S("\u00e9"), L([S("A")])]),
                          r.choice([None, F_, T_, I(1)]))
            elif k == 14:
                self.emit("rc", self.slot(), s)     # protein: RuntimeError
                self.emit("sm", self.slot(), r.choice([D([(S("A"), U([F(1.0)]))]), D([(S("A"), L([F(1.0)])), (S("C"), L([F(1.0), F(2.0)]))]),
                                                       D([]), D([(S("A"), L([S("x")]))]), N_, D([(S("A"), I(1))])]),
                          r.choice([None, self.background(protein, bad=True)]), B(protein))
            else:
                data = self.file_text("jaspar16", False, 1, None)
                mode = r.choice(["o", "t", "e", "x", "q", "r0", "b", "p"])
                fmt = r.choice([S("jaspar16"), S("JASPAR"), S(""), S("meme"), N_, I(1)]) if mode in ("b", "p") else S("jaspar16")
                prot = None
                if self.chance(0.2):
                    fmt, prot = S("jaspar"), T_
                if self.chance(0.1):
                    prot = r.choice([I(1), N_, S("no")])
                self.emit("ld", self.slot(), mode, data.hex(), fmt, prot)

    def t_lazy(self):
        """lazy loaders: several Loader objects, some on one shared file object, iterated in interleaved steps"""
        r = self.r
        files = []
        for _ in range(r.randint(1, 2)):
            fmt = r.choice(["jaspar", "jaspar16", "uniprobe", "transfac"])
            n = r.randint(0, 4) if self.chance(0.8) else r.randint(30, 70)     # beyond one 8 KiB buffer sometimes
            data = self.file_text(fmt, False, n, r.choice([None, None, None, "garble", "crlf"]))
            fl = self.slot()
            self.emit("fo", fl, data.hex() or "-")
            files.append((fl, fmt))
        loaders = []
        for _ in range(r.randint(2, 4)):
            fl, fmt = r.choice(files)
            ld = self.slot()
            f = S(fmt) if self.chance(0.9) else r.choice([S("jaspar16"), S("transfac"), None, S("bad")])
            # protein readers are not mirrored by lmcore: a protein loader is only asked for where it is refused
            prot = T_ if (f == S("jaspar") and self.chance(0.3)) else r.choice([None, F_, None])
            self.emit("ll", ld, fl, f, prot)
            loaders.append(ld)
            if self.chance(0.5):
                self.emit("ln", ld, r.choice([1, 1, 2]))
        for _ in range(r.randint(3, 8)):
            self.emit("ln", r.choice(loaders), r.choice([1, 1, 2, 3, 40]))
            if self.chance(0.25):
                # unrelated calls in between: a partly consumed loader keeps its place
                m = self.make_motif(False, r.randint(1, 5), clean=True)
                q, _ = self.make_seq(False, r.choice([20, 64]))
                sc = self.slot()
                self.emit("ca", sc, m, ("V", q))
                self.emit(r.choice(["mx", "am"]), sc)
        if self.chance(0.3):
            self.emit("dl", files[0][0])
            self.emit("ln", r.choice(loaders), 2)

    def t_two_scanners(self):
        """two scanners with motifs of different widths on one sequence, interleaved with each other and with calculate"""
        r = self.r
        q, n = self.make_seq(False, r.choice([64, 129, 200, 320, 700]))
        w1 = r.randint(2, 6)
        w2 = w1 + r.randint(3, 30)
        s1 = self.make_motif(False, w1, clean=True)
        s2 = self.make_motif(False, w2, route="cr", clean=True)
        first, second = (s1, s2) if self.chance(0.5) else (s2, s1)
        a, b = self.slot(), self.slot()
        thr = [r.choice([F(-5.0), F(0.0), F(-15.0), F(1.0)]) for _ in range(2)]
        bs = [r.choice([None, I(1), I(3), I(16), I(256)]) for _ in range(2)]
        self.emit(r.choice(["sn", "sc"]), a, ("V", first), ("V", q), thr[0], bs[0])
        self.emit("nx", a, r.choice([0, 1, 2]))
        self.emit(r.choice(["sn", "sc"]), b, ("V", second), ("V", q), thr[1], bs[1])     # reconfigures q under scanner a
        for _ in range(r.randint(2, 6)):
            k = r.random()
            if k < 0.4:
                self.emit("nx", a, r.choice([1, 2, 3]))
            elif k < 0.8:
                self.emit("nx", b, r.choice([1, 2, 3]))
            else:
                sc = self.slot()
                self.emit("ca", sc, r.choice([s1, s2]), ("V", q))
                self.emit(r.choice(["mx", "am"]), sc)
        self.emit("nx", a, "*")
        self.emit("nx", b, "*")
        if self.chance(0.3):
            self.emit("mt", s1, r.choice([2, 3]), r.choice(["r", "r", "s"]))
        if self.chance(0.1):
            # a matrix whose distribution was never asked for: first p-value while another thread calculates
            s3 = self.make_motif(False, r.randint(2, 6), clean=True)
            self.emit("mt", s3, 1, "f")
            self.emit("pv", s3, F(1.0), None)

    def t_equal(self):
        """==, copies and str: equal data from different routes, the number of sequences, other alphabets"""
        r = self.r
        protein = self.chance(0.25)
        width = r.randint(1, 5)
        seqs = [self.seq_text(protein, width, with_unknown=False) for _ in range(r.randint(1, 6))]
        m, c = self.slot(), self.slot()
        self.emit("cr", m, L(S(x) for x in seqs), B(protein) if protein or self.chance(0.5) else None, None)
        self.emit("gm", c, m, "c")
        # the same counts through a dictionary (the number of sequences may differ from the row sums)
        al = self.syms(protein)
        cols = D([(S(a), L(I(sum(1 for x in seqs if x[i] == a)) for i in range(width))) for a in al])
        c2, c3 = self.slot(), self.slot()
        self.emit("cm", c2, cols, B(protein))
        self.emit("cm", c3, self.counts_dict(protein, width), B(protein))
        for a, b in [(c, c2), (c2, c), (c2, c2), (c2, c3), (c, m)]:
            self.emit("eq", a, ("V", b))
        self.emit("eq", c, r.choice([N_, I(1), S("x"), L([]), ("V", 99)]))
        w1, w2, w3 = self.slot(), self.slot(), self.slot()
        pc = F(r.choice([0.1, 0.5, 1.0]))
        self.emit("nz", w1, c, pc)
        self.emit("nz", w2, c2, pc)
        self.emit("nz", w3, c2, F(0.75))
        for a, b in [(w1, w2), (w2, w3), (w1, c)]:
            self.emit("eq", a, ("V", b))
        s1, s2, s3 = self.slot(), self.slot(), self.slot()
        bg = self.background(protein)
        self.emit("lo", s1, w1, bg, None)
        self.emit("lo", s2, w2, bg, None)
        self.emit("lo", s3, w2, None, F(10.0))
        for a, b in [(s1, s2), (s2, s3), (s1, w1)]:
            self.emit("eq", a, ("V", b))
        self.emit("gm", self.slot(), m, "s")
        self.emit("eq", self.n - 1, ("V", s3))
        if not protein:
            rc, rc2 = self.slot(), self.slot()
            self.emit("rc", rc, s1)
            self.emit("rc", rc2, rc)
            self.emit("eq", rc2, ("V", s1))
            self.emit("eq", rc, ("V", s1))
        other = self.slot()
        self.emit("cm", other, self.counts_dict(not protein, width), B(not protein))
        self.emit("eq", c2, ("V", other))
        # copies: only the sequences have them
        self.emit("cp", self.slot(), c, "c")
        self.emit("cp", self.slot(), s1, "c")
        e, e2 = self.slot(), self.slot()
        self.emit("es", e, r.choice([S(self.seq_text(protein, r.randint(0, 40))), S("acgt"), I(3), S("AC GT")]), r.choice([None, B(protein), I(1)]))
        self.emit("cp", e2, e, r.choice(["m", "c"]))
        self.emit("sr", e2)
        self.emit("et", self.slot(), e2)

    def t_lifetime(self):
        """matrices and sequences lose their last name while scanners / scores / motif parts made from them live on"""
        r = self.r
        q, n = self.make_seq(False, r.choice([64, 129, 200, 320, 500]))
        w = r.randint(2, 9)
        s = self.make_motif(False, w, route=r.choice(["cm", "sm"]), clean=True)
        scn = self.slot()
        thr = r.choice([F(-5.0), F(0.0), F(-20.0), F(2.0)])
        self.emit(r.choice(["sn", "sc"]), scn, ("V", s), ("V", q), thr, r.choice([None, I(1), I(4), I(16)]))
        if self.chance(0.5):
            self.emit("nx", scn, r.choice([1, 2, 3]))
        victims = r.choice([[s], [s], [q], [s, q], [q, s]])
        for v in victims:
            self.emit("dl", v)
        self.emit("nx", scn, r.choice([1, 2, "*"]))
        self.emit("nx", scn, "*")
        # scores returned by calculate outlive matrix and sequence
        q2, _ = self.make_seq(False, r.choice([40, 100]))
        s2 = self.make_motif(False, r.randint(1, 6), route="cm", clean=True)
        sc = self.slot()
        self.emit("ca", sc, s2, ("V", q2))
        self.emit("dl", s2)
        self.emit("dl", q2)
        self.use_scores(sc)
        # parts of a motif outlive the motif; the reverse complement outlives the matrix
        m, c, p = self.slot(), self.slot(), self.slot()
        seqs = [self.seq_text(False, 5) for _ in range(4)]
        self.emit("cr", m, L(S(x) for x in seqs), None, None)
        self.emit("gm", c, m, "c")
        self.emit("gm", p, m, "s")
        self.emit("dl", m)
        w2, rc = self.slot(), self.slot()
        self.emit("nz", w2, c, F(0.5))
        self.emit("dl", c)
        self.emit("rc", rc, p)
        self.emit("dl", p)
        self.emit("ms", rc)
        scn2 = self.slot()
        q3, _ = self.make_seq(False, 90)
        self.emit("sn", scn2, ("V", rc), ("V", q3), F(-3.0), None)
        self.emit("dl", rc)
        self.emit("dl", q3)
        self.emit("nx", scn2, "*")

    def history(self):
        r = self.r.random()
        if r < 0.26:
            self.t_chain()
        elif r < 0.50:
            self.t_reuse()
        elif r < 0.62:
            self.t_scan()
        elif r < 0.69:
            self.t_lifetime()
        elif r < 0.74:
            self.t_equal()
        elif r < 0.79:
            self.t_lazy()
        elif r < 0.84:
            self.t_two_scanners()
        elif r < 0.93:
            self.t_load()
        else:
            self.t_invalid()
        return ";".join(self.ops)


def generate(seed, n, tier):
    out = []
    for i in range(n):
        g = Gen(random.Random("c17-%d-%d" % (seed, i)), tier)
        out.append("g%d h=%s" % (i, g.history()))
    return out
