# C18 harness: generator + implementation driver, run inside `lmpy py` (embedded
# CPython with lightmotif.lib built from the repository's working tree).
#
#   C18_ARGS="gen --seed S --n N --tier T"   -> input lines on stdout
#   C18_ARGS="run"                           -> stdin input lines -> "<line> => <observation>"
#
# Input line:   <id> cls=<enc|striped|count|weight|scoring|dist|scores> prot=<0|1> key=value...
# Observation:  obj=<logical content, obtained from the constructor input> LM=<L>,<M>
#               len=<outcome> get=<i:outcome;...> views=<W>@<view>|...
# The logical content is computed here from the *inputs* of the constructors (never from
# the object under test): symbol indices of the string, the dictionary given to the
# matrix constructors, and for derived objects (weights, scores, survival function) an
# IEEE re-computation in the order of operations of the core library.
import os
import struct
import sys
import random

DNA = "ACTGN"
PROT = "ACDEFGHIKLMNPQRSTVWYX"
LANES = 32


def out(s):
    sys.stdout.write(s + "\n")


# ------------------------------------------------------------------ IEEE helpers
def f32(x):
    return struct.unpack("<f", struct.pack("<f", x))[0]


def f32bits(x):
    return struct.unpack("<I", struct.pack("<f", x))[0]


def bits_f32(b):
    return struct.unpack("<f", struct.pack("<I", b))[0]


def f64bits(x):
    return struct.unpack("<Q", struct.pack("<d", x))[0]


def q8(k):
    """value token of a scoring-matrix cell: k eighths, or 'i' for -inf"""
    return float("-inf") if k == "i" else int(k) / 8.0


# ------------------------------------------------------------------ outcomes
def exc_token(e):
    n = type(e).__name__
    if n == "PanicException":
        return "P"
    return {"IndexError": "E1", "OverflowError": "E2", "TypeError": "E3", "BufferError": "E4"}.get(n, "E9:" + n)


def val_token(v, enc):
    if isinstance(v, list):
        return "r" + ",".join(str(enc(x)) for x in v)
    return "v" + str(enc(v))


BIG = True      # indices outside the ssize_t range are probed on every case (repaired defect F33)


def index_set(n, has_index):
    if not has_index:
        return [0, -1, 1]
    idx = list(range(-n - 2, n + 2))
    for e in (31, 32, 63, 64):
        idx += [2 ** e - 1, 2 ** e, 2 ** e + 1, -(2 ** e) - 1, -(2 ** e), -(2 ** e) + 1]
    if not BIG:
        idx = [i for i in idx if -2 ** 63 <= i < 2 ** 63]
    return idx


class _Idx(object):
    """an integer-like index (operator.index protocol), as accepted by list/tuple"""

    def __init__(self, v):
        self.v = v

    def __index__(self):
        return self.v


def observe_index(obj, n_logical, has_index, enc):
    try:
        ln = "v%d" % len(obj)
    except BaseException as e:
        ln = exc_token(e)
    got = []
    probes = [(i, i) for i in index_set(n_logical, has_index)]
    if has_index:
        # other spellings of an integer index: bool (a subclass of int) and __index__ objects
        probes += [(1, True), (0, False), (-1, _Idx(-1)), (n_logical, _Idx(n_logical)), (0, _Idx(0))]
    for i, key in probes:
        try:
            got.append("%d:%s" % (i, val_token(obj[key], enc)))
        except BaseException as e:
            got.append("%d:%s" % (i, exc_token(e)))
    return "len=%s get=%s" % (ln, ";".join(got))


def rows_token(rows):
    if not rows:
        return ""
    return "/".join(",".join(str(x) for x in r) if r else "-" for r in rows)


def observe_view(obj, alloc_bytes, held=None):
    """shape!strides!itemsize!format!ndim!nbytes!readonly!tolist!bytes!xchk
    held: a memoryview exported EARLIER and kept alive (read instead of a fresh one, not released)"""
    try:
        mv = held if held is not None else memoryview(obj)
    except BaseException as e:
        return exc_token(e)
    try:
        shape, strides, fmt, isz = mv.shape, mv.strides, mv.format, mv.itemsize
        head = "%s!%s!%d!%s!%d!%d!%d" % (",".join(map(str, shape)), ",".join(map(str, strides)), isz, fmt,
                                       mv.ndim, mv.nbytes, 1 if mv.readonly else 0)
        # never read outside the allocation the harness knows the object owns
        empty = any(s == 0 for s in shape)
        lo = sum((s - 1) * st for s, st in zip(shape, strides) if st < 0 and s > 0)
        hi = sum((s - 1) * st for s, st in zip(shape, strides) if st > 0 and s > 0) + isz
        known = {("B", 1): (lambda x: x), ("f", 4): f32bits, ("d", 8): f64bits}
        if (fmt, isz) not in known or mv.ndim not in (1, 2) or (not empty and (lo < 0 or hi > alloc_bytes)):
            return head + "!unsafe!unsafe!1"
        enc = known[(fmt, isz)]
        tl = mv.tolist()
        if mv.ndim == 1:
            tl = [tl]
        raw = mv.tobytes()
        unp = {1: "<%dB", 4: "<%dI", 8: "<%dQ"}[isz]
        items = struct.unpack(unp % (len(raw) // isz), raw[:(len(raw) // isz) * isz])
        # element access through the view must agree with tolist(), and the view must keep
        # its exporter alive (Py_buffer.obj = the object)
        x = 1 if mv.obj is obj else 0
        if mv.ndim == 1:
            for i in range(shape[0]):
                if enc(mv[i]) != enc(tl[0][i]):
                    x = 0
        else:
            for i in range(shape[0]):
                for j in range(shape[1]):
                    if enc(mv[i, j]) != enc(tl[i][j]):
                        x = 0
        return "%s!%s!%s!%d" % (head, rows_token([[enc(v) for v in r] for r in tl]),
                                ",".join(str(v) for v in items) if items else "", x)
    except BaseException as e:
        return "E9:view-" + type(e).__name__
    finally:
        if held is None:
            mv.release()


# ------------------------------------------------------------------ buffer address
def buffer_address(obj):
    """address handed out by __getbuffer__ (the export is released at once); None when
    ctypes is not available in the embedded interpreter"""
    api = _raw_api()
    if api is None:
        return None
    ctypes, PyBuffer, get, rel = api
    try:
        b = PyBuffer()
        get(obj, ctypes.byref(b), 0x18)   # PyBUF_STRIDES
        a = b.buf
        rel(ctypes.byref(b))
        return a
    except BaseException:
        return None


# ------------------------------------------------------------------ raw buffer requests
_RAW = {}


def _raw_api():
    if "api" in _RAW:
        return _RAW["api"]
    try:
        import ctypes

        class PyBuffer(ctypes.Structure):
            _fields_ = [("buf", ctypes.c_void_p), ("obj", ctypes.c_void_p), ("len", ctypes.c_ssize_t),
                        ("itemsize", ctypes.c_ssize_t), ("readonly", ctypes.c_int), ("ndim", ctypes.c_int),
                        ("format", ctypes.c_char_p), ("shape", ctypes.POINTER(ctypes.c_ssize_t)),
                        ("strides", ctypes.POINTER(ctypes.c_ssize_t)), ("suboffsets", ctypes.POINTER(ctypes.c_ssize_t)),
                        ("internal", ctypes.c_void_p)]
        get = ctypes.pythonapi.PyObject_GetBuffer
        get.argtypes = [ctypes.py_object, ctypes.c_void_p, ctypes.c_int]
        get.restype = ctypes.c_int
        rel = ctypes.pythonapi.PyBuffer_Release
        rel.argtypes = [ctypes.c_void_p]
        rel.restype = None
        _RAW["api"] = (ctypes, PyBuffer, get, rel)
    except Exception:
        _RAW["api"] = None
    return _RAW["api"]


RAW_FLAGS = [0x0, 0x1, 0x4, 0x8, 0x18, 0x1c, 0x11c, 0x11d, 0x38, 0x39, 0x58, 0x98, 0x100, 0x1d]


def observe_raw(obj, line):
    """PyObject_GetBuffer(obj, &view, flags) for explicit flags (memoryview always asks for
    PyBUF_FULL_RO): per request  flags:E<n>  or
    flags:len/itemsize/readonly/ndim/format|N/shape|N/strides|N/suboffsets-null/internal-null/
          view.obj-is-exporter/refcount-delta-while-exported/refcount-delta-after-release
    plus  null:<outcome>  for a NULL view pointer.  Nothing is read through the buffer."""
    api = _raw_api()
    if api is None:
        return "NA"
    ctypes, PyBuffer, get, rel = api
    import zlib
    h = zlib.crc32(line.encode())
    flags = RAW_FLAGS + [h & 0x1ff, (h >> 9) & 0x1ff, (h >> 18) & 0x1ff]
    out = []
    for fl in flags:
        b = PyBuffer()
        r0 = sys.getrefcount(obj)
        try:
            get(obj, ctypes.byref(b), fl)
        except BaseException as e:
            out.append("%d:%s" % (fl, exc_token(e)))
            continue
        nd = b.ndim
        lst = lambda p: ",".join(str(p[i]) for i in range(nd)) if p else "N"
        tok = "%d/%d/%d/%d/%s/%s/%s/%d/%d/%d/%d" % (
            b.len, b.itemsize, b.readonly, nd, b.format.decode() if b.format is not None else "N",
            lst(b.shape) if nd <= 4 else "?", lst(b.strides) if nd <= 4 else "?", 0 if b.suboffsets else 1,
            1 if b.internal is None else 0, 1 if b.obj == id(obj) else 0, sys.getrefcount(obj) - r0)
        rel(ctypes.byref(b))
        out.append("%d:%s/%d" % (fl, tok, sys.getrefcount(obj) - r0))
    try:
        get(obj, None, 0)
        out.append("null:granted")
    except BaseException as e:
        out.append("null:" + exc_token(e))
    return "|".join(out)


# ------------------------------------------------------------------ construction
def stride(size, cols):
    return ((cols * size + 31) // 32) * 32 // size


def encode(seq, prot):
    abc = PROT if prot else DNA
    return [abc.index(c) for c in seq]


def parse_rows(tok):
    if tok in ("", "-"):
        return []
    return [[c for c in r.split(",")] for r in tok.split("/")]


def columns_dict(rows, abc, omit, conv):
    d = {}
    for k, s in enumerate(abc):
        if s in omit:
            continue
        d[s] = [conv(r[k]) for r in rows]
    return d


def write_motif_file(fmt, name, rows):
    """one record of a DNA count matrix (rows of A,C,T,G,N counts) in a motif file format"""
    col = lambda k: [r[k] for r in rows]
    a, c, t, g = col(0), col(1), col(2), col(3)
    if fmt == "jaspar":
        # legacy JASPAR: header, then the A, C, G, T counts as four bare lines of numbers
        return ">%s demo\n" % name + "".join(" ".join("%3d" % x for x in v) + "\n" for v in (a, c, g, t))
    if fmt == "jaspar16":
        return ">%s demo motif\n" % name + "".join("%s [ %s ]\n" % (s, " ".join(str(x) for x in v))
                                                    for s, v in (("A", a), ("C", c), ("G", g), ("T", t)))
    if fmt == "transfac":
        body = "".join("%02d\t%d.0\t%d.0\t%d.0\t%d.0\n" % (i + 1, a[i], c[i], g[i], t[i]) for i in range(len(rows)))
        return "AC %s\nXX\nID %s\nXX\nDE %s demo\nPO\tA\tC\tG\tT\n%sXX\n//\n" % (name, name, name, body)
    raise ValueError(fmt)


def motif_from_source(lib, f, prot):
    """a Motif built through another construction path than the class constructors:
    src=create (seqs=...) or src=load:<format>[:path] (rows= count rows, DNA);
    returns (motif, count rows)"""
    abc = PROT if prot else DNA
    src = f["src"]
    if src == "create":
        seqs = f["seqs"].split(",")
        W = len(seqs[0])
        rows = [[sum(1 for q in seqs if q[i] == a) for a in abc] for i in range(W)]
        return lib.create(tuple(seqs) if f.get("tup") == "1" else seqs, protein=bool(prot)), rows
    kind, fmt = src.split(":")[0], src.split(":")[1]
    rows = [[int(c) for c in r] for r in parse_rows(f.get("rows", ""))]
    nth = int(f.get("nth", "0"))
    other = [[1, 2, 3, 4, 0], [4, 3, 2, 1, 0]]
    recs = [("MX%04d" % i, rows if i == nth else other) for i in range(nth + 1 if fmt == "jaspar" else 2 + nth)]
    if fmt == "jaspar":
        recs = recs[-1:]        # the legacy JASPAR reader is exercised with one record per file
        nth_ = 0
    else:
        nth_ = nth
    text = "".join(write_motif_file(fmt, n, r) for n, r in recs).encode()
    import io
    if src.endswith(":path"):
        import tempfile
        with tempfile.NamedTemporaryFile("w+b", suffix="." + fmt) as fh:
            fh.write(text)
            fh.flush()
            motifs = list(lib.load(fh.name, fmt))
    else:
        motifs = list(lib.load(io.BytesIO(text), fmt))
    return motifs[nth_], rows


def core_matrices(prot, rows=None, seqs=None):
    """(weights, scores) of the core library for a count matrix — counts.to_freq(0).to_weight(None)
    and .to_scoring() — rendered by the lmcore oracle of pyharness (IEEE bit patterns)"""
    import lmcore
    cm = lmcore.count_from_seqs(bool(prot), seqs) if seqs is not None else lmcore.count_new(bool(prot), rows)
    wm = lmcore.to_weight(lmcore.to_freq(cm, "S", [f32bits(0.0)]))
    sm = lmcore.to_scoring(wm)
    tab = lambda txt: [[int(x) for x in r.split(",")] for r in txt.split(":")[-1].split("/")] if not txt.endswith(":-") else []
    return tab(lmcore.content(wm)), tab(lmcore.content(sm))


def make_scoring(lib, f, prot):
    abc = PROT if prot else DNA
    if "src" in f:
        motif, rows = motif_from_source(lib, f, prot)
        _, logical = core_matrices(prot, rows)
        pssm = motif.pssm
        if f.get("rc") == "1":
            pssm = pssm.reverse_complement()
            logical = [[r[p] for p in (2, 3, 0, 1, 4)] for r in reversed(logical)]
        return pssm, logical
    rows = parse_rows(f.get("rows", ""))
    omit = f.get("omit", "")
    if "bg" in f:       # background frequencies as f32 bit patterns, one per symbol (wildcard included)
        bgd = dict((s, bits_f32(int(b))) for s, b in zip(abc, f["bg"].split(",")))
        pssm = lib.ScoringMatrix(columns_dict(rows, abc, omit, q8), bgd, protein=bool(prot))
    else:
        pssm = lib.ScoringMatrix(columns_dict(rows, abc, omit, q8), protein=bool(prot))
    logical = [[f32bits(0.0 if abc[k] in omit else q8(r[k])) for k in range(len(abc))] for r in rows]
    if f.get("rc") == "1":
        pssm = pssm.reverse_complement()
        perm = [2, 3, 0, 1, 4]
        logical = [[r[p] for p in perm] for r in reversed(logical)]
    return pssm, logical


def scan_pssm(lib, M):
    """a DNA motif of M rows with some structure, for live Scanners"""
    pat = [[1.0, 0.0, -1.0, 0.5], [0.0, 1.0, 0.5, -1.0], [-1.0, 0.5, 1.0, 0.0]]
    return lib.ScoringMatrix({s: [pat[i % 3][k] for i in range(M)] for k, s in enumerate("ACTG")})


def reconfigure(lib, obj, op, prot, scanners):
    """one history step on a StripedSequence: c<M> calculate, s<M> new live Scanner, n advance
    every live Scanner, returns the motif width that reconfigured the sequence (or None)"""
    if op.startswith("c"):
        zero_pssm(lib, int(op[1:]), prot).calculate(obj)
        return int(op[1:])
    if op.startswith("s") and not prot:
        M = int(op[1:])
        scanners.append(lib.Scanner(scan_pssm(lib, M), obj, 0.5, 1 + M % 3))
        return M
    if op == "n":
        for sc in scanners:
            next(sc, None)
    return None


def weights_logical(rows, K):
    """CountMatrix::to_freq(0) then FrequencyMatrix::to_weight(uniform), in f32"""
    bg = [f32(1.0 / f32(float(K - 1))) if k != K - 1 else 0.0 for k in range(K)]
    res = []
    for r in rows:
        dst = [f32(float(c)) for c in r]
        s = 0.0
        for x in dst:
            s = f32(s + x)
        dst = [f32(x / s) if s != 0.0 or x != 0.0 else float("nan") for x in dst]
        res.append([f32bits(0.0 if b == 0.0 else f32(x / b)) for x, b in zip(dst, bg)])
    return res


def uniform_bg(K):
    return [f32(1.0 / f32(float(K - 1))) if k != K - 1 else 0.0 for k in range(K)]


def dist_logical(logical_bits, K, bg):
    """ScoreDistribution::from(pssm) (dist.rs as repaired: fractional scale when the score
    range exceeds CDF_RANGE, f64 offset, last entry clipped to 1): the survival function,
    in f64, same order of operations; bg = background frequencies (f32 values)"""
    import math
    rows = [[bits_f32(b) for b in r] for r in logical_bits]
    fin = [x for r in rows for x in r if x not in (float("inf"), float("-inf"))]
    small, large = min(fin), max(fin)
    if small == large:
        small = large - 1.0
    offset = float(math.floor(small))
    scale = float(math.floor(1000.0 / (large - offset)))
    if scale == 0.0:
        scale = 1000.0 / (large - offset)
    I32MIN = -2 ** 31

    def rnd(x):          # f64::round (half away from zero) then `as i32` (saturating, NaN -> 0)
        if x != x:
            return 0
        if x == float("inf"):
            return 2 ** 31 - 1
        if x == float("-inf"):
            return I32MIN
        r = math.floor(abs(x) + 0.5) if abs(x) < 2.0 ** 52 else abs(x)
        r = r if x >= 0 else -r
        return max(I32MIN, min(2 ** 31 - 1, int(r)))
    data = [[rnd((x - offset) * scale) for x in r] for r in rows]
    rng_ = 1000
    size = len(data) * rng_ + 1
    old = [0.0] * size
    new = [0.0] * size
    new[0] = 1.0
    for i, row in enumerate(data):
        mx = i * rng_
        old, new = new, old
        for k in range(mx + rng_ + 1):
            new[k] = 0.0
        for a in range(K):
            s = row[a]
            if s != I32MIN:
                b = bg[a]
                for k in range(mx + 1):
                    o = old[k]
                    if o != 0.0:
                        new[k + s] += o * b
    sf = new
    sf[-1] = min(sf[-1], 1.0)
    for i in range(len(sf) - 2, -1, -1):
        p = sf[i] + sf[i + 1]
        sf[i] = min(p, 1.0)
    return [f64bits(x) for x in sf]


def scores_logical(logical_bits, codes, K):
    """score of every cell of the striped score matrix in position order: cell p reads the
    symbols p..p+M-1 of the sequence continued with the wildcard"""
    m = [[struct.unpack("<f", struct.pack("<I", b))[0] for b in r] for r in logical_bits]
    L, M = len(codes), len(m)
    R = (L + LANES - 1) // LANES
    res = []
    for p in range(R * LANES):
        s = 0.0
        for j in range(M):
            q = p + j
            sym = codes[q] if q < L else K - 1
            s = f32(s + m[j][sym])
        res.append(f32bits(s))
    return res


def zero_pssm(lib, M, prot):
    abc = PROT if prot else DNA
    return lib.ScoringMatrix({s: [0.0] * M for s in abc[:-1]}, protein=bool(prot))


RAWOBJ = [None, ""]


def run_case(lib, line):
    RAWOBJ[0], RAWOBJ[1] = None, ""
    toks = line.split(" ")
    f = dict(t.split("=", 1) for t in toks[1:] if "=" in t)
    cls = f["cls"]
    prot = int(f.get("prot", "0"))
    K = 21 if prot else 5
    ident = lambda x: x
    seq = f.get("seq", "-")
    seq = "" if seq == "-" else seq

    if cls == "enc":
        obj = lib.EncodedSequence(seq, bool(prot))
        if f.get("copy") == "1":
            obj = obj.copy()
        elif f.get("copy") == "2":
            import copy
            obj = copy.copy(obj)
        codes = encode(seq, prot)
        RAWOBJ[0] = obj
        return "obj=seq:%s %s views=@%s" % (",".join(map(str, codes)), observe_index(obj, len(codes), True, ident),
                                            observe_view(obj, len(codes)))

    if cls == "striped":
        codes = encode(seq, prot)
        L = len(codes)
        R = (L + LANES - 1) // LANES
        pos = codes + [K - 1] * (R * LANES - L)
        if f.get("via") == "fn":
            obj = lib.stripe(seq, protein=bool(prot))
        else:
            obj = lib.EncodedSequence(seq, bool(prot)).stripe()
        wraps, views, wrap, scanners = [], [], 0, []
        # op "h": export a view NOW and keep it; after every later reconfiguration the OLD view is
        # read again, but only while the buffer address handed out by __getbuffer__ is still the one
        # of the export (same allocation: safe to read; a moved buffer = finding F24, never read)
        held, held_addr = None, None

        def drop_held():
            nonlocal held, held_addr
            if held is not None:
                held.release()
            held, held_addr = None, None

        for op in f.get("hist", "v").split(";"):
            if op == "v":
                views.append("%s@%s" % (",".join(map(str, wraps)), observe_view(obj, (R + wrap) * LANES)))
            elif op == "h":
                drop_held()
                a = buffer_address(obj)
                if a is not None:
                    held, held_addr = memoryview(obj), a
            elif op == "k":
                drop_held()
                obj = obj.copy()
            elif op == "K":
                import copy
                drop_held()
                obj = copy.copy(obj)
            else:
                M = reconfigure(lib, obj, op, prot, scanners)
                if M is not None:
                    wraps.append(M)
                    wrap = max(wrap, M - 1)
                    if held is not None:
                        if buffer_address(obj) == held_addr:
                            views.append("%s@%s" % (",".join(map(str, wraps)),
                                                    observe_view(obj, (R + wrap) * LANES, held=held)))
                        else:
                            drop_held()
        drop_held()
        RAWOBJ[0] = obj
        RAWOBJ[1] = ",".join(map(str, wraps))
        return "obj=striped:%d:%s:0 LM=%d,0 %s views=%s" % (R, ",".join(map(str, pos)), L,
                                                             observe_index(obj, 0, False, ident), "|".join(views))

    if cls == "alloc":
        # a view stays exported while the sequence is reconfigured; only the buffer address
        # is observed (the stale view is never read)
        codes = encode(seq, prot)
        R = (len(codes) + LANES - 1) // LANES
        obj = lib.stripe(seq, protein=bool(prot))
        view = memoryview(obj)
        moves = []
        a = buffer_address(obj)
        for op in f.get("hist", "").split(";"):
            if op.startswith("c"):
                zero_pssm(lib, int(op[1:]), prot).calculate(obj)
                b = buffer_address(obj)
                moves.append("NA" if a is None or b is None else "1" if a != b else "0")
                a = b
        view.release()
        return "obj=alloc:%d avx2=%d moves=%s" % (R, 1 if lib.AVX2_SUPPORTED else 0, ",".join(moves))

    if cls in ("count", "weight"):
        abc = PROT if prot else DNA
        if "src" in f or "seqs" in f:
            if "src" not in f:
                f["src"] = "create"
            motif, rows = motif_from_source(lib, f, prot)
            cm = motif.counts
            wm = motif.pwm
            wlog, _ = core_matrices(prot, rows)
        else:
            rows = [[int(c) for c in r] for r in parse_rows(f.get("rows", ""))]
            cm = lib.CountMatrix(columns_dict(rows, abc, f.get("omit", ""), int), protein=bool(prot))
            for r in rows:
                for k, s in enumerate(abc):
                    if s in f.get("omit", ""):
                        r[k] = 0
            wm = None
            wlog = weights_logical(rows, K)
        if cls == "count":
            RAWOBJ[0] = cm
            return "obj=rows:%d:%s %s views=@%s" % (K, rows_token(rows), observe_index(cm, len(rows), True, ident),
                                                    observe_view(cm, 0))
        if wm is None:
            wm = cm.normalize()
        RAWOBJ[0] = wm
        return "obj=rows:%d:%s %s views=@%s" % (K, rows_token(wlog),
                                                observe_index(wm, len(rows), True, f32bits), observe_view(wm, 0))

    if cls == "scoring":
        pssm, logical = make_scoring(lib, f, prot)
        RAWOBJ[0] = pssm
        return "obj=rows:%d:%s %s views=@%s" % (K, rows_token(logical), observe_index(pssm, len(logical), True, f32bits),
                                                observe_view(pssm, len(logical) * stride(4, K) * 4))

    if cls == "dist":
        pssm, logical = make_scoring(lib, f, prot)
        d = pssm.score_distribution
        bg = [bits_f32(int(b)) for b in f["bg"].split(",")] if "bg" in f else uniform_bg(K)
        sf = dist_logical(logical, K, bg)
        if f.get("again") == "1":      # the cached distribution object must be the same data
            d = pssm.score_distribution
        RAWOBJ[0] = d
        return "obj=seq:%s %s views=@%s" % (",".join(map(str, sf)), observe_index(d, 0, False, f64bits),
                                            observe_view(d, len(sf) * 8))

    if cls == "scores":
        pssm, logical = make_scoring(lib, f, prot)
        codes = encode(seq, prot)
        L, M = len(codes), len(logical)
        sseq = lib.stripe(seq, protein=bool(prot))
        scanners = []
        for op in f.get("hist", "").split(";"):
            reconfigure(lib, sseq, op, prot, scanners)
        sc = pssm.calculate(sseq)
        reconfigure(lib, sseq, "n", prot, scanners)
        RAWOBJ[0] = sc
        if L < M:
            R, pos, maxi = 0, [], 0
        else:
            R, pos, maxi = (L + LANES - 1) // LANES, scores_logical(logical, codes, K), L + 1 - M
        return "obj=striped:%d:%s:%d LM=%d,%d %s views=@%s" % (
            R, ",".join(map(str, pos)), maxi, L, M, observe_index(sc, maxi, True, f32bits),
            observe_view(sc, R * LANES * 4))

    return "obj=unknown"


# ------------------------------------------------------------------ generator
SIZES = [0, 1, 2, 3, 31, 32, 33, 63, 64, 65, 95, 96, 97, 127, 128, 129]


def rand_len(rng, tier):
    r = rng.random()
    if r < 0.45:
        return rng.choice(SIZES)
    if r < 0.9:
        return rng.randrange(0, 200)
    return rng.randrange(200, 1300 if tier == "quick" else 5000)


def rand_seq(rng, n, prot):
    abc = PROT if prot else DNA
    w = rng.random()
    if w < 0.2:
        body = abc[:-1]
    else:
        body = abc
    return "".join(rng.choice(body) for _ in range(n)) or "-"


def rand_width(rng):
    r = rng.random()
    if r < 0.25:
        return rng.choice([1, 2, 3])
    if r < 0.8:
        return rng.randrange(1, 16)
    return rng.randrange(16, 72)


def rand_count_rows(rng, M, K):
    total = rng.choice([1, 2, 3, 4, 7, 8, 16, 20, 100])
    rows = []
    for _ in range(M):
        r = [0] * K
        for _ in range(total):
            r[rng.randrange(K if rng.random() < 0.1 else K - 1)] += 1
        rows.append(r)
    return rows


def rand_score_rows(rng, M, K):
    rows = []
    for _ in range(M):
        r = []
        for k in range(K):
            x = rng.random()
            if k == K - 1 and x < 0.7:
                r.append("i")
            elif x < 0.08:
                r.append("i")
            else:
                r.append(str(rng.randrange(-64, 65)))
        rows.append(r)
    return rows


def rand_background(rng, K):
    """None (uniform default) or background frequencies Background::new accepts: every entry in
    [0, 1] and the f32 sum (in symbol order) exactly 1.0 — which the real sum may exceed slightly"""
    r = rng.random()
    if r < 0.5:
        return None
    n = K - 1
    if r < 0.65:        # dyadic, non-uniform, no wildcard mass
        bg = [1.0 / n] * n if n == 4 else [1.0 / 32] * 16 + [1.0 / 8] * 4
        if n == 4:
            bg = [0.5, 0.25, 0.125, 0.125]
        rng.shuffle(bg)
        bg = bg + [0.0]
    elif r < 0.8:       # wildcard mass
        bg = ([0.25, 0.25, 0.25, 0.125] if n == 4 else [1.0 / 32] * 16 + [1.0 / 8] * 3 + [1.0 / 16]) + [1.0 / 8 if n == 4 else 1.0 / 16]
    else:               # real sum slightly above 1, f32 sum still 1.0: one entry bumped by an ulp or two
        bg = ([0.25] * 4 if n == 4 else [1.0 / 32] * 16 + [1.0 / 8] * 4) + [0.0]
        j = rng.randrange(n)
        bg[j] = bits_f32(f32bits(bg[j]) + rng.choice([1, 1, 2]))
    bg = [f32(x) for x in bg]
    tot = 0.0
    for x in bg:
        tot = f32(tot + x)
    if tot != 1.0 or any(not (0.0 <= x <= 1.0) for x in bg):
        return None
    return bg


def rand_omit(rng, abc):
    if rng.random() < 0.6:
        return ""
    return "".join(s for s in abc[1:] if rng.random() < 0.25)


def rand_source(rng, t, M, prot, K):
    """tokens of a Motif built by create() or load(): count rows (no all-zero row)"""
    if prot or rng.random() < 0.4:
        ns = rng.randrange(1, 9)
        t.append("src=create")
        t.append("seqs=" + ",".join(rand_seq(rng, M, prot).replace("N" if not prot else "\0", "A") if not prot
                                    else rand_seq(rng, M, prot) for _ in range(ns)))
        if rng.random() < 0.3:
            t.append("tup=1")
    else:
        fmt = rng.choice(["jaspar", "jaspar16", "transfac"])
        t.append("src=load:" + fmt + (":path" if rng.random() < 0.3 else ""))
        rows = rand_count_rows(rng, M, K)
        for r in rows:
            r[0] += r[K - 1] + (1 if sum(r[:K - 1]) == 0 else 0)     # the file formats have no wildcard column
            r[K - 1] = 0
        t.append("rows=" + rows_token(rows))
        if fmt != "jaspar" and rng.random() < 0.5:
            t.append("nth=1")


def gen(seed, n, tier):
    rng = random.Random(seed * 1000003 + 17)
    classes = ["enc"] * 3 + ["striped"] * 4 + ["count"] * 2 + ["weight"] * 2 + ["scoring"] * 4 + ["dist"] * 1 + ["scores"] * 4 + ["alloc"]
    for k in range(n):
        cls = rng.choice(classes)
        prot = 1 if rng.random() < 0.35 else 0
        abc = PROT if prot else DNA
        K = len(abc)
        t = ["g%d" % k, "cls=" + cls, "prot=%d" % prot]
        if cls not in ("striped", "dist", "alloc") and rng.random() < 0.1:
            t.append("big=1")
        if cls == "enc":
            t.append("seq=" + rand_seq(rng, rand_len(rng, tier), prot))
            r = rng.random()
            if r < 0.25:
                t.append("copy=1")
            elif r < 0.45:
                t.append("copy=2")       # copy.copy -> __copy__
        elif cls == "striped":
            t.append("seq=" + rand_seq(rng, rand_len(rng, tier), prot))
            t.append("via=" + rng.choice(["fn", "enc"]))
            ops = ["v"]
            if rng.random() < 0.5:
                ops.append("h")      # keep a view exported across the reconfigurations that follow
            for _ in range(rng.randrange(0, 6)):
                # calculate(), copy()/copy.copy(), a new live Scanner (DNA), advancing the live Scanners
                ops.append(rng.choice(["c%d" % rand_width(rng), "c%d" % rand_width(rng), "k", "K"] +
                                      ([] if prot else ["s%d" % rand_width(rng), "s%d" % rand_width(rng), "n", "n"])))
                if rng.random() < 0.8:
                    ops.append("v")
                if rng.random() < 0.15:
                    ops.append("h")
            t.append("hist=" + ";".join(ops))
        elif cls == "alloc":
            L = rng.choice([0, 1, 32, 33, 64, 65, 100, 320, 321, 640, 1000, rng.randrange(0, 1200)])
            t.append("seq=" + rand_seq(rng, L, prot))
            R = (L + 31) // 32
            cap = rng.choice([2 * R + 64 if R else 32, R + 32 if R else 0])   # generic / AVX2 arm
            ws = []
            for _ in range(rng.randrange(1, 5)):
                r = rng.random()
                # around the capacity reserved by stripe(), well inside it, far beyond it
                ws.append(max(1, cap - R + 1 + rng.choice([-1, 0, 1])) if r < 0.4 else
                          rng.randrange(1, max(2, cap - R + 1)) if r < 0.7 else rng.randrange(1, 200))
            t.append("hist=" + ";".join("c%d" % w for w in ws))
        elif cls in ("count", "weight"):
            M = rng.choice([0, 1, 1, 2, 3, 5, 8, 13, 20])
            if rng.random() < 0.4 and M > 0:
                rand_source(rng, t, M, prot, K)
            else:
                rows = rand_count_rows(rng, M, K)
                om = rand_omit(rng, abc)
                if cls == "weight":     # no all-zero row (0/0) once the omitted columns are gone
                    for r in rows:
                        if sum(c for c, s in zip(r, abc) if s not in om) == 0:
                            r[0] += 1
                t.append("rows=" + (rows_token(rows) or "-"))
                if om:
                    t.append("omit=" + om)
        elif cls == "scoring":
            M = rng.choice([0, 1, 1, 2, 3, 4, 7, 8, 9, 15, 30])
            if rng.random() < 0.3 and M > 0:
                rand_source(rng, t, M, prot, K)
            else:
                t.append("rows=" + (rows_token(rand_score_rows(rng, M, K)) or "-"))
                om = rand_omit(rng, abc)
                if om:
                    t.append("omit=" + om)
                bg = rand_background(rng, K) if rng.random() < 0.3 else None
                if bg:
                    t.append("bg=" + ",".join(str(f32bits(x)) for x in bg))
            if not prot and rng.random() < 0.3:
                t.append("rc=1")
        elif cls == "dist" and rng.random() < 0.2:
            rand_source(rng, t, rng.choice([1, 2, 3]), prot, K)
        elif cls == "dist":
            M = rng.choice([1, 1, 2, 3])
            rows = rand_score_rows(rng, M, K)
            rows[0][0] = str(rng.randrange(-64, 65))
            r = rng.random()
            if r < 0.2:         # score range beyond CDF_RANGE = 1000: fractional scale
                rows[rng.randrange(M)][rng.randrange(K - 1)] = str(rng.choice([8001, 8800, 16000, 80000, -9000, 12345]))
            elif r < 0.3:       # very large scores: the offset does not fit an i32
                big = rng.choice([24000000000, -24000000000, 32000000000])
                rows[0][0] = str(big)
                if rng.random() < 0.5:
                    rows[0][1] = str(big + 8 * rng.choice([256, 512, 1024]))
            elif r < 0.45:      # constant matrix: all the mass on the last entry
                v = str(rng.randrange(-64, 65))
                rows = [[v if k < K - 1 or rng.random() < 0.5 else "i" for k in range(K)] for _ in range(M)]
            t.append("rows=" + rows_token(rows))
            bg = rand_background(rng, K)
            if bg:
                t.append("bg=" + ",".join(str(f32bits(x)) for x in bg))
            if rng.random() < 0.3:
                t.append("again=1")
        elif cls == "scores":
            M = rand_width(rng) if rng.random() < 0.8 else rng.randrange(1, 6)
            L = rand_len(rng, tier)
            if rng.random() < 0.5:
                L = max(L, M + rng.randrange(0, 40))
            t.append("seq=" + rand_seq(rng, L, prot))
            if rng.random() < 0.2:
                rand_source(rng, t, M, prot, K)
            else:
                t.append("rows=" + rows_token(rand_score_rows(rng, M, K)))
            if rng.random() < 0.4:
                t.append("hist=" + ";".join(rng.choice(["c%d", "c%d", "s%d"] if not prot else ["c%d"]) % rand_width(rng)
                                            for _ in range(rng.randrange(1, 3))))
        out(" ".join(t))


def main():
    args = os.environ.get("C18_ARGS", "run").split()
    if args and args[0] == "gen":
        opt = dict(zip(args[1::2], args[2::2]))
        gen(int(opt.get("--seed", "1")), int(opt.get("--n", "100")), opt.get("--tier", "quick"))
        return
    from lightmotif import lib
    for line in sys.stdin:
        line = line.rstrip("\n")
        if not line.strip() or line.startswith("#"):
            continue
        try:
            obs = run_case(lib, line)
            if RAWOBJ[0] is not None:
                obs += " raw=%s@%s" % (RAWOBJ[1], observe_raw(RAWOBJ[0], line))
        except BaseException as e:
            obs = "ctor=" + exc_token(e) + ":" + str(e).replace(" ", "_")[:80]
        RAWOBJ[0] = None
        out(line + " => " + obs)
    sys.stdout.flush()


main()
