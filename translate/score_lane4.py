"""Translator for property C01: /repo source -> coq/score/GenLane4.v.

The SSE2 and the NEON f32 scoring kernels have the same shape: 16 symbols of a
sequence row are widened to four registers of four 32-bit lanes by two levels of
byte interleaving with zero, each symbol k adds `lut_k & (x == k)` to four
accumulators, and the accumulators are stored to 16 consecutive cells.  What
differs (and what a change can get wrong) is lane bookkeeping; that is read from
the source and written as data:

  * lightmotif/src/pli/platform/sse2.rs, `score_sse2`:
        let NAME = _mm_unpack{lo,hi}_epi8(SRC, zero);        the interleaving network
        let pK = _mm_castsi128_ps(_mm_cmpeq_epi32(xA, sym));
        sC = _mm_add_ps(sC, _mm_and_ps(lut, pK));             which register feeds which accumulator
        _mm_stream_ps(rowptr.add(OFF), sC);                   where each accumulator is stored
  * lightmotif/src/pli/platform/neon.rs, `score_f32_neon` (not compiled on an x86 host,
    so tied by this translator and the proof only):
        let NAME = vzipq_u8(SRC, vdupq_n_u8(0));              SRC = x | NAME.0 | NAME.1
        let xA = vreinterpretq_u32_u8(NAME.h);
        let pK = vceqq_u32(xA, sym);
        s.I = vaddq_f32(s.I, vreinterpretq_f32_u32(vandq_u32(lut, pK)));
        vst1q_f32_x4(rowptr, s);                              s.0..s.3 at offsets 0, 4, 8, 12

The recognised steps of the safe wrappers `Sse2::score_rows_into` and `Neon::score_f32_rows_into`
(wrap guard, `L < M || rows.is_empty()` early return, row-range assertion, resize, kernel call, any
other early exit) are written in source order as `sse2_wrapper` / `neon_wrapper`; the theorem
C01_wrapper_guards_as_modelled compares them with the order SimdModel.simd_guard models (for NEON
this is the only tie of the guards to the source).

For each accumulator the generated file gives the path of halves (false = low /
`.0`, true = high / `.1`) from the loaded register down to the register compared
for that accumulator, and the store offset.  That these put the score of every
column in its own cell is re-proved from the generated file on every run
(Sse2Proofs.lane4_layout_ok by vm_compute), and the extracted model compared with
the implementation is built from the same file.

Anything that does not have the expected shape makes `run()` return ok=False: the
obligation is then broken (no crash) and the previous file is kept.
"""
import os
import re
import sys

VERIF = os.path.dirname(os.path.dirname(os.path.abspath(__file__)))
REPO = os.environ.get("VERIF_REPO", "/repo").rstrip("/") or "/repo"   # same override as vlib/common.py
SSE2 = os.path.join(REPO, "lightmotif/src/pli/platform/sse2.rs")
NEON = os.path.join(REPO, "lightmotif/src/pli/platform/neon.rs")
OUT = os.path.join(VERIF, "coq", "score", "GenLane4.v")


class ParseError(Exception):
    pass


def _strip_comments(src):
    src = re.sub(r"/\*.*?\*/", " ", src, flags=re.S)
    return re.sub(r"//[^\n]*", "", src)


def _num(tok):
    tok = tok.strip().replace("_", "")
    return int(tok, 16) if tok.lower().startswith("0x") else int(tok)


def _function_body(src, name):
    m = re.search(r"\bfn\s+%s\b" % re.escape(name), src)
    if not m:
        raise ParseError("function %s not found" % name)
    i = src.index("{", m.end())
    # skip a `where` clause / generics: the body is the first brace at depth 0 after the signature
    depth = 0
    j = i
    while j < len(src):
        if src[j] == "{":
            depth += 1
        elif src[j] == "}":
            depth -= 1
            if depth == 0:
                return src[i + 1:j]
        j += 1
    raise ParseError("unbalanced braces in %s" % name)


def _require(body, name, items):
    for rx, what in items:
        if not re.search(rx, body):
            raise ParseError("%s: %s not found" % (name, what))


def _paths(name, tree, leaves):
    """tree: register -> (source register, half); leaves: accumulator index -> register."""
    out = []
    for a in sorted(leaves):
        reg = leaves[a]
        path = []
        seen = set()
        while reg != "x":
            if reg not in tree or reg in seen:
                raise ParseError("%s: register %s is not derived from the loaded row" % (name, reg))
            seen.add(reg)
            reg, half = tree[reg]
            path.append(half)
        path.reverse()
        out.append(path)
    return out


COMMON = [
    (r"for\s+i\s+in\s+rows\s*\.\s*clone\s*\(\s*\)", "row loop `for i in rows.clone()`"),
    (r"for\s+_\s+in\s+0\s*\.\.\s*pssm\s*\.\s*rows\s*\(\s*\)", "motif loop `for _ in 0..pssm.rows()`"),
    (r"for\s+k\s+in\s+0\s*\.\.\s*A\s*::\s*K\s*::\s*USIZE\s*\{", "symbol loop `for k in 0..A::K::USIZE`"),
    (r"let\s+mut\s+dataptr\s*=\s*seq\s*\.\s*matrix\s*\(\s*\)\s*\[\s*i\s*\]\s*\.\s*as_ptr\s*\(\s*\)\s*\.\s*add\s*\(\s*offset\s*\)\s*;",
     "dataptr = seq.matrix()[i] + offset"),
    (r"let\s+mut\s+pssmptr\s*=\s*pssm\s*\[\s*0\s*\]\s*\.\s*as_ptr\s*\(\s*\)\s*;", "pssmptr = pssm[0]"),
    (r"let\s+mut\s+rowptr\s*=\s*data\s*\[\s*0\s*\]\s*\.\s*as_mut_ptr\s*\(\s*\)\s*\.\s*add\s*\(\s*offset\s*\)\s*;",
     "rowptr = data[0] + offset"),
    (r"dataptr\s*=\s*dataptr\s*\.\s*add\s*\(\s*seq\s*\.\s*matrix\s*\(\s*\)\s*\.\s*stride\s*\(\s*\)\s*\)\s*;", "dataptr advance by one row"),
    (r"pssmptr\s*=\s*pssmptr\s*\.\s*add\s*\(\s*pssm\s*\.\s*stride\s*\(\s*\)\s*\)\s*;", "pssmptr advance by one row"),
    (r"rowptr\s*=\s*rowptr\s*\.\s*add\s*\(\s*data\s*\.\s*stride\s*\(\s*\)\s*\)\s*;", "rowptr advance by one row"),
]


def parse_sse2(src):
    name = "score_sse2"
    body = _function_body(src, name)
    _require(body, name, COMMON + [
        (r"for\s+offset\s+in\s*\(\s*0\s*\.\.\s*C\s*::\s*Quotient\s*::\s*USIZE\s*\)\s*\.\s*map\s*\(\s*\|\s*i\s*\|\s*i\s*\*\s*<\s*Sse2\s+as\s+Backend\s*>\s*::\s*Lanes\s*::\s*USIZE\s*\)",
         "column-block loop over C / 16 offsets"),
        (r"let\s+zero\s*=\s*_mm_setzero_si128\s*\(\s*\)\s*;", "zero register"),
        (r"let\s+x\s*=\s*_mm_load_si128\s*\(\s*dataptr\s+as\s+\*const\s+__m128i\s*\)\s*;", "load of the sequence row"),
        (r"let\s+sym\s*=\s*_mm_set1_epi32\s*\(\s*k\s+as\s+i32\s*\)\s*;", "sym = set1(k)"),
        (r"let\s+lut\s*=\s*_mm_load1_ps\s*\(\s*pssmptr\s*\.\s*add\s*\(\s*k\s*\)\s*\)\s*;", "lut = pssm row cell k"),
    ])
    tree = {}
    for m in re.finditer(r"let\s+(\w+)\s*=\s*_mm_unpack(lo|hi)_epi8\s*\(\s*(\w+)\s*,\s*zero\s*\)\s*;", body):
        if m.group(1) in tree:
            raise ParseError("%s: register %s defined twice" % (name, m.group(1)))
        tree[m.group(1)] = (m.group(3), m.group(2) == "hi")
    cmp_ = {}
    for m in re.finditer(r"let\s+p(\d+)\s*=\s*_mm_castsi128_ps\s*\(\s*_mm_cmpeq_epi32\s*\(\s*(\w+)\s*,\s*sym\s*\)\s*\)\s*;", body):
        cmp_[int(m.group(1))] = m.group(2)
    adds = {}
    for m in re.finditer(r"\bs(\d+)\s*=\s*_mm_add_ps\s*\(\s*s(\d+)\s*,\s*_mm_and_ps\s*\(\s*lut\s*,\s*p(\d+)\s*\)\s*\)\s*;", body):
        if m.group(1) != m.group(2):
            raise ParseError("%s: accumulator s%s is not updated in place" % (name, m.group(1)))
        if int(m.group(1)) in adds:
            raise ParseError("%s: accumulator s%s updated twice" % (name, m.group(1)))
        adds[int(m.group(1))] = int(m.group(3))
    accs = sorted(adds)
    if not accs or accs != list(range(1, len(accs) + 1)):
        raise ParseError("%s: accumulators are not s1..sn" % name)
    for a in accs:
        if not re.search(r"let\s+mut\s+s%d\s*=\s*_mm_setzero_ps\s*\(\s*\)\s*;" % a, body):
            raise ParseError("%s: accumulator s%d is not reset with _mm_setzero_ps" % (name, a))
        if adds[a] not in cmp_:
            raise ParseError("%s: p%d has no comparison" % (name, adds[a]))
    if len(cmp_) != len(accs):
        raise ParseError("%s: unused comparisons" % name)
    paths = _paths(name, tree, {a: cmp_[adds[a]] for a in accs})
    stores = {}
    for m in re.finditer(r"(_mm_stream_ps|_mm_store_ps|_mm_storeu_ps)\s*\(\s*rowptr\s*\.\s*add\s*\(\s*([0-9xXa-fA-F_]+)\s*\)\s*,\s*s(\d+)\s*\)\s*;", body):
        a = int(m.group(3))
        if a in stores:
            raise ParseError("%s: accumulator s%d stored twice" % (name, a))
        stores[a] = _num(m.group(2))
    if sorted(stores) != accs:
        raise ParseError("%s: not every accumulator is stored exactly once" % name)
    return dict(paths=paths, stores=[stores[a] for a in accs])


def parse_neon(src):
    name = "score_f32_neon"
    body = _function_body(src, name)
    _require(body, name, COMMON + [
        (r"for\s+offset\s+in\s*\(\s*0\s*\.\.\s*C\s*::\s*Quotient\s*::\s*USIZE\s*\)\s*\.\s*map\s*\(\s*\|\s*i\s*\|\s*i\s*\*\s*<\s*Neon\s+as\s+Backend\s*>\s*::\s*Lanes\s*::\s*USIZE\s*\)",
         "column-block loop over C / 16 offsets"),
        (r"let\s+x\s*=\s*vld1q_u8\s*\(\s*dataptr\s+as\s+\*const\s+u8\s*\)\s*;", "load of the sequence row"),
        (r"let\s+sym\s*=\s*vdupq_n_u32\s*\(\s*k\s+as\s+u32\s*\)\s*;", "sym = dup(k)"),
        (r"let\s+lut\s*=\s*vreinterpretq_u32_f32\s*\(\s*vld1q_dup_f32\s*\(\s*pssmptr\s*\.\s*add\s*\(\s*k\s*\)\s*\)\s*\)\s*;", "lut = pssm row cell k"),
        (r"let\s+mut\s+s\s*=\s*float32x4x4_t\s*\(\s*(vdupq_n_f32\s*\(\s*0\.0\s*\)\s*,\s*){3}vdupq_n_f32\s*\(\s*0\.0\s*\)\s*,?\s*\)\s*;",
         "accumulators reset to four zero registers"),
        (r"vst1q_f32_x4\s*\(\s*rowptr\s*,\s*s\s*\)\s*;", "store of the four accumulators"),
    ])
    tree = {}
    for m in re.finditer(r"let\s+(\w+)\s*=\s*vzipq_u8\s*\(\s*(\w+)(?:\s*\.\s*([01]))?\s*,\s*vdupq_n_u8\s*\(\s*0\s*\)\s*\)\s*;", body):
        # NAME = zip(SRC.h, 0): NAME.0 / NAME.1 are the low / high interleavings of SRC.h
        if m.group(1) in tree:
            raise ParseError("%s: register %s defined twice" % (name, m.group(1)))
        src_reg = m.group(2) if m.group(3) is None else "%s.%s" % (m.group(2), m.group(3))
        tree[m.group(1) + ".0"] = (src_reg, False)
        tree[m.group(1) + ".1"] = (src_reg, True)
    regs = {}
    for m in re.finditer(r"let\s+x(\d+)\s*=\s*vreinterpretq_u32_u8\s*\(\s*(\w+)\s*\.\s*([01])\s*\)\s*;", body):
        regs["x" + m.group(1)] = "%s.%s" % (m.group(2), m.group(3))
    cmp_ = {}
    for m in re.finditer(r"let\s+p(\d+)\s*=\s*vceqq_u32\s*\(\s*(\w+)\s*,\s*sym\s*\)\s*;", body):
        if m.group(2) not in regs:
            raise ParseError("%s: %s is not a reinterpreted zip register" % (name, m.group(2)))
        cmp_[int(m.group(1))] = regs[m.group(2)]
    adds = {}
    for m in re.finditer(r"\bs\s*\.\s*(\d)\s*=\s*vaddq_f32\s*\(\s*s\s*\.\s*(\d)\s*,\s*vreinterpretq_f32_u32\s*\(\s*vandq_u32\s*\(\s*lut\s*,\s*p(\d+)\s*\)\s*\)\s*\)\s*;", body):
        if m.group(1) != m.group(2):
            raise ParseError("%s: accumulator s.%s is not updated in place" % (name, m.group(1)))
        if int(m.group(1)) in adds:
            raise ParseError("%s: accumulator s.%s updated twice" % (name, m.group(1)))
        adds[int(m.group(1))] = int(m.group(3))
    accs = sorted(adds)
    if accs != [0, 1, 2, 3]:
        raise ParseError("%s: accumulators are not s.0..s.3" % name)
    for a in accs:
        if adds[a] not in cmp_:
            raise ParseError("%s: p%d has no comparison" % (name, adds[a]))
    if len(cmp_) != 4:
        raise ParseError("%s: unused comparisons" % name)
    paths = _paths(name, tree, {a: cmp_[adds[a]] for a in accs})
    # vst1q_f32_x4(p, s) stores s.0, s.1, s.2, s.3 to p, p+4, p+8, p+12
    return dict(paths=paths, stores=[0, 4, 8, 12])


def _consts(name, k):
    paths = "; ".join("[" + "; ".join("true" if h else "false" for h in p) + "]" for p in k["paths"])
    return ["Definition %s : lane4_consts := mkLane4" % name,
            "  [" + paths + "]",
            "  [" + "; ".join("%d" % o for o in k["stores"]) + "]."]


def render(sse2, neon, wrappers):
    L = []
    L.append("(* GENERATED by translate/score_lane4.py from /repo/lightmotif/src/pli/platform/sse2.rs (score_sse2)")
    L.append("   and neon.rs (score_f32_neon) -- do not edit; regenerated on every check. *)")
    L.append("From Coq Require Import List.")
    L.append("From LMScore Require Import ScoreModel SimdModel.")
    L.append("Import ListNotations.")
    L.append("")
    L.append("(* per accumulator: the path of halves (false = low / .0, true = high / .1) of the byte")
    L.append("   interleavings with zero from the loaded row to the register compared for it; then the")
    L.append("   element offset at which each accumulator is stored *)")
    L += _consts("sse2_consts", sse2)
    L.append("")
    L += _consts("neon_consts", neon)
    L.append("")
    L.append("(* the recognised steps of the safe wrappers Sse2::score_rows_into and Neon::score_f32_rows_into,")
    L.append("   in source order (for NEON this is the only tie of the guards to the source) *)")
    L.append("Definition sse2_wrapper : list wrapper_step := [%s]." % "; ".join(wrappers["sse2"]))
    L.append("Definition neon_wrapper : list wrapper_step := [%s]." % "; ".join(wrappers["neon"]))
    L.append("")
    return "\n".join(L)


def run(write=True):
    notes, errors = [], []
    try:
        sse2_src = _strip_comments(open(SSE2).read())
        neon_src = _strip_comments(open(NEON).read())
        sse2 = parse_sse2(sse2_src)
        neon = parse_neon(neon_src)
        sys.path.insert(0, VERIF)
        from translate.score_avx2 import wrapper_steps
        wrappers = dict(sse2=wrapper_steps(sse2_src, "score_rows_into", "score_sse2"),
                        neon=wrapper_steps(neon_src, "score_f32_rows_into", "score_f32_neon"))
        text = render(sse2, neon, wrappers)
    except Exception as e:   # never crash the check: a source that cannot be read is a broken obligation
        errors.append("score_lane4: cannot parse the source: %s" % e)
        if not os.path.exists(OUT):
            errors.append("no previously generated GenLane4.v")
        return dict(ok=False, notes=notes, errors=errors)
    changed = False
    if write:
        try:
            old = open(OUT).read()
        except OSError:
            old = None
        if old != text:
            with open(OUT, "w") as f:
                f.write(text)
            changed = True
    notes.append("score_lane4: sse2 paths %s stores %s; neon paths %s; wrapper steps sse2 %s neon %s%s" % (
        sse2["paths"], sse2["stores"], neon["paths"], len(wrappers["sse2"]), len(wrappers["neon"]),
        " (regenerated)" if changed else ""))
    return dict(ok=True, notes=notes, errors=errors)


if __name__ == "__main__":
    r = run(write="--dry" not in sys.argv)
    print(r)
    sys.exit(0 if r["ok"] else 1)
