"""Translator for property C07: /repo source -> coq/maxi/GenMaxi.v.

Reads, from the working tree of /repo (comments stripped),
  * lightmotif/src/pli/dispatch.rs:
      - the `match self.backend` arms of `fn argmax` / `fn max` in
        `impl Maximum<f32|u8, Lanes> for Pipeline<A, Dispatch>`;
      - that `impl Threshold<f32|u8, Lanes> for Pipeline<A, Dispatch>` has an empty body
        (default implementation on every arm);
  * lightmotif/src/pli/mod.rs: which of `argmax` / `max` the `Maximum` impls of
    `Pipeline<A, Sse2>` and `Pipeline<A, Avx2>` override and with which backend function,
    and that their `Threshold` impls are empty;
  * lightmotif/src/pli/platform/avx2.rs, sse2.rs:
      - the unsafe kernel each `Avx2::…` / `Sse2::…` wrapper calls;
      - `argmax_u8_avx2`: operands and immediates of the `_mm256_permute2x128_si256` that
        restore the column order, and the element offsets of the two stores into `x`;
      - `argmax_f32_avx2`, `max_f32_avx2`, `argmax_sse2`: the element offsets of the
        loads of the initial accumulators / of the rows (register k <- offset) and of the
        stores of the row-index registers;
      - the initial accumulators: `s_k = set1_epi16(-1)` and `ones = set1_epi16(1)` of
        argmax_u8_avx2 (as data), row-index registers / max_u8 accumulator = setzero and the
        SSE2 running maxima = -f32::INFINITY (checked here: any other shape is a parse error).
  * lightmotif/src/dense.rs, scores.rs, pli/mod.rs (reused score buffers, round 3):
      - the statements of `DenseMatrix::resize` (`self.data.resize_with(rows, Default::default)` /
        a guarded grow-only variant / `truncate`, `self.rows = rows`), of `StripedScores::resize`,
        what `dense::Iter::new` iterates over (`matrix.data.iter()`), and what the default
        `Maximum::argmax` / `Threshold::threshold` loop over (`scores.matrix().iter().enumerate()`
        or an index loop over `0..rows()`), as statement skeletons (C07_source_buffer);
and writes them as plain data.  What the data must satisfy is stated and re-proved on every
run in coq/maxi/C07.v (C07_source_dispatch_table, C07_source_lane_tables).

Local variable names are not interpreted (registers are numbered by the order of their
declarations, pointer / array names are arbitrary), so renaming or reformatting is tolerated.
Anything that does not have the expected shape makes `run()` return ok=False: the check
treats the obligation as broken (no crash) and keeps the previous file.
"""
import os
import re
import sys

VERIF = os.path.dirname(os.path.dirname(os.path.abspath(__file__)))
REPO = os.environ.get("VERIF_REPO", "/repo").rstrip("/") or "/repo"   # same override as vlib/common.py
SRC = os.path.join(REPO, "lightmotif/src")
OUT = os.path.join(VERIF, "coq", "maxi", "GenMaxi.v")

KERNEL_IDS = {
    "argmax_f32_avx2": "KArgmaxF32Avx2",
    "max_f32_avx2": "KMaxF32Avx2",
    "argmax_u8_avx2": "KArgmaxU8Avx2",
    "max_u8_avx2": "KMaxU8Avx2",
    "argmax_sse2": "KArgmaxSse2",
}


class ParseError(Exception):
    pass


def _strip_comments(src):
    src = re.sub(r"/\*.*?\*/", " ", src, flags=re.S)
    src = re.sub(r"//[^\n]*", " ", src)
    return src


def _num(tok):
    tok = tok.strip().replace("_", "")
    return int(tok, 16) if tok.lower().startswith("0x") else int(tok)


def _block(src, i):
    """text between the brace at/after position i and its matching brace"""
    i = src.index("{", i)
    depth = 0
    j = i
    while j < len(src):
        if src[j] == "{":
            depth += 1
        elif src[j] == "}":
            depth -= 1
            if depth == 0:
                return src[i + 1:j], j + 1
        j += 1
    raise ParseError("unbalanced braces")


def _function_body(src, name):
    m = re.search(r"\bfn\s+%s\b" % re.escape(name), src)
    if not m:
        raise ParseError("function %s not found" % name)
    # skip the parameter list (balanced parentheses), then the body
    i = src.index("(", m.end())
    depth = 0
    while True:
        if src[i] == "(":
            depth += 1
        elif src[i] == ")":
            depth -= 1
            if depth == 0:
                break
        i += 1
    body, _ = _block(src, i)
    return body


def _impl_body(src, trait, elem, backend):
    """body of `impl<..> <trait><<elem>, ..> for Pipeline<A, <backend>>`"""
    pat = r"\bimpl\s*<[^{;]*?>\s*%s\s*<\s*%s\s*,[^{;]*?\bfor\s+Pipeline\s*<\s*A\s*,\s*%s\s*>" % (trait, elem, backend)
    ms = list(re.finditer(pat, src))
    if len(ms) != 1:
        raise ParseError("expected one `impl %s<%s, ..> for Pipeline<A, %s>`, found %d" % (trait, elem, backend, len(ms)))
    body, _ = _block(src, ms[0].end())
    return body


def _methods(body):
    """name -> body of the `fn` items of an impl body"""
    out = {}
    for m in re.finditer(r"\bfn\s+(\w+)\b", body):
        out[m.group(1)] = _function_body(body[m.start():], m.group(1))
    return out


def _target(text, what):
    """classify a call expression: backend wrapper or the generic default"""
    t = " ".join(text.split())
    m = re.search(r"\b(Avx2|Sse2|Neon)\s*::\s*(\w+)\s*\(\s*\w+\s*\)", t)
    if m:
        return (m.group(1), m.group(2))
    m = re.search(r"<\s*Generic\s+as\s+Maximum\s*<[^()]*>\s*>\s*::\s*(\w+)\s*\(\s*&\s*Generic\s*,\s*\w+\s*\)", t)
    if m:
        return ("Generic", m.group(1))
    raise ParseError("%s: unrecognised call `%s`" % (what, t[:120]))


def parse_wrappers():
    """(backend, wrapper fn) -> unsafe kernel name"""
    out = {}
    for backend, path, names in (("Avx2", "pli/platform/avx2.rs", ("argmax_f32", "max_f32", "argmax_u8", "max_u8")),
                                 ("Sse2", "pli/platform/sse2.rs", ("argmax",))):
        src = _strip_comments(open(os.path.join(SRC, path)).read())
        i = src.rindex("impl %s" % backend)
        impl, _ = _block(src, i)
        for n in names:
            m = re.search(r"\bpub\s+fn\s+%s\b" % n, impl)
            if not m:
                raise ParseError("%s::%s not found" % (backend, n))
            body = _function_body(impl[m.start():], n)
            calls = re.findall(r"\bunsafe\s*\{\s*(\w+)\s*(?:::\s*<[^>]*>\s*)?\(\s*\w+\s*\)\s*\}", body)
            if len(calls) != 1 or calls[0] not in KERNEL_IDS:
                raise ParseError("%s::%s does not call one known kernel: %s" % (backend, n, calls))
            out[(backend, n)] = calls[0]
    return out


def _kernel_of(target, op, wrappers, what):
    backend, fn = target
    if backend == "Generic":
        if fn != op:
            raise ParseError("%s: generic arm calls %s" % (what, fn))
        return "KGenericArgmax" if op == "argmax" else "KGenericMax"
    k = wrappers.get((backend, fn))
    if k is None:
        raise ParseError("%s: unknown backend function %s::%s" % (what, backend, fn))
    if not k.startswith(op + "_"):
        raise ParseError("%s: %s is wired to kernel %s" % (what, op, k))
    return KERNEL_IDS[k]


def _arm_cfg(text):
    """host family an arm is compiled for, from the `#[cfg(..)]` attribute text preceding it"""
    attrs = re.findall(r"#\s*\[\s*cfg\s*\((.*?)\)\s*\]", text, flags=re.S)
    if not attrs:
        return "any"
    t = attrs[-1]
    x86 = "x86" in t
    arm = ("\"arm\"" in t) or ("aarch64" in t)
    if "not" in t or (x86 and arm) or not (x86 or arm):
        raise ParseError("unrecognised cfg on a dispatcher arm: %s" % t.strip())
    return "x86" if x86 else "arm"


def parse_dispatch(wrappers):
    """(host, elem, op, arm) -> kernel id, for host in x86 (arms Generic/Sse2/Avx2) and
    arm (arms Generic/Neon: the cfg(arm/aarch64) variants; not compiled on this host)"""
    src = _strip_comments(open(os.path.join(SRC, "pli/dispatch.rs")).read())
    # which variants exist on which host
    m = re.search(r"\bpub\s+enum\s+Dispatch\b", src)
    if not m:
        raise ParseError("enum Dispatch not found")
    enum_body, _ = _block(src, m.end())
    variants = {}
    prev = 0
    for v in re.finditer(r"\b([A-Z]\w*)\s*,", enum_body):
        variants[v.group(1)] = _arm_cfg(enum_body[prev:v.start()])
        prev = v.end()
    expect = {"Generic": "any", "Sse2": "x86", "Avx2": "x86", "Neon": "arm"}
    if variants != expect:
        raise ParseError("enum Dispatch variants/cfgs changed: %s" % variants)
    hosts = {"x86": ("Generic", "Sse2", "Avx2"), "arm": ("Generic", "Neon")}
    table = {}
    for elem in ("f32", "u8"):
        meths = _methods(_impl_body(src, "Maximum", elem, "Dispatch"))
        for op in ("argmax", "max"):
            if op not in meths:
                raise ParseError("dispatcher Maximum<%s>::%s missing" % (elem, op))
            m = re.search(r"\bmatch\s+self\s*\.\s*backend\b", meths[op])
            if not m:
                raise ParseError("`match self.backend` not found in dispatcher %s<%s>" % (op, elem))
            arms_txt, _ = _block(meths[op], m.end())
            starts = list(re.finditer(r"(?P<attrs>(?:#\s*\[[^\]]*\]\s*)*)(?:\bDispatch\s*::\s*(\w+)|(?<![\w:])_)\s*=>", arms_txt))
            arms = {}
            for k, s_ in enumerate(starts):
                end = starts[k + 1].start() if k + 1 < len(starts) else len(arms_txt)
                name = s_.group(2) or "_"
                what = "dispatch %s<%s> arm %s" % (op, elem, name)
                cfg = _arm_cfg(s_.group("attrs"))
                body = arms_txt[s_.end():end]
                if name in arms:
                    raise ParseError("duplicate arm %s" % name)
                if name != "_" and name not in variants:
                    raise ParseError("unknown dispatcher arm %s" % name)
                if name != "_" and cfg not in ("any", variants[name]):
                    raise ParseError("%s: cfg %s does not match the variant's" % (what, cfg))
                arms[name] = (_kernel_of(_target(body, what), op, wrappers, what), cfg)
            if "_" in arms and arms["_"][1] != "any":
                raise ParseError("the default arm of dispatch %s<%s> is cfg-restricted" % (op, elem))
            for host, names in hosts.items():
                for a_ in names:
                    if a_ in arms and arms[a_][1] in ("any", host):
                        table[(host, elem, op, a_)] = arms[a_][0]
                    elif "_" in arms:
                        table[(host, elem, op, a_)] = arms["_"][0]
                    else:
                        raise ParseError("dispatcher %s<%s> has no arm for %s on %s hosts" % (op, elem, a_, host))
        if _impl_body(src, "Threshold", elem, "Dispatch").strip():
            raise ParseError("dispatcher Threshold<%s> is no longer the default implementation" % elem)
    return table


def parse_lanes():
    """Backend::Lanes of Neon (= the dispatcher's column count on Arm hosts)"""
    src = _strip_comments(open(os.path.join(SRC, "pli/platform/neon.rs")).read())
    m = re.search(r"\bimpl\s+Backend\s+for\s+Neon\s*\{\s*type\s+Lanes\s*=\s*U(\d+)\s*;", src)
    if not m:
        raise ParseError("`impl Backend for Neon { type Lanes = U<n>; }` not found")
    d = _strip_comments(open(os.path.join(SRC, "pli/dispatch.rs")).read())
    if not re.search(r"#\s*\[\s*cfg\s*\(\s*any\s*\(\s*target_arch\s*=\s*\"arm\"\s*,\s*target_arch\s*=\s*\"aarch64\"\s*\)\s*\)\s*\]\s*type\s+Lanes\s*=\s*<\s*Neon\s+as\s+Backend\s*>\s*::\s*Lanes\s*;", d):
        raise ParseError("Dispatch::Lanes on Arm hosts is no longer <Neon as Backend>::Lanes")
    return int(m.group(1))


def parse_pipelines(wrappers):
    src = _strip_comments(open(os.path.join(SRC, "pli/mod.rs")).read())
    table = {}
    for backend in ("Sse2", "Avx2", "Neon"):
        for elem in ("f32", "u8"):
            meths = _methods(_impl_body(src, "Maximum", elem, backend))
            for op in ("argmax", "max"):
                if op in meths:
                    table[(backend, elem, op)] = _kernel_of(_target(meths[op], "Pipeline<%s> %s<%s>" % (backend, op, elem)),
                                                            op, wrappers, "Pipeline<%s> %s<%s>" % (backend, op, elem))
                else:
                    table[(backend, elem, op)] = "KDefaultArgmax" if op == "argmax" else "KDefaultMax"
            for k in meths:
                if k not in ("argmax", "max"):
                    raise ParseError("unexpected method %s in Maximum<%s> for Pipeline<%s>" % (k, elem, backend))
            if _impl_body(src, "Threshold", elem, backend).strip():
                raise ParseError("Threshold<%s> for Pipeline<%s> is no longer the default implementation" % (elem, backend))
    return table


ID = r"[A-Za-z_]\w*"
PTR = r"(?:%s)\s*(?:\.\s*add\s*\(\s*(?P<off>\w+)\s*\))?\s*(?:as\s*\*(?:const|mut)\s*_\s*)?" % ID


def _decls(body, pat, what, count):
    """matches of `pat` (a regex with named group `name`, optionally `off` / `val`) in program
    order; local variable names are not interpreted: registers are numbered by declaration order"""
    ms = list(re.finditer(pat, body))
    if len(ms) != count:
        raise ParseError("%s: expected %d, found %d" % (what, count, len(ms)))
    return ms


def _offs(ms):
    return [(k + 1, _num(m.group("off")) if m.group("off") else 0) for k, m in enumerate(ms)]


def _index(names, n, what):
    if n not in names:
        raise ParseError("%s: `%s` is not one of the registers %s" % (what, n, names))
    return names.index(n) + 1


def parse_kernels():
    avx2 = _strip_comments(open(os.path.join(SRC, "pli/platform/avx2.rs")).read())
    sse2 = _strip_comments(open(os.path.join(SRC, "pli/platform/sse2.rs")).read())
    k = {}
    let_mut = r"\blet\s+mut\s+(?P<name>%s)\s*=\s*" % ID
    let_imm = r"\blet\s+(?!mut\b)(?P<name>%s)\s*=\s*" % ID
    arr_store = (r"\(\s*(?:%s)\s*(?:\[\s*(?P<off>\w+)\s*\.\.\s*\])?\s*\.\s*as_mut_ptr\s*\(\s*\)\s*as\s*\*mut\s*_\s*,"
                 r"\s*(?P<name>%s)\s*\)") % (ID, ID)

    # --- argmax_u8_avx2
    b = _function_body(avx2, "argmax_u8_avx2")
    pregs = [m.group("name") for m in _decls(b, let_mut + r"_mm256_setzero_si256\s*\(\s*\)", "argmax_u8_avx2 row-index registers", 2)]
    sinit = _decls(b, let_mut + r"_mm256_set1_epi16\s*\(\s*(?P<val>-?\w+)\s*\)", "argmax_u8_avx2 running maxima", 2)
    k["u8_s_init"] = [(i + 1, _num(m.group("val"))) for i, m in enumerate(sinit)]
    ones = _decls(b, let_imm + r"_mm256_set1_epi16\s*\(\s*(?P<val>-?\w+)\s*\)", "argmax_u8_avx2 constant", 1)[0]
    k["u8_ones"] = _num(ones.group("val"))
    if len(re.findall(r"_mm256_sub_epi16\s*\(\s*%s\s*,\s*%s\s*\)" % (ID, re.escape(ones.group("name"))), b)) != 2:
        raise ParseError("argmax_u8_avx2: expected two `_mm256_sub_epi16(r_k, %s)`" % ones.group("name"))
    perms = {}
    for m in re.finditer(let_imm + r"_mm256_permute2x128_si256\s*\(\s*(?P<a>%s)\s*,\s*(?P<b>%s)\s*,\s*(?P<imm>\w+)\s*\)" % (ID, ID), b):
        perms[m.group("name")] = (_index(pregs, m.group("a"), "argmax_u8_avx2 permute"),
                                  _index(pregs, m.group("b"), "argmax_u8_avx2 permute"), _num(m.group("imm")))
    q = []
    for m in _decls(b, r"_mm256_storeu_si256\s*" + arr_store, "argmax_u8_avx2 stores", 2):
        reg = m.group("name")
        if reg not in perms:
            raise ParseError("argmax_u8_avx2: `%s` is stored without restoring the column order" % reg)
        q.append(perms[reg] + (_num(m.group("off")) if m.group("off") else 0,))
    k["u8_q"] = q

    # --- argmax_f32_avx2
    b = _function_body(avx2, "argmax_f32_avx2")
    load = r"_mm256_load_ps\s*\(\s*" + PTR + r"\)"
    pregs = [m.group("name") for m in _decls(b, let_mut + r"_mm256_setzero_si256\s*\(\s*\)", "argmax_f32_avx2 row-index registers", 4)]
    k["af_init"] = _offs(_decls(b, let_mut + load, "argmax_f32_avx2 initial loads", 4))
    k["af_rows"] = _offs(_decls(b, let_imm + load, "argmax_f32_avx2 row loads", 4))
    st = _decls(b, r"_mm256_storeu_si256\s*" + arr_store, "argmax_f32_avx2 stores", 4)
    k["af_stores"] = [(_index(pregs, m.group("name"), "argmax_f32_avx2 store"), _num(m.group("off")) if m.group("off") else 0) for m in st]

    # --- max_f32_avx2
    b = _function_body(avx2, "max_f32_avx2")
    k["mf_init"] = _offs(_decls(b, let_mut + load, "max_f32_avx2 initial loads", 4))
    k["mf_rows"] = _offs(_decls(b, let_imm + load, "max_f32_avx2 row loads", 4))

    # --- max_u8_avx2
    b = _function_body(avx2, "max_u8_avx2")
    _decls(b, let_mut + r"_mm256_setzero_si256\s*\(\s*\)", "max_u8_avx2 accumulator", 1)

    # --- argmax_sse2
    b = _function_body(sse2, "argmax_sse2")
    best = _decls(b, let_mut + r"-\s*f32\s*::\s*INFINITY\s*;", "argmax_sse2 best score (-f32::INFINITY)", 1)[0].group("name")
    _decls(b, let_mut + r"_mm_set1_ps\s*\(\s*%s\s*\)" % re.escape(best), "argmax_sse2 running maxima", 4)
    pregs = [m.group("name") for m in _decls(b, let_mut + r"_mm_setzero_ps\s*\(\s*\)", "argmax_sse2 row-index registers", 4)]
    k["as_rows"] = _offs(_decls(b, let_imm + r"_mm_load_ps\s*\(\s*" + PTR + r"\)", "argmax_sse2 row loads", 4))
    st = _decls(b, r"_mm_storeu_si128\s*\(\s*" + PTR + r",\s*_mm_castps_si128\s*\(\s*(?P<name>%s)\s*\)\s*\)" % ID,
                "argmax_sse2 stores", 4)
    k["as_stores"] = [(_index(pregs, m.group("name"), "argmax_sse2 store"), _num(m.group("off")) if m.group("off") else 0) for m in st]
    return k



def parse_compares():
    """comparison of the vector steps / of the scalar reductions of the f32 arg-max kernels, the
    block offsets of argmax_sse2 and the lane count of the SSE2 backend"""
    avx2 = _strip_comments(open(os.path.join(SRC, "pli/platform/avx2.rs")).read())
    sse2 = _strip_comments(open(os.path.join(SRC, "pli/platform/sse2.rs")).read())
    out = {}
    m = re.search(r"\bimpl\s+Backend\s+for\s+Sse2\s*\{\s*type\s+Lanes\s*=\s*U(\d+)\s*;\s*\}", sse2)
    if not m:
        raise ParseError("`impl Backend for Sse2 { type Lanes = U<n>; }` not found")
    out["sse2_lanes"] = int(m.group(1))
    # --- argmax_sse2
    b = _function_body(sse2, "argmax_sse2")
    n = _norm(b)
    if not re.search(r"for\w+in\(0\.\.C::Quotient::USIZE\)\.map\(\|(\w+)\|\1\*<Sse2asBackend>::Lanes::USIZE\)\{", n):
        raise ParseError("argmax_sse2: the block loop is no longer `for off in (0..C::Quotient::USIZE).map(|i| i * <Sse2 as Backend>::Lanes::USIZE)`")
    cm = re.findall(r"_mm_cmp(\w+)_ps\((\w+),(\w+)\)", n)
    if len(cm) != 4 or len(set(c[0] for c in cm)) != 1:
        raise ParseError("argmax_sse2: expected four identical `_mm_cmp??_ps(s_k, r_k)`, found %s" % cm)
    maxima = [m_.group(1) for m_ in re.finditer(r"letmut(\w+)=_mm_set1_ps\(", n)]
    loads = [m_.group(1) for m_ in re.finditer(r"let(\w+)=_mm_load_ps\(", n)]
    for (_, a, r) in cm:
        if a not in maxima or r not in loads or maxima.index(a) != loads.index(r):
            raise ParseError("argmax_sse2: `_mm_cmp(%s, %s)` does not compare running maximum k with row register k" % (a, r))
    op = {"le": "VCmpLe", "lt": "VCmpLt"}.get(cm[0][0])
    if not op:
        raise ParseError("argmax_sse2: unknown vector comparison _mm_cmp%s_ps" % cm[0][0])
    out["sse2_vcmp"] = op
    rm = re.findall(r"if(\w+)(>=|>)(\w+)\{\3=\1;", n)
    if len(rm) != 1:
        raise ParseError("argmax_sse2: expected one `if score >= best { best = score; ..}` in the reduction, found %s" % rm)
    out["sse2_rcmp"] = "RCmpGe" if rm[0][1] == ">=" else "RCmpGt"
    # --- argmax_f32_avx2
    b = _function_body(avx2, "argmax_f32_avx2")
    n = _norm(b)
    cm = re.findall(r"_mm256_cmp_ps\((\w+),(\w+),(\w+)\)", n)
    if len(cm) != 4 or len(set(c[2] for c in cm)) != 1:
        raise ParseError("argmax_f32_avx2: expected four `_mm256_cmp_ps(s_k, r_k, <imm>)`, found %s" % cm)
    maxima = [m_.group(1) for m_ in re.finditer(r"letmut(\w+)=_mm256_load_ps\(", n)]
    loads = [m_.group(1) for m_ in re.finditer(r"let(?!mut)(\w+)=_mm256_load_ps\(", n)]
    for (a, r, _) in cm:
        if a not in maxima or r not in loads or maxima.index(a) != loads.index(r):
            raise ParseError("argmax_f32_avx2: `_mm256_cmp_ps(%s, %s, ..)` does not compare running maximum k with row register k" % (a, r))
    op = {"_CMP_LE_OS": "VCmpLe", "_CMP_LE_OQ": "VCmpLe", "_CMP_LT_OS": "VCmpLt", "_CMP_LT_OQ": "VCmpLt"}.get(cm[0][2])
    if not op:
        raise ParseError("argmax_f32_avx2: unknown comparison predicate %s" % cm[0][2])
    out["avx2_vcmp"] = op
    rm = re.findall(r"if(\w+)(>=|>)(\w+)\{\3=\1;", n)
    if len(rm) != 1:
        raise ParseError("argmax_f32_avx2: expected one `if score > best { best = score; ..}` in the reduction, found %s" % rm)
    out["avx2_rcmp"] = "RCmpGe" if rm[0][1] == ">=" else "RCmpGt"
    return out


def _norm(t):
    return re.sub(r"\s+", "", t)


def _split_stmts(body):
    """top-level statements of a block (`;`-terminated or brace-terminated)"""
    out, depth, cur = [], 0, ""
    for ch in body:
        cur += ch
        if ch in "({[":
            depth += 1
        elif ch in ")}]":
            depth -= 1
            if depth == 0 and ch == "}" and re.match(r"\s*(if|for|while|match|loop|unsafe)\b", cur):
                out.append(cur.strip())
                cur = ""
        elif ch == ";" and depth == 0:
            out.append(cur.strip())
            cur = ""
    if cur.strip():
        out.append(cur.strip())
    return out


def _impl_blocks(src, pat):
    return [_block(src, m.end())[0] for m in re.finditer(pat, src)]


def _method_with_param(blocks, name, nparams, what):
    """body and the names of the (non-self) parameters of the unique `fn name(&mut self, ..)`"""
    found = []
    for b in blocks:
        for m in re.finditer(r"\bfn\s+%s\s*\(\s*&\s*(?:mut\s+)?self\s*((?:,\s*\w+\s*:\s*[^,()]+)*),?\s*\)" % name, b):
            params = re.findall(r",\s*(\w+)\s*:", m.group(1))
            found.append((_function_body(b[m.start():], name), params))
    if len(found) != 1:
        raise ParseError("%s: expected one `fn %s(&mut self, ..)`, found %d" % (what, name, len(found)))
    body, params = found[0]
    if len(params) != nparams:
        raise ParseError("%s::%s: expected %d parameters, found %s" % (what, name, nparams, params))
    return body, params


def parse_buffer():
    """statement skeletons of the code that makes a score buffer reusable"""
    out = {}
    dense = _strip_comments(open(os.path.join(SRC, "dense.rs")).read())
    scores = _strip_comments(open(os.path.join(SRC, "scores.rs")).read())
    mod = _strip_comments(open(os.path.join(SRC, "pli/mod.rs")).read())
    # the fields of DenseMatrix
    m = re.search(r"\bpub\s+struct\s+DenseMatrix\s*<[^{]*\{([^}]*)\}", dense)
    if not m:
        raise ParseError("struct DenseMatrix not found")
    fields = dict((n, _norm(t)) for n, t in re.findall(r"(\w+)\s*:\s*([^,}]+)", m.group(1)))
    vecs = [n for n, t in fields.items() if t.startswith("Vec<Row<")]
    cnts = [n for n, t in fields.items() if t == "usize"]
    if len(fields) != 2 or len(vecs) != 1 or len(cnts) != 1:
        raise ParseError("struct DenseMatrix is no longer { <data>: Vec<Row<T, C>>, <rows>: usize }: %s" % fields)
    data, rows = vecs[0], cnts[0]
    blocks = _impl_blocks(dense, r"\bimpl\s*<[^{;]*?>\s*DenseMatrix\s*<\s*T\s*,\s*C\s*>")
    # DenseMatrix::rows() returns the count field
    rb = None
    for b in blocks:
        mm = re.search(r"\bfn\s+rows\s*\(\s*&\s*self\s*\)", b)
        if mm:
            rb = _norm(_function_body(b[mm.start():], "rows"))
    if rb not in ("self.%s" % rows, "returnself.%s;" % rows, "returnself.%s" % rows):
        raise ParseError("DenseMatrix::rows() is not `self.%s`: %s" % (rows, rb))
    # DenseMatrix::resize
    body, (arg,) = _method_with_param(blocks, "resize", 1, "DenseMatrix")
    dflt = r"(?:Default::default|Row::default|Row::<T,C>::default|\|\|Default::default\(\)|\|\|Row::default\(\))"
    grow = r"self\.%s\.(?:resize_with\(%s,%s\)|resize\(%s,(?:Default::default|Row::default)\(\)\))" % (data, arg, dflt, arg)
    stmts = []
    for st in _split_stmts(body):
        n = _norm(st)
        if re.fullmatch(grow + ";", n):
            stmts.append("DResizeWithDefault")
        elif re.fullmatch(r"if(?:%s>self\.%s\.len\(\)|self\.%s\.len\(\)<%s)\{%s;?\}" % (arg, data, data, arg, grow), n):
            stmts.append("DResizeWithDefaultIfLonger")
        elif re.fullmatch(r"self\.%s\.truncate\(%s\);" % (data, arg), n):
            stmts.append("DTruncate")
        elif re.fullmatch(r"self\.%s=%s;" % (rows, arg), n):
            stmts.append("DSetRows")
        else:
            raise ParseError("DenseMatrix::resize: unrecognised statement `%s`" % " ".join(st.split())[:120])
    out["dense_resize"] = stmts
    # dense::Iter::new
    iblocks = _impl_blocks(dense, r"\bimpl\s*<[^{;]*?>\s*Iter\s*<\s*'a\s*,\s*T\s*,\s*C\s*>")
    news = []
    for b in iblocks:
        mm = re.search(r"\bfn\s+new\s*\(\s*(\w+)\s*:", b)
        if mm:
            news.append((mm.group(1), _norm(_function_body(b[mm.start():], "new"))))
    if len(news) != 1:
        raise ParseError("expected one dense::Iter::new, found %d" % len(news))
    mat, nb = news[0]
    mi = re.fullmatch(r"Self\{it:(.*?),?\}", nb)
    if not mi:
        raise ParseError("dense::Iter::new is not `Self { it: .. }`: %s" % nb[:100])
    src = mi.group(1)
    if src == "%s.%s.iter()" % (mat, data):
        out["iter"] = "IterData"
    elif src in ("%s.%s[..%s.%s].iter()" % (mat, data, mat, rows), "%s.%s.iter().take(%s.%s)" % (mat, data, mat, rows),
                 "%s.%s[..%s.rows()].iter()" % (mat, data, mat), "%s.%s.iter().take(%s.rows())" % (mat, data, mat)):
        out["iter"] = "IterDataTakeRows"
    else:
        raise ParseError("dense::Iter::new iterates over `%s`" % src[:100])
    # DenseMatrix::iter() is Iter::new(self)
    ib = None
    for b in blocks:
        mm = re.search(r"\bfn\s+iter\s*\(\s*&\s*self\s*\)", b)
        if mm:
            ib = _norm(_function_body(b[mm.start():], "iter"))
    if ib != "Iter::new(self)":
        raise ParseError("DenseMatrix::iter() is not `Iter::new(self)`: %s" % ib)
    # StripedScores: the matrix field, resize, is_empty, matrix()
    m = re.search(r"\bpub\s+struct\s+StripedScores\s*<[^{]*\{([^}]*)\}", scores)
    if not m:
        raise ParseError("struct StripedScores not found")
    sfields = dict((n, _norm(t)) for n, t in re.findall(r"(\w+)\s*:\s*([^,}]+)", m.group(1)))
    mats = [n for n, t in sfields.items() if t.startswith("DenseMatrix<")]
    idxs = [n for n, t in sfields.items() if t == "usize"]
    if len(sfields) != 2 or len(mats) != 1 or len(idxs) != 1:
        raise ParseError("struct StripedScores is no longer { <data>: DenseMatrix<T, C>, <max_index>: usize }: %s" % sfields)
    sdata, smi = mats[0], idxs[0]
    sblocks = _impl_blocks(scores, r"\bimpl\s*<[^{;]*?>\s*StripedScores\s*<\s*T\s*,\s*C\s*>")
    body, (a1, a2) = _method_with_param(sblocks, "resize", 2, "StripedScores")
    sst = []
    for st in _split_stmts(body):
        n = _norm(st)
        if n == "self.%s.resize(%s);" % (sdata, a1):
            sst.append("SDataResize")
        elif n == "self.%s=%s;" % (smi, a2):
            sst.append("SSetMaxIndex")
        else:
            raise ParseError("StripedScores::resize: unrecognised statement `%s`" % " ".join(st.split())[:120])
    out["scores_resize"] = sst
    for fn, want in (("is_empty", ("self.%s.rows()==0" % sdata,)), ("matrix", ("&self.%s" % sdata,))):
        got = None
        for b in sblocks:
            mm = re.search(r"\bfn\s+%s\s*\(\s*&\s*self\s*\)" % fn, b)
            if mm:
                got = _norm(_function_body(b[mm.start():], fn))
        if got not in want:
            raise ParseError("StripedScores::%s() is `%s`, expected `%s`" % (fn, got, want[0]))
    # the default scans of pli/mod.rs
    for trait, fn, key in (("Maximum", "argmax", "scan_argmax"), ("Threshold", "threshold", "scan_threshold")):
        m = re.search(r"\bpub\s+trait\s+%s\b[^{]*" % trait, mod)
        if not m:
            raise ParseError("trait %s not found" % trait)
        tb, _ = _block(mod, m.end())
        fm = re.search(r"\bfn\s+%s\b" % fn, tb)
        if not fm:
            raise ParseError("%s::%s has no default implementation" % (trait, fn))
        fb = _function_body(tb[fm.start():], fn)
        sm_ = re.search(r"\bfn\s+%s\s*\(\s*&\s*self\s*,\s*(\w+)\s*:" % fn, tb[fm.start():])
        sc = sm_.group(1) if sm_ else "scores"
        loops = re.findall(r"\bfor\s+(.*?)\s+in\s+(.*?)\s*\{", fb, flags=re.S)
        if not loops:
            raise ParseError("%s::%s: no loop found" % (trait, fn))
        pat, it = _norm(loops[0][0]), _norm(loops[0][1])
        if re.fullmatch(r"\(\w+,\w+\)", pat) and it == "%s.matrix().iter().enumerate()" % sc:
            out[key] = "ScanMatrixIter"
        elif re.fullmatch(r"\w+", pat) and it in ("0..%s.matrix().rows()" % sc,):
            out[key] = "ScanRowsIndex"
        else:
            raise ParseError("%s::%s: the outer loop is `for %s in %s`" % (trait, fn, pat, it[:80]))
    return out


def _pairs(l):
    return "[" + "; ".join("(%d, %d)" % p for p in l) + "]"


def render(disp, pipes, k, lanes, buf, cmp):
    L = []
    L.append("(* GENERATED by translate/maxi_tables.py from /repo/lightmotif/src/pli/{dispatch.rs,mod.rs,")
    L.append("   platform/avx2.rs,platform/sse2.rs} -- do not edit; regenerated on every check. *)")
    L.append("From Coq Require Import List ZArith.")
    L.append("From LMMaxi Require Import MaxiModel MaxiBuffer.")
    L.append("Import ListNotations.")
    L.append("")
    L.append("(* `match self.backend` of impl Maximum<T, Lanes> for Pipeline<A, Dispatch> *)")
    for elem in ("f32", "u8"):
        for op in ("argmax", "max"):
            L.append("Definition gen_dispatch_%s_%s (a : arm) : kernel_id :=" % (op, elem))
            L.append("  match a with")
            for arm, c in (("Generic", "AGeneric"), ("Sse2", "ASse2"), ("Avx2", "AAvx2")):
                L.append("  | %s => %s" % (c, disp[("x86", elem, op, arm)]))
            L.append("  end.")
    L.append("")
    L.append("(* the same tables as compiled on Arm hosts (cfg(arm/aarch64): variants Generic and Neon;")
    L.append("   not compiled on the x86_64 host of the checks: read from the source only) and the")
    L.append("   column count of the dispatcher there, <Neon as Backend>::Lanes *)")
    L.append("Definition gen_armhost_lanes : nat := %d." % lanes)
    for elem in ("f32", "u8"):
        for op in ("argmax", "max"):
            L.append("Definition gen_armhost_dispatch_%s_%s (a : neon_arm) : kernel_id :=" % (op, elem))
            L.append("  match a with")
            for arm, c in (("Generic", "NGeneric"), ("Neon", "NNeon")):
                L.append("  | %s => %s" % (c, disp[("arm", elem, op, arm)]))
            L.append("  end.")
    L.append("")
    L.append("(* impl Maximum<T, _> for Pipeline<A, Sse2> / Pipeline<A, Avx2> / Pipeline<A, Neon>: (argmax, max) *)")
    for backend in ("Sse2", "Avx2", "Neon"):
        for elem in ("f32", "u8"):
            L.append("Definition gen_pipeline_%s_%s : kernel_id * kernel_id := (%s, %s)." % (
                backend.lower(), elem, pipes[(backend, elem, "argmax")], pipes[(backend, elem, "max")]))
    L.append("")
    L.append("(* argmax_u8_avx2: (a, b, imm, offset) of each `x[offset..] <- permute2x128(p_a, p_b, imm)` *)")
    L.append("Definition gen_argmax_u8_q : list (nat * nat * Z * nat) :=")
    L.append("  [" + "; ".join("(%d, %d, %d%%Z, %d)" % t for t in k["u8_q"]) + "].")
    L.append("")
    L.append("(* (register number, element offset) of the loads / stores, in program order *)")
    for name, key in (("gen_argmax_f32_avx2_init", "af_init"), ("gen_argmax_f32_avx2_rows", "af_rows"),
                      ("gen_argmax_f32_avx2_stores", "af_stores"), ("gen_max_f32_avx2_init", "mf_init"),
                      ("gen_max_f32_avx2_rows", "mf_rows"), ("gen_argmax_sse2_rows", "as_rows"),
                      ("gen_argmax_sse2_stores", "as_stores")):
        L.append("Definition %s : list (nat * nat) := %s." % (name, _pairs(k[key])))
    L.append("")
    L.append("(* argmax_u8_avx2: initial value of the running maxima s_k (set1_epi16) and the constant")
    L.append("   subtracted from a new maximum; the other accumulators were checked by the translator:")
    L.append("   row-index registers and the max_u8 accumulator start from zero, the SSE2 running maxima")
    L.append("   from -f32::INFINITY *)")
    L.append("Definition gen_argmax_u8_s_init : list (nat * Z) := [" +
             "; ".join("(%d, (%d)%%Z)" % p for p in k["u8_s_init"]) + "].")
    L.append("Definition gen_argmax_u8_ones : Z := (%d)%%Z." % k["u8_ones"])
    L.append("")
    L.append("(* reused score buffers: statements of DenseMatrix::resize and StripedScores::resize, what")
    L.append("   dense::Iter::new iterates over, what the default Maximum::argmax / Threshold::threshold")
    L.append("   loop over (dense.rs, scores.rs, pli/mod.rs) *)")
    L.append("Definition gen_dense_resize : list dense_stmt := [%s]." % "; ".join(buf["dense_resize"]))
    L.append("Definition gen_scores_resize : list scores_stmt := [%s]." % "; ".join(buf["scores_resize"]))
    L.append("Definition gen_dense_iter : iter_source := %s." % buf["iter"])
    L.append("Definition gen_scan_argmax : scan_source := %s." % buf["scan_argmax"])
    L.append("Definition gen_scan_threshold : scan_source := %s." % buf["scan_threshold"])
    L.append("")
    L.append("(* f32 arg-max kernels: comparison of the vector step (running maximum k against row register k),")
    L.append("   comparison of the final scalar reduction, lane count of the SSE2 backend and the block offsets")
    L.append("   of argmax_sse2 (`(0..C::Quotient::USIZE).map(|i| i * Lanes::USIZE)`, q = C / Lanes) *)")
    L.append("Definition gen_sse2_lanes : nat := %d." % cmp["sse2_lanes"])
    L.append("Definition gen_argmax_sse2_block_offsets (q : nat) : list nat := map (fun i => i * gen_sse2_lanes) (seq 0 q).")
    L.append("Definition gen_argmax_sse2_vcmp : vcmp := %s." % cmp["sse2_vcmp"])
    L.append("Definition gen_argmax_sse2_rcmp : rcmp := %s." % cmp["sse2_rcmp"])
    L.append("Definition gen_argmax_f32_avx2_vcmp : vcmp := %s." % cmp["avx2_vcmp"])
    L.append("Definition gen_argmax_f32_avx2_rcmp : rcmp := %s." % cmp["avx2_rcmp"])
    L.append("")
    return "\n".join(L)


def run(write=True):
    notes, errors = [], []
    try:
        wrappers = parse_wrappers()
        disp = parse_dispatch(wrappers)
        pipes = parse_pipelines(wrappers)
        k = parse_kernels()
        lanes = parse_lanes()
        buf = parse_buffer()
        cmp = parse_compares()
        text = render(disp, pipes, k, lanes, buf, cmp)
    except (ParseError, OSError, ValueError, IndexError, KeyError, AttributeError) as e:
        errors.append("maxi_tables: cannot parse the source: %s" % e)
        if not os.path.exists(OUT):
            errors.append("no previously generated GenMaxi.v")
        return dict(ok=False, notes=notes, errors=errors)
    changed = False
    if write:
        try:
            old = open(OUT).read()
        except OSError:
            old = None
        if old != text and REPO != "/repo" and old is not None:
            # a scratch repository (VERIF_REPO): never rewrite the shared generated file (other
            # checks may be running on /repo); the theorems of C07Source.v are about the
            # tables of /repo, so tables that differ are a broken obligation
            ol, nl = old.split("\n"), text.split("\n")
            diffs = ["`%s` (GenMaxi.v: `%s`)" % (b.strip(), a.strip())
                     for a, b in zip(ol, nl) if a != b][:4]
            if len(ol) != len(nl):
                diffs.append("%d lines instead of %d" % (len(nl), len(ol)))
            errors.append("maxi_tables: the tables read from %s differ from coq/maxi/GenMaxi.v, so the theorems of "
                          "C07Source.v (C07_source_*) do not speak about this source: %s" % (REPO, "; ".join(diffs)))
            return dict(ok=False, notes=notes, errors=errors)
        if old != text:
            with open(OUT, "w") as f:
                f.write(text)
            changed = True
    notes.append("maxi_tables: dispatch %s; u8 reconstruction %s%s" % (
        ",".join("%s:%s.%s.%s->%s" % (h, e, o, a, v) for (h, e, o, a), v in sorted(disp.items()) if a != "Generic"),
        k["u8_q"], " (regenerated)" if changed else ""))
    return dict(ok=True, notes=notes, errors=errors)


if __name__ == "__main__":
    r = run(write="--dry" not in sys.argv)
    print(r)
    sys.exit(0 if r["ok"] else 1)
