"""Translator for property C18 (group `pyidx`).

Re-extracts, from the repository's working tree on every run,
  lightmotif-py/lightmotif/lib.rs (and io.rs for stray slots):
    * which #[pymethods] blocks define __len__, __getitem__, __getbuffer__
      (the classes the model covers, and a count of any other class that has one);
    * per __getbuffer__: the item format literal (b"B\\0" ...), `ndim`, the type whose
      size is the itemsize, and whether shape/strides are exported or NULL;
    * per __getbuffer__ also: readonly, suboffsets/internal NULL, view.obj, the WRITABLE and
      NULL-view guards, that `flags` is used for nothing else; classes with __releasebuffer__;
    * lightmotif/src: DEFAULT_EXTRA_ROWS (seq.rs, and its two uses in pli/mod.rs), the
      repr(align) of dense.rs Row on x86_64, the Lanes of Dispatch on x86 (DefaultColumns);
    * the shape / strides arrays cached by `From<StripedSequenceData> for StripedSequence`,
      `ScoringMatrix::new` and `From<StripedScores<f32>> for StripedScores`, as
      polynomials in R (rows), C (columns), S (row stride in elements);
and writes coq/pyidx/GenSlots.v (only if changed).  C18.v proves that the hand-written
model (PyIdxModel.v) agrees with the generated tables (C18_model_matches_source).
Trusted: that this reader sees the Rust source the way rustc does (regex + brace
matching on a few syntactic shapes).  A source it can no longer read gives
dict(ok=False, errors=[...]) — a broken obligation, never a crash."""
import os
import re

REPO = os.environ.get("VERIF_REPO", "/repo").rstrip("/") or "/repo"
VERIF = os.path.dirname(os.path.dirname(os.path.abspath(__file__)))
OUT = os.path.join(VERIF, "coq", "pyidx", "GenSlots.v")

KINDS = [("KEnc", "EncodedSequence"), ("KDist", "ScoreDistribution"), ("KCount", "CountMatrix"),
         ("KWeight", "WeightMatrix"), ("KScoring", "ScoringMatrix"), ("KStriped", "StripedSequence"),
         ("KScores", "StripedScores")]
SIZES = {"u8": 1, "Nucleotide": 1, "u32": 4, "f32": 4, "f64": 8}
FMT = {"B": "FmtB", "f": "Fmtf", "d": "Fmtd"}


class ParseError(Exception):
    pass


def strip_comments(src):
    out, i, n = [], 0, len(src)
    while i < n:
        if src.startswith("//", i):
            j = src.find("\n", i)
            i = n if j < 0 else j
        elif src.startswith("/*", i):
            j = src.find("*/", i + 2)
            i = n if j < 0 else j + 2
        elif src[i] == '"':
            j = i + 1
            while j < n and src[j] != '"':
                j += 2 if src[j] == "\\" else 1
            out.append(src[i:j + 1])
            i = j + 1
        else:
            out.append(src[i])
            i += 1
    return "".join(out)


def block_at(src, open_brace):
    depth, i = 0, open_brace
    while i < len(src):
        if src[i] == "{":
            depth += 1
        elif src[i] == "}":
            depth -= 1
            if depth == 0:
                return src[open_brace:i + 1]
        i += 1
    raise ParseError("unbalanced braces")


def pymethods_blocks(src):
    res = {}
    for m in re.finditer(r"#\[pymethods\]\s*impl\s+(\w+)\s*\{", src):
        res.setdefault(m.group(1), "")
        res[m.group(1)] += block_at(src, m.end() - 1)
    return res


def fn_body(block, name):
    m = re.search(r"\bfn\s+%s\b[^{;]*\{" % re.escape(name), block)
    if not m:
        return None
    return block_at(block, m.end() - 1)


def poly(expr):
    """`(stride * std::mem::size_of::<f32>()) as Py_ssize_t` -> Coq term over R C S"""
    e = expr.strip()
    e = re.sub(r"\bas\s+(Py_ssize_t|isize)\b", "", e)

    def size(m):
        if m.group(1) not in SIZES:
            raise ParseError("unknown element type " + m.group(1))
        return str(SIZES[m.group(1)])
    e = re.sub(r"std::mem::size_of::<(\w+)>\(\)", size, e)
    e = re.sub(r"[\w.()]*\bstride\b(\(\))?", "S", e)
    e = re.sub(r"[\w.()]*\bcolumns\(\)", "C", e)
    e = re.sub(r"\bcols\b", "C", e)
    e = re.sub(r"[\w.()]*\brows\b(\(\))?", "R", e)
    e = e.replace("(", " ").replace(")", " ")
    toks = e.split()
    if not toks or any(not re.fullmatch(r"[RCS]|\d+|\*", t) for t in toks):
        raise ParseError("cannot read shape/stride expression %r" % expr)
    if toks[0] == "*" or toks[-1] == "*" or any(a != "*" and b != "*" for a, b in zip(toks, toks[1:])):
        raise ParseError("cannot read shape/stride expression %r" % expr)
    return "(" + " ".join(toks) + ")%Z"


def array2(body, name):
    m = re.search(r"let\s+%s\s*=\s*\[(.*?)\]\s*;" % name, body, re.S)
    if not m:
        raise ParseError("no `let %s = [..]`" % name)
    parts = [p for p in m.group(1).split(",") if p.strip()]
    if len(parts) != 2:
        raise ParseError("`%s` is not a 2-element array" % name)
    return [poly(p) for p in parts]


def ctor_body(src, pattern, what):
    m = re.search(pattern, src)
    if not m:
        raise ParseError("constructor not found: " + what)
    return block_at(src, m.end() - 1)


def translate():
    notes, errors = [], []
    try:
        src = strip_comments(open(os.path.join(REPO, "lightmotif-py", "lightmotif", "lib.rs")).read())
        try:
            io_src = strip_comments(open(os.path.join(REPO, "lightmotif-py", "lightmotif", "io.rs")).read())
        except OSError:
            io_src = ""
        blocks = pymethods_blocks(src)
        for k, v in pymethods_blocks(io_src).items():
            blocks[k] = blocks.get(k, "") + v
        modelled = dict((cls, k) for k, cls in KINDS)
        slots = {}
        other = []
        for cls, blk in blocks.items():
            s = tuple(fn_body(blk, n) is not None for n in ("__len__", "__getitem__", "__getbuffer__"))
            if cls in modelled:
                slots[cls] = s
            elif any(s):
                other.append(cls)
        for k, cls in KINDS:
            if cls not in slots:
                raise ParseError("no #[pymethods] block for " + cls)
        bufs = {}
        misc = {}
        for k, cls in KINDS:
            body = fn_body(blocks[cls], "__getbuffer__")
            if body is None:
                bufs[k] = None
                misc[k] = None
                continue
            f = re.findall(r'from_bytes_with_nul\(b"(\w)\\0"\)', body)
            nd = re.findall(r"\(\*view\)\.ndim\s*=\s*(\d+)\s*;", body)
            it = re.findall(r"\(\*view\)\.itemsize\s*=\s*std::mem::size_of::<(\w+)>\(\)", body)
            sh = re.findall(r"\(\*view\)\.shape\s*=\s*([^;]+);", body)
            st = re.findall(r"\(\*view\)\.strides\s*=\s*([^;]+);", body)
            if len(f) != 1 or len(nd) != 1 or len(it) != 1 or len(sh) != 1 or len(st) != 1:
                raise ParseError("cannot read __getbuffer__ of " + cls)
            if f[0] not in FMT or it[0] not in SIZES:
                raise ParseError("unknown format/itemsize in __getbuffer__ of " + cls)
            null = lambda e: "null_mut" in e
            bufs[k] = (FMT[f[0]], int(nd[0]), SIZES[it[0]], not null(sh[0]), not null(st[0]))
            # guards and the remaining fields
            ro = re.findall(r"\(\*view\)\.readonly\s*=\s*(\d+)\s*;", body)
            sub = re.findall(r"\(\*view\)\.suboffsets\s*=\s*([^;]+);", body)
            internal = re.findall(r"\(\*view\)\.internal\s*=\s*([^;]+);", body)
            own = re.findall(r"\(\*view\)\.obj\s*=\s*pyo3::ffi::_Py_NewRef\(slf\.as_ptr\(\)\)\s*;", body)
            wr = re.search(r"if\s*\(flags\s*&\s*pyo3::ffi::PyBUF_WRITABLE\)\s*==\s*pyo3::ffi::PyBUF_WRITABLE\s*\{\s*return\s+Err\(PyBufferError::new_err", body)
            nl = re.search(r"if\s+view\.is_null\(\)\s*\{\s*return\s+Err\(PyBufferError::new_err", body)
            flag_uses = len(re.findall(r"\bflags\b", body))
            if len(ro) != 1 or len(sub) != 1 or len(internal) != 1:
                raise ParseError("cannot read readonly/suboffsets/internal in __getbuffer__ of " + cls)
            # (readonly, suboffsets NULL, internal NULL, owns exporter, refuses WRITABLE, refuses NULL view,
            #  flags used for nothing else: `flags` occurs once in the body: the WRITABLE test)
            misc[k] = (ro[0] == "1", null(sub[0]), null(internal[0]), len(own) == 1, wr is not None, nl is not None,
                       flag_uses == 1)
        release = [cls for cls, blk in blocks.items() if fn_body(blk, "__releasebuffer__") is not None]
        ss = ctor_body(src, r"impl\s+From<StripedSequenceData>\s+for\s+StripedSequence\s*\{", "StripedSequence")
        sm = ctor_body(src, r"impl\s+ScoringMatrix\s*\{\s*fn\s+new\b[^{]*\{", "ScoringMatrix::new")
        sc = ctor_body(src, r"impl\s+From<lightmotif::scores::StripedScores<f32>>\s+for\s+StripedScores\s*\{", "StripedScores")
        arrays = {}
        for name, body in (("striped", ss), ("scoring", sm), ("scores", sc)):
            arrays[name] = (array2(body, "shape"), array2(body, "strides"))
        # constants of the core crate the model copies
        core = os.path.join(REPO, "lightmotif", "src")
        seq_rs = strip_comments(open(os.path.join(core, "seq.rs")).read())
        m = re.search(r"const\s+DEFAULT_EXTRA_ROWS\s*:\s*usize\s*=\s*(\d+)\s*;", seq_rs)
        if not m:
            raise ParseError("DEFAULT_EXTRA_ROWS not found in seq.rs")
        extra_rows = int(m.group(1))
        pli_mod = strip_comments(open(os.path.join(core, "pli", "mod.rs")).read())
        if len(re.findall(r"rows\s*\+\s*crate::seq::DEFAULT_EXTRA_ROWS", pli_mod)) != 2:
            raise ParseError("Stripe::stripe / stripe_into no longer compute capacity = rows + DEFAULT_EXTRA_ROWS")
        dense_rs = strip_comments(open(os.path.join(core, "dense.rs")).read())
        m = re.search(r'#\[cfg_attr\(target_arch\s*=\s*"x86_64",\s*repr\(align\((\d+)\)\)\)\]', dense_rs)
        if not m:
            raise ParseError("repr(align) of Row for x86_64 not found in dense.rs")
        row_align = int(m.group(1))
        if not re.search(r"type\s+DefaultColumns\s*=\s*<Dispatch\s+as\s+Backend>::Lanes\s*;", dense_rs):
            raise ParseError("DefaultColumns is no longer <Dispatch as Backend>::Lanes")
        disp = strip_comments(open(os.path.join(core, "pli", "dispatch.rs")).read())
        m = re.search(r'#\[cfg\(any\(target_arch\s*=\s*"x86",\s*target_arch\s*=\s*"x86_64"\)\)\]\s*type\s+Lanes\s*=\s*<(\w+)\s+as\s+Backend>::Lanes\s*;', disp)
        if not m:
            raise ParseError("Lanes of Dispatch on x86 not found in dispatch.rs")
        plat = strip_comments(open(os.path.join(core, "pli", "platform", m.group(1).lower() + ".rs")).read())
        m2 = re.search(r"impl\s+Backend\s+for\s+%s\s*\{\s*type\s+Lanes\s*=\s*U(\d+)\s*;" % m.group(1), plat)
        if not m2:
            raise ParseError("Lanes of %s not found" % m.group(1))
        lanes = int(m2.group(1))
    except (ParseError, OSError) as e:
        return dict(ok=False, errors=["pyidx_slots: %s" % e], notes=notes)

    b = lambda x: "true" if x else "false"
    L = ["(* GENERATED by translate/pyidx_slots.py from lightmotif-py/lightmotif/lib.rs — do not edit. *)",
         "From Coq Require Import List ZArith.", "From LMPyIdx Require Import PyIdxModel PyIdxSpec.", "Import ListNotations.", ""]
    for idx, name in enumerate(("gen_has_len", "gen_has_getitem")):
        L.append("Definition %s (k : kind) : bool :=\n  match k with" % name)
        for k, cls in KINDS:
            L.append("  | %s => %s" % (k, b(slots[cls][idx])))
        L.append("  end.\n")
    L.append("(* __getbuffer__: (format, ndim, itemsize, shape exported, strides exported) *)")
    L.append("Definition gen_getbuffer (k : kind) : option (fmt * nat * Z * bool * bool) :=\n  match k with")
    for k, cls in KINDS:
        v = bufs[k]
        L.append("  | %s => %s" % (k, "None" if v is None else "Some (%s, %d, %d%%Z, %s, %s)" % (v[0], v[1], v[2], b(v[3]), b(v[4]))))
    L.append("  end.\n")
    L.append("(* __getbuffer__: (readonly, suboffsets NULL, internal NULL, view.obj = new reference to the exporter,")
    L.append("   WRITABLE requests refused, NULL view refused, flags used for nothing else) *)")
    L.append("Definition gen_getbuffer_misc (k : kind) : option (bool * bool * bool * bool * bool * bool * bool) :=\n  match k with")
    for k, cls in KINDS:
        v = misc[k]
        L.append("  | %s => %s" % (k, "None" if v is None else "Some (%s)" % ", ".join(b(x) for x in v)))
    L.append("  end.\n")
    L.append("(* classes defining __releasebuffer__ *)")
    L.append("Definition gen_releasebuffer_classes : nat := %d.\n" % len(release))
    L.append("(* constants of the core crate: seq.rs DEFAULT_EXTRA_ROWS (capacity = rows + it in Stripe::stripe and")
    L.append("   stripe_into), dense.rs repr(align) of Row on x86_64, Lanes of Dispatch on x86 (= DefaultColumns) *)")
    L.append("Definition gen_extra_rows : nat := %d." % extra_rows)
    L.append("Definition gen_row_align : nat := %d." % row_align)
    L.append("Definition gen_lanes : nat := %d.\n" % lanes)
    L.append("(* classes outside the model that define __len__/__getitem__/__getbuffer__ *)")
    L.append("Definition gen_unmodelled_slots : nat := %d.\n" % len(other))
    for name in ("striped", "scoring", "scores"):
        sh, st = arrays[name]
        L.append("Definition gen_%s_shape (R C S : Z) : Z * Z := (%s, %s)." % (name, sh[0], sh[1]))
        L.append("Definition gen_%s_strides (R C S : Z) : Z * Z := (%s, %s).\n" % (name, st[0], st[1]))
    text = "\n".join(L)
    try:
        old = open(OUT).read()
    except OSError:
        old = None
    if old != text:
        with open(OUT, "w") as f:
            f.write(text)
        notes.append("GenSlots.v regenerated")
    if other:
        notes.append("classes with sequence/buffer slots outside the model: " + ", ".join(sorted(other)))
    return dict(ok=True, notes=notes, errors=errors)


if __name__ == "__main__":
    print(translate())
