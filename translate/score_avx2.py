"""Translator for property C01: /repo source -> coq/score/GenAvx2.v.

Reads, from the working tree of /repo,
  * lightmotif/src/pli/platform/avx2.rs, functions `score_f32_avx2_permute` and
    `score_f32_avx2_gather`:
      - the byte-shuffle masks `let mK = _mm256_set_epi32(e7, .., e0);`
      - which mask feeds which accumulator, by following
            let xA = _mm256_shuffle_epi8(x, mK);
            let bB = _mm256_permutevar8x32_ps(t, xA);      (permute kernel)
            let bB = _mm256_i32gather_ps(pssmptr, xA, 4);  (gather kernel)
            sC = _mm256_add_ps(sC, bB);
      - the un-permutation `let rK = _mm256_permute2f128_ps(sA, sB, imm);`
      - the stores `_mm256_stream_ps(rowptr.add(off), rK);` in program order;
  * lightmotif/src/pli/dispatch.rs: the `match self.backend` table of
    `impl Score<f32, A, Lanes> for Pipeline<A, Dispatch>`.
and writes them as plain data for the Coq development.  The meaning of the
intrinsics is in coq/score/SimdModel.v; that the constants put every column's
score in its own cell is re-proved from the generated file on every run
(SimdProofs.avx2_*_layout, by vm_compute reflection), and the extracted model
that is compared with the implementation is built from the same file.

Anything that does not have the expected shape makes `run()` return ok=False:
the check then treats the obligation as broken (it does not crash) and keeps the
previously generated file for the correspondence run.
"""
import os
import re
import sys

VERIF = os.path.dirname(os.path.dirname(os.path.abspath(__file__)))
REPO = os.environ.get("VERIF_REPO", "/repo").rstrip("/") or "/repo"   # same override as vlib/common.py
AVX2 = os.path.join(REPO, "lightmotif/src/pli/platform/avx2.rs")
DISPATCH = os.path.join(REPO, "lightmotif/src/pli/dispatch.rs")
OUT = os.path.join(VERIF, "coq", "score", "GenAvx2.v")


class ParseError(Exception):
    pass


def _strip_comments(src):
    src = re.sub(r"/\*.*?\*/", " ", src, flags=re.S)
    src = re.sub(r"//[^\n]*", " ", src)
    return src


def _num(tok):
    tok = tok.strip().replace("_", "")
    v = int(tok, 16) if tok.lower().startswith("0x") else int(tok)
    return v


def _function_body(src, name):
    m = re.search(r"\bfn\s+%s\b" % re.escape(name), src)
    if not m:
        raise ParseError("function %s not found" % name)
    i = src.index("{", src.index(")", m.end()))
    depth = 0
    j = i
    while j < len(src):
        if src[j] == "{":
            depth += 1
        elif src[j] == "}":
            depth -= 1
            if depth == 0:
                return src[i + 1:j]
        j += 1
    raise ParseError("unbalanced braces in %s" % name)


MASK_RE = re.compile(r"let\s+m(\d+)\s*=\s*_mm256_set_epi32\s*\(([^)]*)\)\s*;")
SHUF_RE = re.compile(r"let\s+x(\d+)\s*=\s*_mm256_shuffle_epi8\s*\(\s*x\s*,\s*m(\d+)\s*\)\s*;")
PERMV_RE = re.compile(r"let\s+b(\d+)\s*=\s*_mm256_permutevar8x32_ps\s*\(\s*t\s*,\s*x(\d+)\s*\)\s*;")
GATH_RE = re.compile(
    r"let\s+b(\d+)\s*=\s*_mm256_i32gather_ps\s*\(\s*pssmptr\s*,\s*x(\d+)\s*,\s*"
    r"(?:std::mem::size_of::<f32>\(\)\s*as\s*i32|4)\s*\)\s*;")
ADD_RE = re.compile(r"\bs(\d+)\s*=\s*_mm256_add_ps\s*\(\s*s(\d+)\s*,\s*b(\d+)\s*\)\s*;")
P2_RE = re.compile(
    r"let\s+r(\d+)\s*=\s*_mm256_permute2f128_ps\s*\(\s*s(\d+)\s*,\s*s(\d+)\s*,\s*([0-9xXa-fA-F_]+)\s*\)\s*;")
STORE_RE = re.compile(
    r"(_mm256_stream_ps|_mm256_store_ps|_mm256_storeu_ps)\s*\(\s*rowptr\s*\.\s*add\s*\(\s*([0-9xXa-fA-F_]+)\s*\)\s*,\s*r(\d+)\s*\)\s*;")

REQUIRED = [
    (r"for\s+i\s+in\s+rows\b", "row loop `for i in rows`"),
    (r"for\s+_\s+in\s+0\s*\.\.\s*pssm\s*\.\s*rows\s*\(\s*\)", "motif loop `for _ in 0..pssm.rows()`"),
    (r"let\s+x\s*=\s*_mm256_load_si256\s*\(\s*seqptr\s+as\s+\*const\s+__m256i\s*\)\s*;", "load of the sequence row"),
    (r"seqptr\s*=\s*seqptr\s*\.\s*add\s*\(\s*seq\s*\.\s*matrix\s*\(\s*\)\s*\.\s*stride\s*\(\s*\)\s*\)\s*;", "seqptr advance by one row"),
    (r"pssmptr\s*=\s*pssmptr\s*\.\s*add\s*\(\s*pssm\s*\.\s*stride\s*\(\s*\)\s*\)\s*;", "pssmptr advance by one row"),
    (r"rowptr\s*=\s*rowptr\s*\.\s*add\s*\(\s*data\s*\.\s*stride\s*\(\s*\)\s*\)\s*;", "rowptr advance by one row"),
    (r"let\s+mut\s+seqptr\s*=\s*seq\s*\.\s*matrix\s*\(\s*\)\s*\[\s*i\s*\]\s*\.\s*as_ptr\s*\(\s*\)\s*;", "seqptr = seq.matrix()[i]"),
    (r"let\s+mut\s+pssmptr\s*=\s*pssm\s*\[\s*0\s*\]\s*\.\s*as_ptr\s*\(\s*\)\s*;", "pssmptr = pssm[0]"),
    (r"let\s+mut\s+rowptr\s*=\s*data\s*\[\s*0\s*\]\s*\.\s*as_mut_ptr\s*\(\s*\)\s*;", "rowptr = data[0]"),
]


def parse_kernel(src, name, kind):
    body = _function_body(src, name)
    for rx, what in REQUIRED:
        if not re.search(rx, body):
            raise ParseError("%s: %s not found" % (name, what))
    masks = {}
    for m in MASK_RE.finditer(body):
        vals = [_num(t) for t in m.group(2).split(",") if t.strip()]
        if len(vals) != 8:
            raise ParseError("%s: mask m%s does not have 8 lanes" % (name, m.group(1)))
        masks[int(m.group(1))] = [v & 0xFFFFFFFF for v in vals]
    shuf = {int(m.group(1)): int(m.group(2)) for m in SHUF_RE.finditer(body)}       # x_a <- m_k
    if kind == "permute":
        if not re.search(r"let\s+t\s*=\s*_mm256_load_ps\s*\(\s*pssmptr\s*\)\s*;", body):
            raise ParseError("%s: `let t = _mm256_load_ps(pssmptr)` not found" % name)
        look = {int(m.group(1)): int(m.group(2)) for m in PERMV_RE.finditer(body)}  # b_b <- x_a
        if GATH_RE.search(body):
            raise ParseError("%s: unexpected gather in the permute kernel" % name)
    else:
        look = {int(m.group(1)): int(m.group(2)) for m in GATH_RE.finditer(body)}
        if PERMV_RE.search(body):
            raise ParseError("%s: unexpected permutevar in the gather kernel" % name)
    adds = {}
    for m in ADD_RE.finditer(body):
        if m.group(1) != m.group(2):
            raise ParseError("%s: accumulator s%s is not updated in place" % (name, m.group(1)))
        if int(m.group(1)) in adds:
            raise ParseError("%s: accumulator s%s updated twice" % (name, m.group(1)))
        adds[int(m.group(1))] = int(m.group(3))
    accs = sorted(adds)
    if accs != list(range(1, len(accs) + 1)) or not accs:
        raise ParseError("%s: accumulators are not s1..sn" % name)
    for a in accs:
        if not re.search(r"let\s+mut\s+s%d\s*=\s*_mm256_setzero_ps\s*\(\s*\)\s*;" % a, body):
            raise ParseError("%s: accumulator s%d is not reset with _mm256_setzero_ps" % (name, a))
    acc_masks = []
    for a in accs:
        b = adds[a]
        if b not in look:
            raise ParseError("%s: b%d has no look-up" % (name, b))
        x = look[b]
        if x not in shuf:
            raise ParseError("%s: x%d has no shuffle" % (name, x))
        k = shuf[x]
        if k not in masks:
            raise ParseError("%s: mask m%d is not defined" % (name, k))
        acc_masks.append(masks[k])
    if len(look) != len(accs) or len(shuf) != len(accs):
        raise ParseError("%s: unused shuffles or look-ups" % name)
    perms = {}
    for m in P2_RE.finditer(body):
        a, b = int(m.group(2)), int(m.group(3))
        if a not in adds or b not in adds:
            raise ParseError("%s: permute2f128 of an unknown accumulator" % name)
        perms[int(m.group(1))] = (a - 1, b - 1, _num(m.group(4)))
    stores = []
    for m in STORE_RE.finditer(body):
        r = int(m.group(3))
        if r not in perms:
            raise ParseError("%s: store of an undefined register r%d" % (name, r))
        stores.append((_num(m.group(2)), perms[r]))
    if not stores:
        raise ParseError("%s: no stores found" % name)
    return dict(masks=acc_masks, stores=stores)


def parse_dispatch(src):
    m = re.search(r"impl\s*<\s*A\s*:\s*Alphabet\s*>\s*Score\s*<\s*f32\s*,[^{]*?for\s+Pipeline\s*<\s*A\s*,\s*Dispatch\s*>\s*\{",
                  src, re.S)
    if not m:
        raise ParseError("impl Score<f32, ..> for Pipeline<A, Dispatch> not found")
    i = m.end() - 1
    depth = 0
    j = i
    while j < len(src):
        if src[j] == "{":
            depth += 1
        elif src[j] == "}":
            depth -= 1
            if depth == 0:
                break
        j += 1
    text = src[i:j]
    mm = re.search(r"match\s+self\s*\.\s*backend\s*\{(.*)\}", text, re.S)
    if not mm:
        raise ParseError("`match self.backend` not found in the dispatching score_rows_into")
    arms_txt = mm.group(1)
    kernels = {"Avx2::score_f32_rows_into": "KAvx2", "Sse2::score_rows_into": "KSse2",
               "Neon::score_f32_rows_into": "NKNeon"}
    # every arm with the #[cfg(any(target_arch = ..))] attribute in front of it (None = unconditional)
    arms = []
    for am in re.finditer(r"(?:#\[cfg\(any\(([^\]]*)\)\)\]\s*)?(Dispatch::(\w+)|_)\s*=>\s*"
                          r"(<\s*Generic\s+as\s+Score\s*<\s*f32\b[^;(]*?>\s*::\s*score_rows_into|(\w+\s*::\s*\w+))\s*\(",
                          arms_txt, re.S):
        cfg = am.group(1)
        if cfg is None:
            host = None
        elif "x86" in cfg and "arm" not in cfg and "aarch64" not in cfg:
            host = "x86"
        elif ("arm" in cfg or "aarch64" in cfg) and "x86" not in cfg:
            host = "arm"
        else:
            raise ParseError("dispatch arm with an unexpected cfg: %s" % cfg.strip())
        if am.group(5):
            target = re.sub(r"\s+", "", am.group(5))
            if target not in kernels:
                raise ParseError("dispatch arm targets unknown kernel %s" % target)
            k = kernels[target]
        else:
            k = "generic"
        arms.append((host, am.group(3), k))          # group(3) is None for `_`

    def table_for(host, variants, generic_name, allowed):
        table, default = {}, None
        for h, arm, k in arms:
            if h is not None and h != host:
                continue
            k = generic_name if k == "generic" else k
            if k not in allowed:
                raise ParseError("%s arm %s targets %s" % (host, arm or "_", k))
            if arm is None:
                default = k
            elif arm in table:
                raise ParseError("dispatch arm %s appears twice for %s hosts" % (arm, host))
            else:
                table[arm] = k
        out = {}
        for arm in variants:
            if arm in table:
                out[arm] = table[arm]
            elif default is not None:
                out[arm] = default
            else:
                raise ParseError("dispatch arm %s has no kernel on %s hosts" % (arm, host))
        return out

    x86 = table_for("x86", ("Generic", "Sse2", "Avx2"), "KGeneric", ("KGeneric", "KSse2", "KAvx2"))
    arm = table_for("arm", ("Generic", "Neon"), "NKGeneric", ("NKGeneric", "NKNeon"))
    return x86, arm


# the steps of a safe scoring wrapper, in the order SimdModel.simd_guard models them
WRAPPER_STEPS = [
    ("WWrapGuard", r"if\s+seq\s*\.\s*wrap\s*\(\s*\)\s*<\s*pssm\s*\.\s*rows\s*\(\s*\)\s*-\s*1\s*\{\s*panic!"),
    ("WShortReturn", r"if\s+seq\s*\.\s*len\s*\(\s*\)\s*<\s*pssm\s*\.\s*rows\s*\(\s*\)\s*\|\|\s*rows\s*\.\s*is_empty\s*\(\s*\)\s*\{\s*scores\s*\.\s*resize\s*\(\s*0\s*,\s*0\s*\)\s*;\s*return\s*;"),
    ("WRangeGuard", r"if\s+rows\s*\.\s*end\s*\+\s*pssm\s*\.\s*rows\s*\(\s*\)\s*-\s*1\s*>\s*seq\s*\.\s*matrix\s*\(\s*\)\s*\.\s*rows\s*\(\s*\)\s*\{\s*panic!"),
    ("WResize", r"scores\s*\.\s*resize\s*\(\s*rows\s*\.\s*len\s*\(\s*\)\s*,\s*\(\s*seq\s*\.\s*len\s*\(\s*\)\s*\+\s*1\s*\)\s*\.\s*saturating_sub\s*\(\s*pssm\s*\.\s*rows\s*\(\s*\)\s*\)\s*\)\s*;"),
]


def wrapper_steps(src, fn, kernel):
    """The recognised steps of the safe wrapper `fn`, in source order, as constructor names of
    SimdModel.wrapper_step; WOther for an early `return`, `panic!` or `resize` that is none of the
    modelled ones.  A missing, duplicated or reordered guard changes the list (and the generated
    theorem C01_wrapper_guards_as_modelled no longer checks)."""
    body = _function_body(src, fn)
    found = []
    covered = []
    for name, rx in WRAPPER_STEPS + [("WKernel", r"\b%s\s*\(\s*pssm\s*,\s*seq\s*,\s*rows\s*,\s*scores\s*\)" % kernel)]:
        for m in re.finditer(rx, body):
            found.append((m.start(), name))
            covered.append((m.start(), m.end()))
            # a guard or the resize nested in another block (`if .. { scores.resize(..) }`), or a kernel
            # call nested deeper than its `unsafe { }` block, is conditional: not the modelled step
            depth = body[:m.start()].count("{") - body[:m.start()].count("}")
            if depth > (1 if name == "WKernel" else 0):
                found.append((m.start(), "WOther"))
    # anything else that can leave the wrapper early or resize the buffer
    for m in re.finditer(r"\breturn\b|\bpanic!|\.\s*resize\s*\(", body):
        if not any(a <= m.start() < b for a, b in covered):
            # the panic of the non-x86 / non-Arm cfg branch after the kernel call is not a guard
            tail = body[m.start():m.start() + 80]
            if re.match(r"panic!\s*\(\s*\"attempting to run", tail):
                continue
            found.append((m.start(), "WOther"))
    return [n for _, n in sorted(found)]


def parse_kernel_choice(src):
    """`if A::K::USIZE <= N { permute } else { gather }` of Avx2::score_f32_rows_into."""
    body = _function_body(src, "score_f32_rows_into")
    m = re.search(r"if\s+A\s*::\s*K\s*::\s*USIZE\s*<=\s*(\d+)\s*\{\s*Self\s*::\s*score_f32_rows_into_permute\s*\([^)]*\)\s*;?\s*\}"
                  r"\s*else\s*\{\s*Self\s*::\s*score_f32_rows_into_gather\s*\(", body)
    if not m:
        raise ParseError("score_f32_rows_into: `if A::K::USIZE <= N { permute } else { gather }` not found")
    return int(m.group(1))


def _consts(name, k):
    L = ["Definition %s : avx2_consts := mkAvx2Consts" % name]
    rows = []
    for m in k["masks"]:
        rows.append("[" + "; ".join("0x%08X" % v for v in m) + "]%N")
    L.append("  [" + ";\n   ".join(rows) + "]")
    L.append("  [" + "; ".join("(%d, %d, 0x%02X%%N)" % p for _, p in k["stores"]) + "]")
    L.append("  [" + "; ".join("%d" % off for off, _ in k["stores"]) + "].")
    return L


def _steps(name, steps, what):
    return ["(* %s *)" % what,
            "Definition %s : list wrapper_step := [%s]." % (name, "; ".join(steps))]


def render(perm, gath, disp, disp_arm, wrappers, max_k):
    L = []
    L.append("(* GENERATED by translate/score_avx2.py from /repo/lightmotif/src/pli/platform/avx2.rs")
    L.append("   (score_f32_avx2_permute, score_f32_avx2_gather, the three AVX2 score wrappers) and")
    L.append("   pli/dispatch.rs -- do not edit; regenerated on every check. *)")
    L.append("From Coq Require Import List NArith.")
    L.append("From LMScore Require Import ScoreModel SimdModel.")
    L.append("Import ListNotations.")
    L.append("")
    L.append("(* masks: per accumulator s1.., the arguments of _mm256_set_epi32 (e7 first) of the mask")
    L.append("   whose shuffle feeds it; then (a, b, imm) of the permute2f128(s_a+1, s_b+1, imm) stored")
    L.append("   by each store, in program order; then the element offsets of those stores *)")
    L += _consts("avx2_permute_consts", perm)
    L.append("")
    L += _consts("avx2_gather_consts", gath)
    L.append("")
    L.append("(* `match self.backend` of impl Score<f32, A, Lanes> for Pipeline<A, Dispatch>: the arms compiled")
    L.append("   on x86 / x86_64 hosts (cfg any(x86, x86_64) or unconditional) *)")
    L.append("Definition dispatch_score_f32 (a : arm) : kernel_id :=")
    L.append("  match a with")
    for arm in ("Generic", "Sse2", "Avx2"):
        L.append("  | Arm%s => %s" % (arm, disp[arm]))
    L.append("  end.")
    L.append("")
    L.append("(* the same match as compiled on arm / aarch64 hosts (cfg any(arm, aarch64) or unconditional) *)")
    L.append("Definition dispatch_score_f32_arm (a : neon_arm) : neon_kernel_id :=")
    L.append("  match a with")
    for arm in ("Generic", "Neon"):
        L.append("  | NArm%s => %s" % (arm, disp_arm[arm]))
    L.append("  end.")
    L.append("")
    L.append("(* Avx2::score_f32_rows_into: `if A::K::USIZE <= N { permute kernel } else { gather kernel }` *)")
    L.append("Definition avx2_permute_max_k : nat := %d." % max_k)
    L.append("")
    L.append("(* the recognised steps of the three safe AVX2 score wrappers, in source order *)")
    for name, what in (("avx2_permute_wrapper", "Avx2::score_f32_rows_into_permute"),
                       ("avx2_gather_wrapper", "Avx2::score_f32_rows_into_gather"),
                       ("avx2_u8_wrapper", "Avx2::score_u8_rows_into_shuffle")):
        L += _steps(name, wrappers[name], what)
    L.append("")
    return "\n".join(L)


def run(write=True):
    notes, errors = [], []
    try:
        src = _strip_comments(open(AVX2).read())
        perm = parse_kernel(src, "score_f32_avx2_permute", "permute")
        gath = parse_kernel(src, "score_f32_avx2_gather", "gather")
        disp, disp_arm = parse_dispatch(_strip_comments(open(DISPATCH).read()))
        wrappers = dict(
            avx2_permute_wrapper=wrapper_steps(src, "score_f32_rows_into_permute", "score_f32_avx2_permute"),
            avx2_gather_wrapper=wrapper_steps(src, "score_f32_rows_into_gather", "score_f32_avx2_gather"),
            avx2_u8_wrapper=wrapper_steps(src, "score_u8_rows_into_shuffle", "score_u8_avx2_shuffle"))
        max_k = parse_kernel_choice(src)
        text = render(perm, gath, disp, disp_arm, wrappers, max_k)
    except (ParseError, OSError, ValueError) as e:
        errors.append("score_avx2: cannot parse the source: %s" % e)
        if not os.path.exists(OUT):
            errors.append("no previously generated GenAvx2.v")
        return dict(ok=False, notes=notes, errors=errors)
    changed = False
    if write:
        try:
            old = open(OUT).read()
        except OSError:
            old = None
        if old != text:
            with open(OUT, "w") as f:
                f.write(text)
            changed = True
    notes.append("score_avx2: %d+%d masks, %d+%d stores, dispatch x86 %s, arm %s, permute for K <= %d, wrapper steps %s%s" % (
        len(perm["masks"]), len(gath["masks"]), len(perm["stores"]), len(gath["stores"]),
        ",".join("%s->%s" % kv for kv in sorted(disp.items())),
        ",".join("%s->%s" % kv for kv in sorted(disp_arm.items())), max_k,
        "/".join(str(len(v)) for v in wrappers.values()), " (regenerated)" if changed else ""))
    return dict(ok=True, notes=notes, errors=errors)


if __name__ == "__main__":
    r = run(write="--dry" not in sys.argv)
    print(r)
    sys.exit(0 if r["ok"] else 1)
