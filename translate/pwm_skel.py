"""Statement-skeleton translator for the `pwm` group (properties C09 / C10, round 3).

Re-reads /repo/lightmotif/src/pwm/mod.rs (working tree; VERIF_REPO override) and writes
coq/pwm/GenPwmSkel.v (only when changed):

  * `gen_skel_<fn>`  the statement skeleton (comments and all white space removed, split after every
    `;`, `{`, `}`) of the functions that coq/pwm/PwmStat.v models by hand: Correlation::{dot (macro arm), norm,
    auto_correlation, cross_correlation}, CountMatrix::{new, row_entropy, entropy, consensus},
    WeightMatrix::information_content, ScoringMatrix::information_content, From<ScoringMatrix> for WeightMatrix;
  * structured readings: the tolerance literal of FrequencyMatrix::new, the entropy threshold and comparison of
    consensus(), the guard of the entropy term, the number of `.sqrt()` in norm, the base of `powf`.

The model was written against the skeletons pinned in coq/pwm/PwmSkel.v; the theorem C09_source_skeleton
(`gen_* = model_*`, by computation, in C09Stat.v) breaks whenever one of these function bodies is edited (white
space and comments excepted).  Nothing is guessed: a source that cannot be read makes translate() return ok=False
(reported by the runner as a broken obligation); it never raises.
"""
import os
import re

REPO = os.environ.get("VERIF_REPO", "/repo").rstrip("/") or "/repo"   # same override as vlib/common.py
VERIF = os.path.dirname(os.path.dirname(os.path.abspath(__file__)))
SRC_REL = os.path.join("lightmotif", "src", "pwm", "mod.rs")
OUT = os.path.join(VERIF, "coq", "pwm", "GenPwmSkel.v")


class ParseError(Exception):
    pass


def strip_comments(src):
    src = re.sub(r"/\*.*?\*/", "", src, flags=re.S)
    return re.sub(r"//[^\n]*", "", src)


def block_at(src, start):
    """Text inside the brace block opening at the first '{' at or after `start`."""
    i = src.find("{", start)
    if i < 0:
        raise ParseError("no block")
    depth = 0
    for j in range(i, len(src)):
        if src[j] == "{":
            depth += 1
        elif src[j] == "}":
            depth -= 1
            if depth == 0:
                return src[i + 1:j]
    raise ParseError("unbalanced braces")


def skeleton(body):
    t = re.sub(r"\s+", "", body)
    out, cur = [], ""
    for ch in t:
        cur += ch
        if ch in ";{}":
            out.append(cur)
            cur = ""
    if cur:
        out.append(cur)
    return out


def region(src, head_pat, what):
    """The brace block that follows the (unique) match of head_pat."""
    ms = list(re.finditer(head_pat, src))
    if len(ms) != 1:
        raise ParseError("%s: expected exactly one match, found %d" % (what, len(ms)))
    return block_at(src, ms[0].end() - 1)


def fn_in(block, name_pat, what):
    ms = list(re.finditer(r"\bfn\s+" + name_pat + r"\s*(?:<[^>{]*>)?\s*\([^{]*\{", block))
    if len(ms) != 1:
        raise ParseError("fn %s: expected exactly one match, found %d" % (what, len(ms)))
    return block_at(block, ms[0].end() - 1)


def read_all(src):
    src = strip_comments(src)
    # drop the #[cfg(test)] module
    t = re.search(r"#\[cfg\(test\)\]\s*mod\s+test\s*\{", src)
    if t:
        src = src[:t.start()]
    macro = region(src, r"macro_rules!\s*matrix_traits\s*\{", "macro_rules! matrix_traits")
    trait = region(src, r"\bpub\s+trait\s+Correlation\s*\{", "trait Correlation")
    count_impl = region(src, r"impl\s*<\s*A\s*:\s*Alphabet\s*>\s*CountMatrix\s*<\s*A\s*>\s*\{", "impl CountMatrix")
    freq_impl = region(src, r"impl\s*<\s*A\s*:\s*Alphabet\s*>\s*FrequencyMatrix\s*<\s*A\s*>\s*\{", "impl FrequencyMatrix")
    weight_impl = region(src, r"impl\s*<\s*A\s*:\s*Alphabet\s*>\s*WeightMatrix\s*<\s*A\s*>\s*\{", "impl WeightMatrix")
    scoring_impl = region(src, r"impl\s*<\s*A\s*:\s*Alphabet\s*>\s*ScoringMatrix\s*<\s*A\s*>\s*\{", "impl ScoringMatrix")
    from_impl = region(src, r"impl\s*<\s*A\s*:\s*Alphabet\s*>\s*From\s*<\s*ScoringMatrix\s*<\s*A\s*>\s*>\s*for\s+WeightMatrix\s*<\s*A\s*>\s*\{",
                       "impl From<ScoringMatrix<A>> for WeightMatrix<A>")
    sk = {}
    sk["dot"] = skeleton(fn_in(macro, "dot", "dot (matrix_traits!)"))
    sk["num_rows"] = skeleton(fn_in(macro, "num_rows", "num_rows (matrix_traits!)"))
    sk["norm"] = skeleton(fn_in(trait, "norm", "norm"))
    sk["auto_correlation"] = skeleton(fn_in(trait, "auto_correlation", "auto_correlation"))
    sk["cross_correlation"] = skeleton(fn_in(trait, "cross_correlation", "cross_correlation"))
    sk["count_new"] = skeleton(fn_in(count_impl, "new", "CountMatrix::new"))
    sk["row_entropy"] = skeleton(fn_in(count_impl, "row_entropy", "row_entropy"))
    sk["entropy"] = skeleton(fn_in(count_impl, "entropy", "entropy"))
    sk["consensus"] = skeleton(fn_in(count_impl, "consensus", "consensus"))
    sk["weight_ic"] = skeleton(fn_in(weight_impl, "information_content", "WeightMatrix::information_content"))
    sk["scoring_ic"] = skeleton(fn_in(scoring_impl, "information_content", "ScoringMatrix::information_content"))
    sk["weight_from_scoring"] = skeleton(fn_in(from_impl, "from", "From<ScoringMatrix>::from"))
    freq_new = "".join(skeleton(fn_in(freq_impl, "new", "FrequencyMatrix::new")))

    def one(pattern, text, what):
        found = re.findall(pattern, text)
        if len(found) != 1:
            raise ParseError("%s: expected exactly one match, found %d" % (what, len(found)))
        return found[0]

    params = {}
    params["freq_tol"] = one(r"\.abs\(\)<([0-9.eE_+-]+)\)", freq_new, "tolerance of FrequencyMatrix::new")
    op, thr = one(r"ifentropy(>=|>|<=|<)([0-9.eE_+-]+)\{", "".join(sk["consensus"]), "entropy threshold of consensus")
    params["consensus_op"], params["consensus_threshold"] = op, thr
    params["entropy_guard"] = one(r"\.map\(\|p\|if(p[<>=]+[0-9.]+)\{", "".join(sk["row_entropy"]), "guard of the entropy term")
    params["norm_sqrt"] = len(re.findall(r"\.sqrt\(\)", "".join(sk["norm"])))
    params["pow_base"] = one(r"\*item=([0-9a-z_.]+)\.powf\(\*item\);", "".join(sk["weight_from_scoring"]), "base of powf")
    return sk, params


def coq_string(s):
    return '"' + s.replace('"', '""') + '"'


def coq_list(items, indent="  "):
    if not items:
        return "[]"
    return "[\n" + ";\n".join(indent + "  " + coq_string(x) for x in items) + "\n" + indent + "]"


ORDER = ["num_rows", "dot", "norm", "auto_correlation", "cross_correlation", "count_new", "row_entropy", "entropy",
         "consensus", "weight_ic", "scoring_ic", "weight_from_scoring"]


def render(sk, params, prefix="gen"):
    lines = [
        "(* GENERATED by translate/pwm_skel.py from lightmotif/src/pwm/mod.rs -- do not edit. *)" if prefix == "gen" else
        "(* PINNED copy of the skeletons against which PwmStat.v was written (translate/pwm_skel.py --pin). *)",
        "From Coq Require Import List String.",
        "Import ListNotations.",
        "Local Open Scope string_scope.",
        "",
        "Definition %s_freq_tol : string := %s." % (prefix, coq_string(params["freq_tol"])),
        "Definition %s_consensus_op : string := %s." % (prefix, coq_string(params["consensus_op"])),
        "Definition %s_consensus_threshold : string := %s." % (prefix, coq_string(params["consensus_threshold"])),
        "Definition %s_entropy_guard : string := %s." % (prefix, coq_string(params["entropy_guard"])),
        "Definition %s_norm_sqrt : nat := %d." % (prefix, params["norm_sqrt"]),
        "Definition %s_pow_base : string := %s." % (prefix, coq_string(params["pow_base"])),
        "",
    ]
    for name in ORDER:
        lines.append("Definition %s_skel_%s : list string := %s." % (prefix, name, coq_list(sk[name])))
        lines.append("")
    lines.append("Definition %s_skeletons : list (list string) := [%s]." % (
        prefix, "; ".join("%s_skel_%s" % (prefix, n) for n in ORDER)))
    lines.append("Definition %s_params : list string := [%s_freq_tol; %s_consensus_op; %s_consensus_threshold; "
                 "%s_entropy_guard; %s_pow_base]." % ((prefix,) * 6))
    lines.append("")
    return "\n".join(lines)


def translate():
    errors, notes = [], []
    try:
        src = open(os.path.join(REPO, SRC_REL)).read()
        sk, params = read_all(src)
        text = render(sk, params)
        old = open(OUT).read() if os.path.exists(OUT) else None
        if old != text:
            with open(OUT, "w") as f:
                f.write(text)
            notes.append("[pwm] GenPwmSkel.v regenerated from %s" % SRC_REL)
    except (ParseError, OSError, ValueError, IndexError, KeyError, re.error) as e:
        errors.append("pwm_skel: cannot parse %s: %s" % (SRC_REL, e))
    return dict(ok=not errors, errors=errors, notes=notes)


if __name__ == "__main__":
    import json
    import sys
    if len(sys.argv) > 1 and sys.argv[1] == "--pin":
        s, p = read_all(open(os.path.join(REPO, SRC_REL)).read())
        print(render(s, p, prefix="model"))
    else:
        print(json.dumps(translate(), indent=1))
