#!/usr/bin/env python3
"""Translator for property C01: /repo/lightmotif/src/scores.rs -> coq/score/GenScores.v.

The `StripedScores` bookkeeping that C01 speaks about ("result length bookkeeping
(max_index = L+1-M) and striped->linear iteration") is a handful of one- to three-statement
functions.  Each is matched against its statement skeleton (the list of its statements in
order) and the index expressions inside are parsed by a small expression parser and written
as Coq functions of the named quantities:

  StripedScores::new            Ok(Self { data, max_index })
  StripedScores::empty          Self::new(DenseMatrix::new(<rows>), <max_index>).unwrap()
  max_index / is_empty          self.max_index / self.data.rows() == <n>
  resize(rows, max_index)       self.data.resize(<e>); self.max_index = <e>;
  offset(mc)                    <e> over mc.row, mc.col, rows
  iter / unstripe / Default / From<StripedScores> for Vec<T>
                                fixed call chains (Iter::new(self); self.iter().cloned().collect()...)
  Index<usize>::index           let col = <e>; let row = <e>; &self.data[row][col]
  Iter::new                     let end = <a>.min(<b>); let indices = <lo>..end; Self { scores, indices }
  Iter::get                     let col = <e>; let row = <e>; &self.scores.data[row][col]
  Iterator::next / next_back    self.indices.next().map(|i| self.get(i)) / ..next_back()..
  ExactSizeIterator::len        self.indices.len();  size_hint = (len, Some(len))
  #[derive(Clone)] on the struct

Variables: rows = self.data.rows(), columns = self.data.columns() = C::USIZE,
maxi = self.max_index, plus the arguments / locals of each function.  The theorem
C01Scores.C01_scores_skeleton_as_modelled states that the hand-written model of
ScoreModel.v (sc_resize, sc_get, sc_iter_end, sc_offset, sc_empty) is the generated one.

Tolerated: whitespace, comments, attributes, `self.data.rows()` vs `self.matrix().rows()`,
parenthesisation, commuted `+` / `*` operands only insofar as Coq proves the theorem by
computation -- so a semantically equal rewrite that is not convertible makes the theorem
fail (a broken obligation, reported as such, never a wrong verdict).  Anything that does
not fit a skeleton makes run() return ok=False (broken obligation, no crash).
"""
import os
import re
import sys

VERIF = os.path.dirname(os.path.dirname(os.path.abspath(__file__)))
REPO = os.environ.get("VERIF_REPO", "/repo").rstrip("/") or "/repo"   # same override as vlib/common.py
SRC = os.path.join(REPO, "lightmotif/src/scores.rs")
OUT = os.path.join(VERIF, "coq", "score", "GenScores.v")


class ParseError(Exception):
    pass


def _strip_comments(src):
    src = re.sub(r"/\*.*?\*/", " ", src, flags=re.S)
    return re.sub(r"//[^\n]*", " ", src)


# ------------------------------------------------------------------ expressions

SUBST = [
    (r"\b(?:self|scores)\s*\.\s*(?:scores\s*\.\s*)?data\s*\.\s*rows\s*\(\s*\)", "rows__"),
    (r"\b(?:self|scores)\s*\.\s*(?:scores\s*\.\s*)?matrix\s*\(\s*\)\s*\.\s*rows\s*\(\s*\)", "rows__"),
    (r"\b(?:self|scores)\s*\.\s*(?:scores\s*\.\s*)?data\s*\.\s*columns\s*\(\s*\)", "columns"),
    (r"\b(?:self|scores)\s*\.\s*(?:scores\s*\.\s*)?max_index\b(?!\s*\()", "maxi"),
    (r"\bC\s*::\s*USIZE\b", "columns"),
    (r"\bmc\s*\.\s*row\b", "mcrow"),
    (r"\bmc\s*\.\s*col\b", "mccol"),
]


def _norm(text, rows_name):
    for pat, rep in SUBST:
        text = re.sub(pat, rep, text)
    return text.replace("rows__", rows_name)


def _toks(text, what):
    toks, i = [], 0
    while i < len(text):
        c = text[i]
        if c.isspace():
            i += 1
        elif c in "+*()%/":
            toks.append(c)
            i += 1
        elif c.isdigit():
            m = re.match(r"0[xX][0-9a-fA-F_]+|[0-9][0-9_]*(?:usize)?", text[i:])
            t = m.group(0).replace("usize", "").replace("_", "")
            toks.append(("num", int(t, 16) if t.lower().startswith("0x") else int(t)))
            i += len(m.group(0))
        elif c.isalpha() or c == "_":
            m = re.match(r"\w+", text[i:])
            toks.append(("id", m.group(0)))
            i += len(m.group(0))
        else:
            raise ParseError("%s: unexpected character %r in %r" % (what, c, text.strip()[:80]))
    return toks


class Expr(object):
    """sums / products / `/` / `%` of variables and literals -> a Coq term over nat
    (no subtraction: none of the modelled functions subtracts)"""

    def __init__(self, text, variables, what, rows_name="drows"):
        self.what, self.vars = what, variables
        self.toks = _toks(_norm(text, rows_name), what)
        self.pos = 0

    def peek(self):
        return self.toks[self.pos] if self.pos < len(self.toks) else None

    def take(self):
        t = self.peek()
        self.pos += 1
        return t

    def atom(self):
        t = self.take()
        if isinstance(t, tuple) and t[0] == "num":
            return str(t[1])
        if isinstance(t, tuple) and t[0] == "id":
            if t[1] not in self.vars:
                raise ParseError("%s mentions unknown variable %s" % (self.what, t[1]))
            return t[1]
        if t == "(":
            e = self.summ()
            if self.take() != ")":
                raise ParseError("%s: missing )" % self.what)
            return e
        raise ParseError("%s: unexpected token %r" % (self.what, t))

    def prod(self):
        e = self.atom()
        while self.peek() in ("*", "/", "%"):
            op = self.take()
            r = self.atom()
            e = "(%s %s %s)" % (e, {"*": "*", "/": "/", "%": "mod"}[op], r)
        return e

    def summ(self):
        e = self.prod()
        while self.peek() == "+":
            self.take()
            e = "(%s + %s)" % (e, self.prod())
        return e

    def value(self):
        e = self.summ()
        if self.peek() is not None:
            raise ParseError("%s: trailing tokens %r" % (self.what, self.toks[self.pos:]))
        return e


def _balanced(src, i, what):
    depth, j = 0, i
    while j < len(src):
        if src[j] == "{":
            depth += 1
        elif src[j] == "}":
            depth -= 1
            if depth == 0:
                return src[i + 1:j]
        j += 1
    raise ParseError("unbalanced braces in %s" % what)


def _impl_bodies(src, header_re, what):
    """bodies of every `impl` block whose header matches"""
    out = []
    for m in re.finditer(header_re, src, re.S):
        out.append(_balanced(src, src.index("{", m.end() - 1), what))
    if not out:
        raise ParseError("%s not found" % what)
    return out


def _fn_body(blocks, name, what):
    found = []
    for block in blocks:
        for m in re.finditer(r"\bfn\s+%s\b[^{;]*\{" % re.escape(name), block, re.S):
            found.append(" ".join(_balanced(block, m.end() - 1, "fn " + name).split()))
    if len(found) != 1:
        raise ParseError("fn %s: %d definitions in %s (expected 1)" % (name, len(found), what))
    return found[0]


E = r"([^;{}\[\]]+?)"          # an expression without statement / index delimiters


def _match(skeleton, text, what):
    m = re.fullmatch(skeleton, text.strip())
    if not m:
        raise ParseError("%s does not have the expected statement list: %r" % (what, text.strip()[:160]))
    return m


S = r"\s*"


def _col_row(body, access, what):
    """`let col = <e>; let row = <e>; <access>` with the two (independent) lets in either order"""
    m = re.fullmatch(r"let\s+col\s*=" + E + r";\s*let\s+row\s*=" + E + r";\s*" + access, body.strip())
    if m:
        return m.group(1), m.group(2)
    m = _match(r"let\s+row\s*=" + E + r";\s*let\s+col\s*=" + E + r";\s*" + access, body, what)
    return m.group(2), m.group(1)
G = r"(?:\s*::\s*<[^<>]*(?:<[^<>]*>[^<>]*)*>)?"      # an optional turbofish


# ------------------------------------------------------------------ the functions

def parse(src):
    src = _strip_comments(src)
    d = {}
    # the struct and its derive
    m = re.search(r"((?:#\s*\[[^\]]*\]\s*)*)pub\s+struct\s+StripedScores\s*<[^{]*\{([^}]*)\}", src, re.S)
    if not m:
        raise ParseError("struct StripedScores not found")
    derives = re.findall(r"derive\s*\(([^)]*)\)", m.group(1))
    d["clone_derived"] = any("Clone" in [x.strip() for x in g.split(",")] for g in derives)
    if not d["clone_derived"]:
        if not re.search(r"impl\s*<[^{]*>\s*Clone\s+for\s+StripedScores", src):
            raise ParseError("StripedScores is neither #[derive(Clone)] nor has an impl Clone")
        raise ParseError("StripedScores has a hand-written impl Clone (modelled: the derived, field-wise clone)")
    fields = [f.split(":")[0].split()[-1] for f in m.group(2).split(",") if ":" in f]
    if fields != ["data", "max_index"]:
        raise ParseError("struct StripedScores has fields %r (modelled: data, max_index)" % fields)

    # every inherent impl block of StripedScores<T, C>, whatever its bounds / where clause (each modelled
    # function must be defined exactly once among them)
    inherent = _impl_bodies(src, r"impl\s*<[^{]*?>\s*StripedScores\s*<\s*T\s*,\s*C\s*>\s*(?:where[^{]*)?\{",
                            "impl StripedScores")
    what = "impl StripedScores"
    _match(r"Ok\s*\(\s*Self\s*\{\s*data\s*,\s*max_index\s*,?\s*\}\s*\)", _fn_body(inherent, "new", what), "StripedScores::new")
    m = _match(r"Self\s*::\s*new\s*\(\s*DenseMatrix\s*::\s*new\s*\(" + E + r"\)\s*," + E + r"\)\s*\.\s*unwrap\s*\(\s*\)",
               _fn_body(inherent, "empty", what), "StripedScores::empty")
    d["em_rows"] = Expr(m.group(1), (), "empty rows").value()
    d["em_max"] = Expr(m.group(2), (), "empty max_index").value()
    _match(r"self\s*\.\s*max_index", _fn_body(inherent, "max_index", what), "StripedScores::max_index")
    m = _match(E + r"==" + E, _fn_body(inherent, "is_empty", what), "StripedScores::is_empty")
    d["ie_lhs"] = Expr(m.group(1), ("drows", "maxi"), "is_empty lhs").value()
    d["ie_rhs"] = Expr(m.group(2), ("drows", "maxi"), "is_empty rhs").value()
    rs = _fn_body(inherent, "resize", what)
    r_data = r"self\s*\.\s*data\s*\.\s*resize\s*\(" + E + r"\)\s*;"
    r_max = r"self\s*\.\s*max_index\s*=" + E + r";"
    m = re.fullmatch(r_data + S + r_max, rs.strip())
    if m:
        rows_e, max_e = m.group(1), m.group(2)
    else:
        # the two statements are independent: the other order is the same function
        m = _match(r_max + S + r_data, rs, "StripedScores::resize")
        rows_e, max_e = m.group(2), m.group(1)
    d["rs_rows"] = Expr(rows_e, ("rows", "max_index"), "resize rows").value()
    d["rs_max"] = Expr(max_e, ("rows", "max_index"), "resize max_index").value()
    d["of"] = Expr(_fn_body(inherent, "offset", what), ("mcrow", "mccol", "drows"), "offset").value()
    _match(r"Iter\s*::\s*new\s*\(\s*self\s*\)", _fn_body(inherent, "iter", what), "StripedScores::iter")
    _match(r"self\s*\.\s*iter\s*\(\s*\)\s*\.\s*cloned\s*\(\s*\)\s*\.\s*collect" + G + r"\s*\(\s*\)\s*\.\s*into\s*\(\s*\)",
           _fn_body(inherent, "unstripe", what), "StripedScores::unstripe")

    dflt = _impl_bodies(src, r"impl\s*<[^{]*>\s*Default\s+for\s+StripedScores\s*<[^{]*\{", "impl Default for StripedScores")
    _match(r"(?:StripedScores|Self)\s*::\s*empty\s*\(\s*\)", _fn_body(dflt, "default", "impl Default"), "Default::default")
    into = _impl_bodies(src, r"impl\s*<[^{]*>\s*From\s*<\s*StripedScores\s*<[^{]*>\s*>\s*for\s+Vec\s*<[^{]*\{", "impl From<StripedScores> for Vec")
    _match(r"scores\s*\.\s*iter\s*\(\s*\)\s*\.\s*cloned\s*\(\s*\)\s*\.\s*collect" + G + r"\s*\(\s*\)",
           _fn_body(into, "from", "impl From<StripedScores> for Vec"), "From<StripedScores> for Vec")

    ix = _impl_bodies(src, r"impl\s*<[^{]*>\s*Index\s*<\s*usize\s*>\s*for\s+StripedScores\s*<[^{]*\{", "impl Index<usize> for StripedScores")
    col_e, row_e = _col_row(_fn_body(ix, "index", "impl Index<usize>"),
                            r"&\s*self\s*\.\s*data\s*\[\s*row\s*\]\s*\[\s*col\s*\]", "Index::index")
    d["ix_col"] = Expr(col_e, ("index", "drows"), "index col").value()
    d["ix_row"] = Expr(row_e, ("index", "drows"), "index row").value()

    it = _impl_bodies(src, r"impl\s*<\s*'a\s*,[^{]*>\s*Iter\s*<\s*'a\s*,[^{]*\{", "impl Iter")
    nb = _fn_body(it, "new", "impl Iter").strip()
    tail = (r"(?:let\s+indices\s*=" + E + r"\.\.\s*end\s*;\s*Self\s*\{\s*scores\s*,\s*indices\s*,?\s*\}"
            r"|Self\s*\{\s*scores\s*,\s*indices\s*:" + E + r"\.\.\s*end\s*,?\s*\})")
    m = re.fullmatch(r"let\s+end\s*=" + E + r"\.\s*min\s*\(" + E + r"\)\s*;\s*" + tail, nb)
    if not m:
        m = _match(r"let\s+end\s*=\s*(?:std\s*::\s*cmp|core\s*::\s*cmp|usize)\s*::\s*min\s*\(" + E + r"," + E + r"\)\s*;\s*" + tail,
                   nb, "Iter::new")
    base = ("maxi", "drows", "columns")
    d["it_end_a"] = Expr(m.group(1), base, "Iter::new end").value()
    d["it_end_b"] = Expr(m.group(2), base, "Iter::new end").value()
    d["it_lo"] = Expr(m.group(3) or m.group(4), base, "Iter::new start").value()
    col_e, row_e = _col_row(_fn_body(it, "get", "impl Iter"),
                            r"&\s*self\s*\.\s*scores\s*\.\s*data\s*\[\s*row\s*\]\s*\[\s*col\s*\]", "Iter::get")
    d["ig_col"] = Expr(col_e, ("i", "drows"), "Iter::get col").value()
    d["ig_row"] = Expr(row_e, ("i", "drows"), "Iter::get row").value()

    itr = _impl_bodies(src, r"impl\s*<[^{]*>\s*Iterator\s+for\s+Iter\s*<[^{]*\{", "impl Iterator for Iter")
    _match(r"self\s*\.\s*indices\s*\.\s*next\s*\(\s*\)\s*\.\s*map\s*\(\s*\|\s*i\s*\|\s*self\s*\.\s*get\s*\(\s*i\s*\)\s*\)",
           _fn_body(itr, "next", "impl Iterator for Iter"), "Iterator::next")
    _match(r"let\s+len\s*=\s*self\s*\.\s*len\s*\(\s*\)\s*;\s*\(\s*len\s*,\s*Some\s*\(\s*len\s*\)\s*\)",
           _fn_body(itr, "size_hint", "impl Iterator for Iter"), "Iterator::size_hint")
    ex = _impl_bodies(src, r"impl\s*<[^{]*>\s*ExactSizeIterator\s+for\s+Iter\s*<[^{]*\{", "impl ExactSizeIterator for Iter")
    _match(r"self\s*\.\s*indices\s*\.\s*len\s*\(\s*\)", _fn_body(ex, "len", "impl ExactSizeIterator"), "ExactSizeIterator::len")
    de = _impl_bodies(src, r"impl\s*<[^{]*>\s*DoubleEndedIterator\s+for\s+Iter\s*<[^{]*\{", "impl DoubleEndedIterator for Iter")
    _match(r"self\s*\.\s*indices\s*\.\s*next_back\s*\(\s*\)\s*\.\s*map\s*\(\s*\|\s*i\s*\|\s*self\s*\.\s*get\s*\(\s*i\s*\)\s*\)",
           _fn_body(de, "next_back", "impl DoubleEndedIterator"), "DoubleEndedIterator::next_back")
    return d


def render(d):
    L = []
    A = L.append
    A("(* GENERATED by translate/score_scores.py from /repo/lightmotif/src/scores.rs -- do not edit;")
    A("   regenerated on every check.  drows = self.data.rows(), columns = C::USIZE,")
    A("   maxi = self.max_index; the statement lists of new / empty / max_index / iter / unstripe /")
    A("   Default / From<StripedScores> for Vec / Iterator::{next, size_hint} / ExactSizeIterator::len /")
    A("   DoubleEndedIterator::next_back and #[derive(Clone)] were matched as fixed text. *)")
    A("From Coq Require Import Arith.")
    A("")
    A("(* empty(): Self::new(DenseMatrix::new(<rows>), <max_index>).unwrap() *)")
    A("Definition em_rows : nat := %s." % d["em_rows"])
    A("Definition em_max : nat := %s." % d["em_max"])
    A("")
    A("(* is_empty(): <lhs> == <rhs> *)")
    A("Definition ie_lhs (drows maxi : nat) : nat := %s." % d["ie_lhs"])
    A("Definition ie_rhs (drows maxi : nat) : nat := %s." % d["ie_rhs"])
    A("")
    A("(* resize(rows, max_index): self.data.resize(<rows>); self.max_index = <max>; *)")
    A("Definition rs_rows (rows max_index : nat) : nat := %s." % d["rs_rows"])
    A("Definition rs_max (rows max_index : nat) : nat := %s." % d["rs_max"])
    A("")
    A("(* offset(mc) *)")
    A("Definition of_expr (mcrow mccol drows : nat) : nat := %s." % d["of"])
    A("")
    A("(* Index<usize>::index: let col = <col>; let row = <row>; &self.data[row][col] *)")
    A("Definition ix_col (index drows : nat) : nat := %s." % d["ix_col"])
    A("Definition ix_row (index drows : nat) : nat := %s." % d["ix_row"])
    A("")
    A("(* Iter::new: let end = <a>.min(<b>); let indices = <lo>..end; *)")
    A("Definition it_end_a (maxi drows columns : nat) : nat := %s." % d["it_end_a"])
    A("Definition it_end_b (maxi drows columns : nat) : nat := %s." % d["it_end_b"])
    A("Definition it_lo (maxi drows columns : nat) : nat := %s." % d["it_lo"])
    A("")
    A("(* Iter::get: let col = <col>; let row = <row>; &self.scores.data[row][col] *)")
    A("Definition ig_col (i drows : nat) : nat := %s." % d["ig_col"])
    A("Definition ig_row (i drows : nat) : nat := %s." % d["ig_row"])
    A("")
    return "\n".join(L)


def run(write=True):
    notes, errors = [], []
    try:
        d = parse(open(SRC).read())
        text = render(d)
    except Exception as e:   # never crash the check: a source that cannot be read is a broken obligation
        errors.append("score_scores: cannot parse the source: %s" % e)
        if not os.path.exists(OUT):
            errors.append("no previously generated GenScores.v")
        return dict(ok=False, notes=notes, errors=errors)
    changed = False
    if write:
        try:
            old = open(OUT).read()
        except OSError:
            old = None
        if old != text:
            with open(OUT, "w") as f:
                f.write(text)
            changed = True
    notes.append("score_scores: 17 statement lists of scores.rs matched (resize rows=%s max=%s; index col=%s row=%s; "
                 "iter end=min(%s, %s))%s" % (d["rs_rows"], d["rs_max"], d["ix_col"], d["ix_row"], d["it_end_a"], d["it_end_b"],
                                              " (regenerated)" if changed else ""))
    return dict(ok=True, notes=notes, errors=errors)


if __name__ == "__main__":
    r = run(write="--dry" not in sys.argv)
    print(r)
    sys.exit(0 if r["ok"] else 1)
