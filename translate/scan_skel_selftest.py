"""Self-test of translate/scan_skel.py (run by hand: `python3 translate/scan_skel_selftest.py`).
Applies harmless rewrites (must read the same skeleton) and the deliberate mutations of notes/scan.md
(must read a different skeleton or be reported as "cannot parse") to the text of scan.rs in memory."""
import os
import re
import sys

sys.path.insert(0, os.path.dirname(os.path.dirname(os.path.abspath(__file__))))
from translate import scan_skel as S  # noqa: E402


def main():
    real = open(os.path.join(S.REPO, S.SRC_REL)).read()
    bad = []
    # the source as it is must parse (since /repo 3bcb63a the four additions are `saturating_add`)
    try:
        S.read_all(real)
        print("%-28s %-5s ok" % ("source as it is", "parse"))
    except S.ParseError as e:
        bad.append("source as it is: " + str(e)[:100])
    # the rewrites below were written against the plain-addition form: bring the text back to it in memory
    src = real.replace("self.row.saturating_add(self.block_size).min(sequence_rows)",
                       "(self.row + self.block_size).min(sequence_rows)") \
        .replace("self.row = self.row.saturating_add(self.block_size);", "self.row += self.block_size;")
    ref, refc = S.read_all(src)

    def t(name, f, expect):
        s2 = f(src)
        if s2 == src:
            bad.append(name + ": rewrite did not apply")
            return
        try:
            sh, c = S.read_all(s2)
            diff = {k: (ref[k], sh[k]) for k in sh if sh[k] != ref[k]}
            diff.update({k: (refc[k], c[k]) for k in c if c[k] != refc[k]})
            got, info = ("diff", diff) if diff else ("same", "")
        except S.ParseError as e:
            got, info = "parse", str(e)[:100]
        ok = got == expect
        print("%-28s %-5s %s %s" % (name, got, "ok" if ok else "UNEXPECTED (wanted %s)" % expect, info))
        if not ok:
            bad.append(name)

    def R(a, b, n=1):
        return lambda s: s.replace(a, b, n)

    t("reformat spaces", lambda s: re.sub(r"[ \t]+", " ", s).replace(" (", "(").replace("( ", "("), "same")
    t("newlines everywhere", lambda s: s.replace(";", ";\n\n").replace("{", "{\n"), "same")
    t("mirror m >= t", R("|m| m >= t", "|m| t <= m"), "same")
    t("mirror row < rows", R("self.row < sequence_rows", "sequence_rows > self.row", 2), "same")
    t("rename locals", lambda s: s.replace("sequence_rows", "nrows").replace("max_index", "limit")
      .replace("index", "ix").replace("best_discrete", "bd"), "same")
    t("index term order", R("c.col * sequence_rows + self.row + c.row", "self.row + c.row + sequence_rows * c.col", 2), "same")
    t("comment added", R("let t = self.dm.scale(self.threshold);", "let t = self.dm.scale(self.threshold); /* hi */ // x"), "same")
    t("parens around cmp", R("if score >= self.threshold {", "if (score >= self.threshold) {", 1), "same")
    t("|| for |", R("(score > hit.score) | (score", "(score > hit.score) || (score"), "same")
    t("M1 end min(R-1)", R("(self.row + self.block_size).min(sequence_rows)",
                           "(self.row + self.block_size).min(sequence_rows-1).max(self.row)"), "parse")
    t("M2 score > thr", R("if score >= self.threshold {\n                        self.hits.push",
                          "if score > self.threshold {\n                        self.hits.push"), "diff")
    t("M3 no pad skip", R("if index >= max_index {\n                        continue;\n                    }", ""), "parse")
    t("M4 bd = dscore", R("best_discrete = self.dm.scale(score);", "best_discrete = dscore;"), "diff")
    t("M5 first no thr", R("} else if score >= self.threshold {", "} else if true {"), "parse")
    t("M6 tie index <", R("index > hit.position", "index < hit.position"), "diff")
    t("M7 row += B+1", R("self.row += self.block_size;", "self.row += self.block_size + 1;"), "parse")
    t("M10 index <= max", R("index < max_index", "index <= max_index"), "diff")
    t("M11 scale+1", R("best_discrete = self.dm.scale(score);", "best_discrete = self.dm.scale(score).saturating_add(1);"), "parse")
    t("M12 t+1", R("let t = self.dm.scale(self.threshold);", "let t = self.dm.scale(self.threshold).saturating_add(1);"), "parse")
    t("M13 min_by", R(".max_by(|x, y|", ".min_by(|x, y|"), "parse")
    t("M14 no self.row", R("c.col * sequence_rows + self.row + c.row", "c.col * sequence_rows + c.row"), "diff")
    t("no .min", R("(self.row + self.block_size).min(sequence_rows)", "self.row + self.block_size", 1), "diff")
    t("break", R("continue;", "break;"), "diff")
    t("remove(0)", R("self.hits.pop()", "self.hits.remove(0)"), "diff")
    t("gate >", R("|m| m >= t", "|m| m > t"), "diff")
    t("gate max >", R("|m| m >= best_discrete", "|m| m > best_discrete"), "diff")
    t("default block 0", R("block_size: 256", "block_size: 0"), "diff")
    t("default thr 1.0", R("threshold: 0.0", "threshold: 1.0"), "diff")
    t("init scale thr", R("Some(hit) => self.dm.scale(hit.score)", "Some(hit) => self.dm.scale(self.threshold)"), "diff")
    t("filter >", R(".filter(|hit| hit.score >= self.threshold)", ".filter(|hit| hit.score > self.threshold)"), "diff")
    t("max(B,256)", R("self.row += self.block_size;\n        }\n        best",
                      "self.row += self.block_size.max(256);\n        }\n        best"), "parse")
    t("extra stmt", R("let end = (self.row", "self.row += 0; let end = (self.row", 1), "parse")
    # the repair proposed for finding F-scan-ovf: same skeleton, constant row_add_saturating flips (a "diff" of the
    # constants only); a partial / different repair is not accepted
    sat = lambda s: s.replace("(self.row + self.block_size).min(sequence_rows)",
                              "self.row.saturating_add(self.block_size).min(sequence_rows)") \
        .replace("self.row += self.block_size;", "self.row = self.row.saturating_add(self.block_size);")
    t("saturating_add x4", sat, "diff")
    t("saturating_add x1", R("self.row += self.block_size;", "self.row = self.row.saturating_add(self.block_size);", 1), "parse")
    t("wrapping_add", R("self.row += self.block_size;", "self.row = self.row.wrapping_add(self.block_size);", 2), "parse")
    t("checked_add unwrap", R("(self.row + self.block_size).min(sequence_rows)",
                              "self.row.checked_add(self.block_size).unwrap().min(sequence_rows)", 2), "parse")
    print("FAILED: %s" % bad if bad else "all as expected")
    return 1 if bad else 0


if __name__ == "__main__":
    sys.exit(main())
