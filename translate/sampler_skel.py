"""Translator for the `sampler` group (property C16): statement order of the Gibbs sampler.

Re-reads lightmotif/src/sampler.rs (working tree of /repo; VERIF_REPO override) and writes
coq/sampler/GenSampler.v (only when changed; SAMPLER_SKEL_OUT overrides the output path, used
for mutation experiments only).  The generated file holds STRUCTURED data (constructors of the
types of SamplerSkelT.v), interpreted over the hand-written model by SamplerSkel.v:

  gen_include / gen_exclude   guard polarity and the ordered statements of include_sequence /
                              exclude_sequence (window loops, symbol loop, active.set/unset) with
                              loop bounds and index expressions normalised to offsets;
  gen_wrap_guard, gen_start_dist, gen_new_loops, gen_new_fields      Sampler::_new;
  gen_prepare                 prepare_pssm (pseudocount literal + binary32 bits, wiring);
  gen_update                  update_holdout (base of the power, exponent, WeightedIndex, target);
  gen_select                  select_holdout (inertia guard, seed.choose, Uniform bounds);
  gen_next                    Iterator::next as an ordered list of calls / branches;
  gen_skel_<fn>               white-space free statement skeletons (information only).

The source is tokenised (comments removed), function bodies are found by brace matching, and every
statement is matched against a small set of shapes; loop bounds and index expressions go through a
linear-expression normaliser (atoms, integer literals, + and -), so white space, comments, the
names of local variables and `let w = self.width` aliases do not matter.  Nothing is guessed: a
statement that does not fit a known shape raises ParseError("cannot parse ...") and translate()
returns ok=False (reported by the runner as a broken obligation).  translate() never raises.
"""
import os
import re
import struct

REPO = os.environ.get("VERIF_REPO", "/repo").rstrip("/") or "/repo"   # same override as vlib/common.py
VERIF = os.path.dirname(os.path.dirname(os.path.abspath(__file__)))
SRC_REL = os.path.join("lightmotif", "src", "sampler.rs")
OUT = os.environ.get("SAMPLER_SKEL_OUT") or os.path.join(VERIF, "coq", "sampler", "GenSampler.v")


class ParseError(Exception):
    pass


# ---------------------------------------------------------------- tokens

def strip_comments(src):
    src = re.sub(r"/\*.*?\*/", " ", src, flags=re.S)
    return re.sub(r"//[^\n]*", " ", src)


TOKEN_RE = re.compile(r'''
    "(?:[^"\\]|\\.)*"
  | '[A-Za-z_]\w*(?!')
  | \d[\d_]*(?:\.\d[\d_]*)?(?:[eE][+-]?\d+)?(?:[A-Za-z_]\w*)?
  | [A-Za-z_]\w*
  | \.\.=|\.\.|::|->|=>|==|!=|<=|>=|&&|\|\||\+=|-=|\*=|/=
  | \S
''', re.X)

OPEN, CLOSE = set("([{"), set(")]}")


def tokenize(text):
    return TOKEN_RE.findall(text)


def canon(toks):
    """tokens, each followed by one space"""
    return "".join(t + " " for t in toks)


def wordy(t):
    return bool(re.match(r"\w", t[-1])) if t else False


def pretty(toks):
    """tokens glued together, a space only between two word-like tokens"""
    out = ""
    for t in toks:
        if out and re.match(r"\w", out[-1]) and re.match(r"\w", t[0]):
            out += " "
        out += t
    return out


_PAT_CACHE = {}
CMP_RE = r"(?P<cmp><=|>=|==|!=|<|>) "
AOP_RE = r"(?P<aop>\+=|-=) "


def pat(p):
    """Pattern over canon() strings.  Pieces (space separated):
       $x  identifier capture (a second $x is a back-reference)      #x  one or more tokens (lazy)
       %cmp comparison operator   %aop  += / -=   !?  optional `!` (group neg)
       ;?  ,?  optional token     anything else: that token."""
    if p in _PAT_CACHE:
        return _PAT_CACHE[p]
    out, seen = [], set()
    for piece in p.split():
        if piece.startswith("$") and len(piece) > 1:
            name = piece[1:]
            if name in seen:
                out.append("(?P=%s) " % name)
            else:
                seen.add(name)
                out.append(r"(?P<%s>[A-Za-z_]\w*) " % name)
        elif piece.startswith("#") and len(piece) > 1:
            out.append(r"(?P<%s>(?:\S+ )+?)" % piece[1:])
        elif piece == "%cmp":
            out.append(CMP_RE)
        elif piece == "%aop":
            out.append(AOP_RE)
        elif piece == "!?":
            out.append(r"(?P<neg>! )?")
        elif piece in (";?", ",?"):
            out.append("(?:%s )?" % re.escape(piece[0]))
        else:
            out.append(re.escape(piece) + " ")
    r = re.compile("".join(out))
    _PAT_CACHE[p] = r
    return r


def fm(p, s):
    return pat(p).fullmatch(s)


def short(toks, n=90):
    t = pretty(toks)
    return t if len(t) <= n else t[:n] + "..."


def split_stmts(toks):
    """top-level statements of a block (token lists; the `;` is kept)"""
    stmts, cur, depth = [], [], 0
    for i, t in enumerate(toks):
        cur.append(t)
        if t in OPEN:
            depth += 1
        elif t in CLOSE:
            depth -= 1
            if depth < 0:
                raise ParseError("unbalanced brackets")
        if depth == 0:
            if t == ";":
                stmts.append(cur)
                cur = []
            elif t == "}" and cur[0] in ("for", "if", "while", "loop", "match"):
                if i + 1 < len(toks) and toks[i + 1] == "else":
                    continue
                stmts.append(cur)
                cur = []
    if depth != 0:
        raise ParseError("unbalanced brackets")
    if cur:
        stmts.append(cur)
    return stmts


def close_of(toks, i):
    """index of the bracket closing toks[i]"""
    depth = 0
    for j in range(i, len(toks)):
        if toks[j] in OPEN:
            depth += 1
        elif toks[j] in CLOSE:
            depth -= 1
            if depth == 0:
                return j
    raise ParseError("unbalanced brackets")


def find_fn(toks, name):
    """(parameter tokens, body tokens) of the unique `fn name`"""
    at = [i for i in range(len(toks) - 1) if toks[i] == "fn" and toks[i + 1] == name]
    if len(at) != 1:
        raise ParseError("fn %s: expected exactly one definition, found %d" % (name, len(at)))
    i = at[0] + 2
    while i < len(toks) and toks[i] != "(":
        if toks[i] in ("{", ";"):
            raise ParseError("fn %s: cannot parse the signature" % name)
        i += 1
    if i >= len(toks):
        raise ParseError("fn %s: cannot parse the signature" % name)
    j = close_of(toks, i)
    k = j + 1
    while k < len(toks) and toks[k] != "{":
        if toks[k] == ";":
            raise ParseError("fn %s has no body" % name)
        k += 1
    if k >= len(toks):
        raise ParseError("fn %s has no body" % name)
    e = close_of(toks, k)
    return toks[i + 1:j], toks[k + 1:e]


def split_if(toks):
    """`if COND { A } [else { B }]` -> (cond, A, B or None)"""
    if not toks or toks[0] != "if":
        raise ParseError("cannot parse (not an if): %s" % short(toks))
    depth, k = 0, None
    for i in range(1, len(toks)):
        t = toks[i]
        if t == "{" and depth == 0:
            k = i
            break
        if t in OPEN:
            depth += 1
        elif t in CLOSE:
            depth -= 1
    if k is None:
        raise ParseError("cannot parse (if without block): %s" % short(toks))
    e = close_of(toks, k)
    cond, then = toks[1:k], toks[k + 1:e]
    rest = toks[e + 1:]
    if not rest:
        return cond, then, None
    if len(rest) >= 3 and rest[0] == "else" and rest[1] == "{" and close_of(rest, 1) == len(rest) - 1:
        return cond, then, rest[2:-1]
    raise ParseError("cannot parse (else branch): %s" % short(toks))


# ---------------------------------------------------------------- linear expressions

INT_RE = re.compile(r"(\d[\d_]*)(?:_?(?:usize|u32|u64|i32|i64|isize))?$")


def lin(toks, alias):
    """{atom: coefficient, '': constant} of a +/- combination of atoms and integer literals"""
    if not toks:
        raise ParseError("cannot parse an empty expression")
    terms, cur, depth, sign = [], [], 0, 1
    for t in toks:
        if t in OPEN:
            depth += 1
        elif t in CLOSE:
            depth -= 1
        if depth == 0 and t in ("+", "-"):
            if not cur:
                raise ParseError("cannot parse expression: %s" % short(toks))
            terms.append((sign, cur))
            cur, sign = [], (1 if t == "+" else -1)
        else:
            cur.append(t)
    if not cur:
        raise ParseError("cannot parse expression: %s" % short(toks))
    terms.append((sign, cur))
    res = {}

    def add(k, v):
        res[k] = res.get(k, 0) + v

    for sg, a in terms:
        if a[0] == "(" and close_of(a, 0) == len(a) - 1:
            for k, v in lin(a[1:-1], alias).items():
                add(k, sg * v)
            continue
        s = "".join(a)
        m = INT_RE.match(s)
        if m:
            add("", sg * int(m.group(1).replace("_", "")))
        elif s in alias:
            for k, v in alias[s].items():
                add(k, sg * v)
        else:
            if not re.fullmatch(r"[A-Za-z_][\w.:()]*", s):
                raise ParseError("cannot parse expression: %s" % short(toks))
            add("?" + s, sg)      # unknown atom: never equal to a known shape
    return {k: v for k, v in res.items() if v != 0}


def lin_sub(a, b):
    r = dict(a)
    for k, v in b.items():
        r[k] = r.get(k, 0) - v
    return {k: v for k, v in r.items() if v != 0}


def need(l, atoms, what):
    """l must be sum(atoms) + c (atoms: {name: coef}); returns c"""
    rest = {k: v for k, v in l.items() if k != ""}
    if rest != atoms:
        raise ParseError("cannot parse %s: expected %s + constant, found %s" % (what, atoms, l))
    return l.get("", 0)


def is_atom(toks, alias, atom):
    try:
        return lin(toks, alias) == {atom: 1}
    except ParseError:
        return False


# ---------------------------------------------------------------- statements of the update loops

def zlit(n):
    return "(%d)%%Z" % n


def blit(b):
    return "true" if b else "false"


def coq_string(s):
    return '"' + s.replace('"', '""') + '"'


CMPS = {"<": "CLt", "<=": "CLe", ">": "CGt", ">=": "CGe", "==": "CEq", "!=": "CNe"}
AOPS = {"+=": "OpAdd", "-=": "OpSub"}


def parse_body_stmt(toks, env):
    """one statement inside the guard -> Coq term of type stmt"""
    s = canon(toks)
    pre = env["prefix"]
    alias = env["alias"]
    m = fm(pre + "active . set ( #arg ) ;?", s)
    if m:
        if not is_atom(m.group("arg").split(), alias, env["self_index"]):
            raise ParseError("cannot parse (active.set of another index): %s" % short(toks))
        return "SActiveSet"
    m = fm(pre + "active . unset ( #arg ) ;?", s)
    if m:
        if not is_atom(m.group("arg").split(), alias, env["self_index"]):
            raise ParseError("cannot parse (active.unset of another index): %s" % short(toks))
        return "SActiveUnset"
    kind = None
    m = fm("for ( $i , $j ) in ( #lo .. #hi ) . enumerate ( ) { #body }", s)
    if m:
        kind = "enum"
        ctr, posv = m.group("i"), m.group("j")
        if ctr == posv:
            raise ParseError("cannot parse (same name twice): %s" % short(toks))
    else:
        m = fm("for $j in #lo .. #hi { #body }", s)
        if m:
            kind = "plain"
            ctr, posv = None, m.group("j")
    if not kind:
        raise ParseError("cannot parse statement: %s" % short(toks))
    lo, hi = m.group("lo").split(), m.group("hi").split()
    inner = split_stmts(m.group("body").split())
    if len(inner) != 1:
        raise ParseError("cannot parse loop body (expected one statement): %s" % short(toks))
    b = canon(inner[0])
    la = dict(alias)            # loop variables shadow everything else
    la[posv] = {"@pos": 1}
    if ctr:
        la[ctr] = {"@ctr": 1}
    l_lo, l_hi = lin(lo, alias), lin(hi, alias)

    def amount(t):
        mm = INT_RE.match("".join(t.split()))
        if not mm:
            raise ParseError("cannot parse amount: %s" % short(toks))
        return int(mm.group(1).replace("_", ""))

    t1 = fm(pre + "motif [ MatrixCoordinates :: new ( #row , $seq [ #pos ] . as_index ( ) ) ] %aop #amt ;?", b)
    if t1:
        if kind != "enum" or t1.group("seq") != env["seq"]:
            raise ParseError("cannot parse motif loop: %s" % short(toks))
        lo_off = need(l_lo, {"start": 1}, "window start")
        len_off = need(lin_sub(l_hi, l_lo), {"width": 1}, "window length")
        pos_off = need(lin(t1.group("pos").split(), la), {"@pos": 1}, "sequence index")
        row_off = need(lin(t1.group("row").split(), la), {"@ctr": 1}, "matrix row")
        return "SMotifWin %s %s %s %s %s %s" % (zlit(lo_off), zlit(len_off), zlit(pos_off), zlit(row_off),
                                               AOPS[t1.group("aop")], zlit(amount(t1.group("amt"))))
    t2 = fm(pre + "background_counts [ $seq [ #pos ] . as_index ( ) ] %aop #amt ;?", b)
    if t2:
        if kind != "plain" or t2.group("seq") != env["seq"]:
            raise ParseError("cannot parse background window loop: %s" % short(toks))
        lo_off = need(l_lo, {"start": 1}, "window start")
        len_off = need(lin_sub(l_hi, l_lo), {"width": 1}, "window length")
        pos_off = need(lin(t2.group("pos").split(), la), {"@pos": 1}, "sequence index")
        return "SBgWin %s %s %s %s %s" % (zlit(lo_off), zlit(len_off), zlit(pos_off),
                                         AOPS[t2.group("aop")], zlit(amount(t2.group("amt"))))
    t3 = fm(pre + "background_counts [ #tab ] %aop $counts [ #cnt ] ;?", b)
    if t3:
        if kind != "plain" or env.get("counts") is None or t3.group("counts") != env["counts"]:
            raise ParseError("cannot parse symbol loop: %s" % short(toks))
        lo_c = need(l_lo, {}, "symbol loop lower bound")
        hi_off = need(l_hi, {"K": 1}, "symbol loop upper bound (A::K::USIZE)")
        tab_off = need(lin(t3.group("tab").split(), la), {"@pos": 1}, "table index")
        cnt_off = need(lin(t3.group("cnt").split(), la), {"@pos": 1}, "counts index")
        return "SSymLoop %s %s %s %s %s" % (zlit(lo_c), zlit(hi_off), zlit(tab_off), zlit(cnt_off),
                                           AOPS[t3.group("aop")])
    raise ParseError("cannot parse loop body: %s" % short(toks))


def base_alias():
    return {"self.width": {"width": 1}, "A::K::USIZE": {"K": 1}}


def try_alias(name, etoks, alias, what):
    """`let name = <linear expression over known atoms>` -> alias, anything else is an error"""
    l = lin(etoks, alias)
    if any(k.startswith("?") for k in l):
        raise ParseError("cannot parse statement of %s: let %s = %s" % (what, name, short(etoks)))
    alias[name] = l


def parse_guarded(toks, name):
    params, body = find_fn(toks, name)
    m = fm("& mut self , $z : usize ,?", canon(params))
    if not m:
        raise ParseError("%s: cannot parse the parameters" % name)
    z = m.group("z")
    alias = base_alias()
    alias[z] = {"z": 1}
    stmts = split_stmts(body)
    if not stmts:
        raise ParseError("%s: empty body" % name)
    seqs_name, env = None, {"prefix": "self . ", "alias": alias, "self_index": "z", "seq": None, "counts": None}
    startv, flags = None, {}
    for st in stmts[:-1]:
        s = canon(st)
        m = fm("let $v = self . data . sequences . as_ref ( ) ;", s)
        if m:
            seqs_name = m.group("v")
            continue
        m = fm("let $v = & $s [ #idx ] ;", s)
        if m and seqs_name is not None and m.group("s") == seqs_name:
            pass
        else:
            m = fm("let $v = & self . data . sequences . as_ref ( ) [ #idx ] ;", s)
        if m:
            if env["seq"] is not None:
                raise ParseError("%s: two sequence bindings" % name)
            env["seq"] = m.group("v")
            flags["seq"] = is_atom(m.group("idx").split(), alias, "z")
            continue
        m = fm("let $v = self . starts [ #idx ] ;", s)
        if m:
            if startv is not None:
                raise ParseError("%s: two start bindings" % name)
            startv = m.group("v")
            flags["start"] = is_atom(m.group("idx").split(), alias, "z")
            continue
        m = fm("let $v = & self . data . counts [ #idx ] ;", s)
        if m:
            if env["counts"] is not None:
                raise ParseError("%s: two counts bindings" % name)
            env["counts"] = m.group("v")
            flags["counts"] = is_atom(m.group("idx").split(), alias, "z")
            continue
        m = fm("let $v = #e ;", s)
        if m:
            try_alias(m.group("v"), m.group("e").split(), alias, name)
            continue
        raise ParseError("cannot parse statement of %s: %s" % (name, short(st)))
    if env["seq"] is None or startv is None or env["counts"] is None:
        raise ParseError("%s: missing seq / start / counts binding" % name)
    alias[startv] = {"start": 1}
    cond, then, els = split_if(stmts[-1])
    if els is not None:
        raise ParseError("cannot parse %s: the guard has an else branch" % name)
    m = fm("!? self . active . test ( #arg )", canon(cond))
    if not m:
        raise ParseError("cannot parse the guard of %s: %s" % (name, short(cond)))
    negated = m.group("neg") is not None
    test_z = is_atom(m.group("arg").split(), alias, "z")
    body_terms = [parse_body_stmt(st, env) for st in split_stmts(then)]
    return dict(seq=flags["seq"], start=flags["start"], counts=flags["counts"], test=test_z,
                negated=negated, body=body_terms)


# ---------------------------------------------------------------- _new

def float_bits64(text):
    t = re.sub(r"_?f64$", "", text.replace("_", ""))
    if not re.fullmatch(r"\d+(\.\d*)?([eE][+-]?\d+)?", t):
        raise ParseError("cannot parse f64 literal: %s" % text)
    return struct.unpack("<Q", struct.pack("<d", float(t)))[0]


def float_bits32(text):
    t = re.sub(r"_?f32$", "", text.replace("_", ""))
    if not re.fullmatch(r"\d+(\.\d*)?([eE][+-]?\d+)?", t):
        raise ParseError("cannot parse f32 literal: %s" % text)
    return struct.unpack("<I", struct.pack("<f", float(t)))[0]


def split_commas(toks):
    out, cur, depth = [], [], 0
    for t in toks:
        if t in OPEN:
            depth += 1
        elif t in CLOSE:
            depth -= 1
        if depth == 0 and t == ",":
            out.append(cur)
            cur = []
        else:
            cur.append(t)
    if cur:
        out.append(cur)
    return out


def struct_fields(toks):
    """`a: e, b, ..` -> {name: tokens of the value}"""
    res = {}
    for f in split_commas(toks):
        if len(f) == 1 and re.fullmatch(r"[A-Za-z_]\w*", f[0]):
            res[f[0]] = [f[0]]
        elif len(f) >= 3 and f[1] == ":" and re.fullmatch(r"[A-Za-z_]\w*", f[0]):
            res[f[0]] = f[2:]
        else:
            raise ParseError("cannot parse struct field: %s" % short(f))
    return res


def parse_new(toks):
    params, body = find_fn(toks, "_new")
    pnames = [p[0] if p[0] != "mut" else p[1] for p in split_commas(params) if p]
    for required in ("data", "width"):
        if required not in pnames:
            raise ParseError("_new: parameter `%s` not found" % required)
    alias = {"width": {"width": 1}, "A::K::USIZE": {"K": 1}}
    stmts = split_stmts(body)
    res = {"loops": []}
    order = []
    starts_name = None
    for idx, st in enumerate(stmts):
        s = canon(st)
        if st[0] == "if":
            cond, then, els = split_if(st)
            m = fm("data . sequences . as_ref ( ) . iter ( ) . any ( | $x | $x . wrap ( ) %cmp #rhs )", canon(cond))
            if m and els is None:
                if "wrap" in res:
                    raise ParseError("_new: two wrap guards")
                off = need(lin(m.group("rhs").split(), alias), {"width": 1}, "wrap guard bound")
                res["wrap"] = (CMPS[m.group("cmp")], off, len(then) >= 2 and then[0] == "panic" and then[1] == "!")
                order.append("wrap")
                continue
            raise ParseError("cannot parse statement of _new: %s" % short(st))
        m = fm("let $v = data . sequences . as_ref ( ) . iter ( ) . map ( | $s | rng . sample ( "
               "Uniform :: new ( #lo , #hi ) ) ) . collect :: < Vec < usize > > ( ) ;", s)
        if m:
            if starts_name is not None:
                raise ParseError("_new: two start distributions")
            starts_name = m.group("v")
            a2 = dict(alias)
            a2[m.group("s") + ".len()"] = {"len": 1}
            lo = need(lin(m.group("lo").split(), a2), {}, "lower bound of the start distribution")
            hi = need(lin(m.group("hi").split(), a2), {"len": 1, "width": -1}, "upper bound of the start distribution")
            res["dist"] = (lo, hi)
            order.append("dist")
            continue
        m = fm("let mut motif = DenseMatrix :: new ( #e ) ;", s)
        if m:
            res["motif_init"] = is_atom(m.group("e").split(), alias, "width")
            order.append("motif_init")
            continue
        m = fm("let mut background_counts = GenericArray :: default ( ) ;", s)
        if m:
            res["bg_init"] = True
            order.append("bg_init")
            continue
        m = fm("for ( $i , $seq ) in data . sequences . as_ref ( ) . iter ( ) . enumerate ( ) { #body }", s)
        if m:
            if starts_name is None:
                raise ParseError("_new: construction loop before the start positions")
            res["loops"].append(parse_ctor_loop(m.group("i"), m.group("seq"), m.group("body").split(),
                                                alias, starts_name))
            order.append("loop")
            continue
        if st[0] == "for":
            raise ParseError("cannot parse statement of _new: %s" % short(st))
        m = fm("Self { #fields }", s)
        if m:
            f = struct_fields(m.group("fields").split())
            for k in ("temperature", "step", "last_inclusion", "converged", "motif", "background_counts", "starts",
                      "active", "width"):
                if k not in f:
                    raise ParseError("_new: field `%s` not found in Self { .. }" % k)
            ttext = "".join(f["temperature"])
            res["temperature"] = (ttext, float_bits64(ttext))
            for k in ("step", "last_inclusion"):
                mm = INT_RE.match("".join(f[k]))
                if not mm:
                    raise ParseError("_new: cannot parse the initial value of `%s`" % k)
                res[k] = int(mm.group(1).replace("_", ""))
            cv = "".join(f["converged"])
            if cv not in ("true", "false"):
                raise ParseError("_new: cannot parse the initial value of `converged`")
            res["converged"] = cv == "true"
            if f["motif"] != ["motif"] or f["background_counts"] != ["background_counts"] \
               or f["starts"] != [starts_name] or f["active"] != ["active"] or f["width"] != ["width"]:
                raise ParseError("_new: Self { .. } does not store motif / background_counts / starts / active / width")
            order.append("self")
            continue
        # other statements (seed vector, the `active` bit vector) are read by the differential check only
    want = ["wrap", "dist", "motif_init", "loop", "bg_init", "loop", "self"]
    if order != want:
        raise ParseError("_new: cannot parse (expected statements %s, found %s)" % (want, order))
    return res


def parse_ctor_loop(i, seqv, body, alias, starts_name):
    alias = dict(alias)
    alias[i] = {"i": 1}
    inner = split_stmts(body)
    if len(inner) != 1:
        raise ParseError("cannot parse construction loop of _new (expected a single `if`): %s" % short(body))
    cond, then, els = split_if(inner[0])
    if els is not None:
        raise ParseError("cannot parse construction loop of _new: else branch")
    m = fm("!? active . test ( #arg )", canon(cond))
    if not m:
        raise ParseError("cannot parse the guard of a construction loop of _new: %s" % short(cond))
    env = {"prefix": "", "alias": alias, "self_index": "i", "seq": seqv, "counts": None}
    out = dict(test=is_atom(m.group("arg").split(), alias, "i"), negated=m.group("neg") is not None,
               start=None, counts=True, body=[])
    startv = None
    stmts = split_stmts(then)
    k = 0
    while k < len(stmts) and stmts[k][0] == "let":
        s = canon(stmts[k])
        m = fm("let $v = $st [ #idx ] ;", s)
        if m and m.group("st") == starts_name:
            if startv is not None:
                raise ParseError("_new: two start bindings in a construction loop")
            startv = m.group("v")
            out["start"] = is_atom(m.group("idx").split(), alias, "i")
        else:
            m = fm("let $v = & data . counts [ #idx ] ;", s)
            if m:
                if env["counts"] is not None:
                    raise ParseError("_new: two counts bindings in a construction loop")
                env["counts"] = m.group("v")
                out["counts"] = is_atom(m.group("idx").split(), alias, "i")
            else:
                m = fm("let $v = #e ;", s)
                if not m:
                    raise ParseError("cannot parse statement of _new: %s" % short(stmts[k]))
                try_alias(m.group("v"), m.group("e").split(), alias, "_new")
        k += 1
    if startv is None:
        raise ParseError("_new: construction loop without `let start = starts[i]`")
    alias[startv] = {"start": 1}
    out["body"] = [parse_body_stmt(st, env) for st in stmts[k:]]
    return out


# ---------------------------------------------------------------- prepare_pssm / update_holdout / select_holdout

def parse_prepare(toks):
    _, body = find_fn(toks, "prepare_pssm")
    stmts = split_stmts(body)
    src, freq = {}, None
    ret = None
    for st in stmts:
        s = canon(st)
        m = fm("let $v = self . background ( ) ;", s)
        if m:
            src[m.group("v")] = "background"
            continue
        m = fm("let $v = self . count_matrix ( ) ;", s)
        if m:
            src[m.group("v")] = "count_matrix"
            continue
        m = fm("let $p = $c . to_freq ( #lit ) . into_scoring ( $b ) ;", s)
        if m:
            if freq is not None:
                raise ParseError("prepare_pssm: two to_freq calls")
            freq = m
            continue
        m = fm("( $c , $p )", s)
        if m and st is stmts[-1]:
            ret = m
            continue
        raise ParseError("cannot parse statement of prepare_pssm: %s" % short(st))
    if freq is None or ret is None:
        raise ParseError("prepare_pssm: to_freq(..).into_scoring(..) or the result tuple not found")
    lit = "".join(freq.group("lit").split())
    return dict(text=lit, bits=float_bits32(lit),
                bg=src.get(freq.group("b")) == "background",
                counts=src.get(freq.group("c")) == "count_matrix",
                ret=(ret.group("c") == freq.group("c") and ret.group("p") == freq.group("p")))


ASSIGN_OPS = ("=", "+=", "-=", "*=", "/=")


def temperature_writes(bodies):
    n = 0
    for b in bodies:
        for i in range(len(b) - 3):
            if b[i] == "self" and b[i + 1] == "." and b[i + 2] == "temperature" and b[i + 3] in ASSIGN_OPS:
                n += 1
    return n


def parse_update(toks, bodies):
    params, body = find_fn(toks, "update_holdout")
    m = fm("& mut self , $z : usize , $p : & ScoringMatrix < A > ,?", canon(params))
    if not m:
        raise ParseError("update_holdout: cannot parse the parameters")
    z, p = m.group("z"), m.group("p")
    alias = {z: {"z": 1}}
    stmts = split_stmts(body)
    if len(stmts) != 3:
        raise ParseError("cannot parse update_holdout: expected 3 statements, found %d" % len(stmts))
    m1 = fm("self . pli . score_into ( & $p , & self . data . sequences . as_ref ( ) [ #idx ] , & mut self . scores ) ;",
            canon(stmts[0]))
    if not m1 or m1.group("p") != p:
        raise ParseError("cannot parse statement of update_holdout: %s" % short(stmts[0]))
    m2 = fm("let $w = self . scores . iter ( ) . map ( | & $x | $base . $fn ( #exp ) ) ;", canon(stmts[1]))
    if not m2:
        # the base literal is a number token, not an identifier
        m2 = re.fullmatch(r"let (?P<w>[A-Za-z_]\w*) = self \. scores \. iter \( \) \. map \( \| & (?P<x>[A-Za-z_]\w*) \| "
                          r"(?P<base>\S+) \. (?P<fn>[A-Za-z_]\w*) \( (?P<exp>(?:\S+ )+?)\) \) ; ", canon(stmts[1]))
    if not m2:
        raise ParseError("cannot parse statement of update_holdout: %s" % short(stmts[1]))
    base = m2.group("base")
    mb = re.fullmatch(r"(\d+)(?:\.0*)?(?:_?(f64|f32))?", base)
    if not mb:
        raise ParseError("cannot parse the base of the weight: %s" % base)
    x = m2.group("x")
    exp = ["x" if t == x else t for t in m2.group("exp").split()]
    depth, cut = 0, None
    for i, t in enumerate(exp):
        if t in OPEN:
            depth += 1
        elif t in CLOSE:
            depth -= 1
        elif depth == 0 and t in ("/", "*", "+", "-"):
            if cut is not None:
                raise ParseError("cannot parse the exponent of the weight: %s" % short(exp))
            cut = i
    if cut is None:
        num, op, den = pretty(exp), "", ""
    else:
        num, op, den = pretty(exp[:cut]), exp[cut], pretty(exp[cut + 1:])
    cond, then, els = split_if(stmts[2])
    m3 = fm("let Ok ( $d ) = WeightedIndex :: new ( #arg )", canon(cond))
    if not m3 or els is not None:
        raise ParseError("cannot parse statement of update_holdout: %s" % short(stmts[2]))
    inner = split_stmts(then)
    if len(inner) != 1:
        raise ParseError("cannot parse update_holdout: expected one assignment inside `if let Ok`")
    m4 = fm("self . starts [ #idx ] = $d . sample ( & mut self . rng ) ;?", canon(inner[0]))
    if not m4 or m4.group("d") != m3.group("d"):
        raise ParseError("cannot parse statement of update_holdout: %s" % short(inner[0]))
    return dict(score_z=is_atom(m1.group("idx").split(), alias, "z"), base_text=base, base=int(mb.group(1)),
                fn=m2.group("fn"), num=num, op=op, den=den,
                wi=(m3.group("arg").split() == [m2.group("w")]), iflet=True,
                assign_z=is_atom(m4.group("idx").split(), alias, "z"),
                twrites=temperature_writes(bodies))


def parse_select(toks):
    _, body = find_fn(toks, "select_holdout")
    stmts = split_stmts(body)
    if len(stmts) != 1:
        raise ParseError("cannot parse select_holdout: expected a single match")
    m = fm("match self . mode { SamplerMode :: Zoops if #lhs %cmp #rhs => { #arm1 } ,? _ => #arm2 ,? }", canon(stmts[0]))
    if not m:
        raise ParseError("cannot parse select_holdout: %s" % short(stmts[0]))
    m2 = fm("self . rng . sample ( Uniform :: new ( #lo , #hi ) )", m.group("arm2"))
    if not m2:
        raise ParseError("cannot parse the default arm of select_holdout: %s" % short(m.group("arm2").split()))
    lo = need(lin(m2.group("lo").split(), {}), {}, "lower bound of the hold-out distribution")
    return dict(lhs=pretty(m.group("lhs").split()), cmp=CMPS[m.group("cmp")], rhs=pretty(m.group("rhs").split()),
                choose=(m.group("arm1") == canon(tokenize("*self.seed.choose(&mut self.rng).unwrap()"))),
                lo=lo, hi=pretty(m2.group("hi").split()))


# ---------------------------------------------------------------- next

def coq_ncall_list(items, indent):
    if not items:
        return "[]"
    pad = " " * indent
    return "[\n" + ";\n".join(pad + "  " + x for x in items) + "\n" + pad + "]"


def parse_next(toks):
    params, body = find_fn(toks, "next")
    if canon(params) != canon(["&", "mut", "self"]):
        raise ParseError("next: cannot parse the parameters")
    env = {"z": None, "active": None, "cm": None, "pssm": None, "newpssm": None}

    def pid(name):
        if name is not None and name == env["pssm"]:
            return "PMain"
        if name is not None and name == env["newpssm"]:
            return "PNew"
        raise ParseError("next: `%s` is not a PSSM binding" % name)

    def is_z(name):
        if env["z"] is None or name != env["z"]:
            raise ParseError("next: cannot parse (argument `%s` is not the hold-out)" % name)

    def block(btoks, indent):
        return coq_ncall_list([stmt(st, indent + 2) for st in split_stmts(btoks)], indent)

    def stmt(st, indent):
        s = canon(st)
        if st[0] == "if":
            cond, then, els = split_if(st)
            c = canon(cond)
            if c == canon(["self", ".", "converged"]) and els is None:
                if canon(then) in (canon(["return", "None", ";"]), canon(["return", "None"])):
                    return "NIfConvergedReturnNone"
                raise ParseError("cannot parse statement of next: %s" % short(st))
            m = fm("self . mode == SamplerMode :: Zoops && ! $a", c)
            if m and els is None:
                if env["active"] is None or m.group("a") != env["active"]:
                    raise ParseError("cannot parse the Zoops condition of next: %s" % short(cond))
                return "NIfZoopsInactive " + block(then, indent + 2)
            m = fm("$l . information_content ( ) %cmp $r . information_content ( )", c)
            if m:
                return "NIfInfo %s %s %s %s %s" % (pid(m.group("l")), CMPS[m.group("cmp")], pid(m.group("r")),
                                                   block(then, indent + 2), block(els if els is not None else [], indent + 2))
            m = fm("self . step - self . last_inclusion %cmp self . patience", c)
            if m and els is None:
                return "NIfPatience %s %s" % (CMPS[m.group("cmp")], block(then, indent + 2))
            raise ParseError("cannot parse statement of next: %s" % short(st))
        m = fm("let $z = self . select_holdout ( ) ;", s)
        if m:
            if env["z"] is not None:
                raise ParseError("next: select_holdout called twice")
            env["z"] = m.group("z")
            return "NSelectHoldout"
        m = fm("let $a = self . active . test ( $z ) ;", s)
        if m:
            is_z(m.group("z"))
            env["active"] = m.group("a")
            return "NActiveTest"
        m = fm("self . exclude_sequence ( $z ) ;?", s)
        if m:
            is_z(m.group("z"))
            return "NExclude"
        m = fm("self . include_sequence ( $z ) ;?", s)
        if m:
            is_z(m.group("z"))
            return "NInclude"
        m = fm("let ( $c , $p ) = self . prepare_pssm ( ) ;", s)
        if m:
            if env["pssm"] is None:
                env["cm"], env["pssm"] = m.group("c"), m.group("p")
                return "NPreparePssm PMain"
            if env["newpssm"] is None and m.group("p") != env["pssm"]:
                env["newpssm"] = m.group("p")
                return "NPreparePssm PNew"
            raise ParseError("cannot parse statement of next: %s" % short(st))
        m = fm("self . update_holdout ( $z , & $p ) ;?", s)
        if m:
            is_z(m.group("z"))
            return "NUpdateHoldout " + pid(m.group("p"))
        if fm("self . last_inclusion = self . step ;?", s):
            return "NSetLastInclusion"
        m = fm("self . converged = $b ;?", s)
        if m and m.group("b") in ("true", "false"):
            return "NSetConverged " + m.group("b")
        m = fm("self . step += #n ;?", s)
        if m:
            return "NStepAdd " + zlit(need(lin(m.group("n").split(), {}), {}, "step increment"))
        m = fm("Some ( Iteration { #fields } )", s)
        if m:
            f = struct_fields(m.group("fields").split())
            extra = set(f) - {"pssm", "counts", "z", "step", "_hidden"}
            if extra or not {"pssm", "counts", "z", "step"} <= set(f):
                raise ParseError("cannot parse the fields of the yielded Iteration: %s" % sorted(f))
            if len(f["pssm"]) != 1:
                raise ParseError("cannot parse the pssm field of the yielded Iteration")
            off = need(lin(f["step"], {"self.step": {"step": 1}}), {"step": 1}, "step of the yielded Iteration")
            return "NYield %s %s %s %s" % (pid(f["pssm"][0]), blit(f["counts"] == [env["cm"]]),
                                           blit(f["z"] == [env["z"]]), zlit(off))
        raise ParseError("cannot parse statement of next: %s" % short(st))

    return [stmt(st, 2) for st in split_stmts(body)]


# ---------------------------------------------------------------- skeleton strings (information only)

def skeleton(toks):
    out, cur = [], []
    for t in toks:
        cur.append(t)
        if t in (";", "{", "}"):
            out.append(pretty(cur))
            cur = []
    if cur:
        out.append(pretty(cur))
    return out


def coq_list(items, indent="  "):
    if not items:
        return "[]"
    return "[\n" + ";\n".join(indent + "  " + coq_string(x) for x in items) + "\n" + indent + "]"


# ---------------------------------------------------------------- all together

FNS = ("_new", "select_holdout", "include_sequence", "exclude_sequence", "prepare_pssm", "update_holdout", "next")


def read_all(src):
    toks = tokenize(strip_comments(src))
    bodies = {name: find_fn(toks, name)[1] for name in FNS}
    return dict(
        include=parse_guarded(toks, "include_sequence"),
        exclude=parse_guarded(toks, "exclude_sequence"),
        new=parse_new(toks),
        prepare=parse_prepare(toks),
        update=parse_update(toks, list(bodies.values())),
        select=parse_select(toks),
        next=parse_next(toks),
        skel={name: skeleton(b) for name, b in bodies.items()},
    )


def render_stmts(items, indent=2):
    return coq_ncall_list(items, indent)


def render(r):
    g = lambda d: "mkGuarded %s %s %s %s %s %s" % (blit(d["seq"]), blit(d["start"]), blit(d["counts"]),
                                                   blit(d["test"]), blit(d["negated"]), render_stmts(d["body"]))
    cl = lambda d: "mkCtorLoop %s %s %s %s %s" % (blit(d["test"]), blit(d["negated"]), blit(bool(d["start"])),
                                                  blit(d["counts"]), render_stmts(d["body"], 4))
    n, p, u, s = r["new"], r["prepare"], r["update"], r["select"]
    lines = [
        "(* GENERATED by translate/sampler_skel.py from lightmotif/src/sampler.rs -- do not edit. *)",
        "From Coq Require Import List String ZArith Bool.",
        "From LMSampler Require Import SamplerSkelT.",
        "Import ListNotations.",
        "Local Open Scope string_scope.",
        "",
        "(* include_sequence / exclude_sequence *)",
        "Definition gen_include : guarded :=\n  %s." % g(r["include"]),
        "",
        "Definition gen_exclude : guarded :=\n  %s." % g(r["exclude"]),
        "",
        "(* Sampler::_new *)",
        "Definition gen_wrap_guard : wrap_guard := mkWrapGuard %s %s %s." % (n["wrap"][0], zlit(n["wrap"][1]), blit(n["wrap"][2])),
        "Definition gen_start_dist : start_dist := mkStartDist %s %s." % (zlit(n["dist"][0]), zlit(n["dist"][1])),
        "Definition gen_new_loops : list ctor_loop :=\n  [\n    %s\n  ]." % ";\n    ".join(cl(x) for x in n["loops"]),
        "Definition gen_new_fields : new_fields :=\n  mkNewFields %s %s %s %s %s %s %s." % (
            coq_string(n["temperature"][0]), zlit(n["temperature"][1]), zlit(n["step"]), zlit(n["last_inclusion"]),
            blit(n["converged"]), blit(n["motif_init"]), blit(n["bg_init"])),
        "",
        "(* prepare_pssm *)",
        "Definition gen_prepare : prepare :=\n  mkPrepare %s %s %s %s %s." % (
            coq_string(p["text"]), zlit(p["bits"]), blit(p["bg"]), blit(p["counts"]), blit(p["ret"])),
        "Definition gen_pseudo_bits : Z := pp_pseudo_bits gen_prepare.",
        "",
        "(* update_holdout *)",
        "Definition gen_update : update :=\n  mkUpdate %s %s %s %s %s %s %s %s %s %s %d." % (
            blit(u["score_z"]), coq_string(u["base_text"]), zlit(u["base"]), coq_string(u["fn"]),
            coq_string(u["num"]), coq_string(u["op"]), coq_string(u["den"]), blit(u["wi"]), blit(u["iflet"]),
            blit(u["assign_z"]), u["twrites"]),
        "",
        "(* select_holdout *)",
        "Definition gen_select : select :=\n  mkSelect %s %s %s %s %s %s." % (
            coq_string(s["lhs"]), s["cmp"], coq_string(s["rhs"]), blit(s["choose"]), zlit(s["lo"]), coq_string(s["hi"])),
        "",
        "(* Iterator::next *)",
        "Definition gen_next : list ncall :=\n  %s." % coq_ncall_list(r["next"], 2),
        "",
        "(* statement skeletons, information only *)",
    ]
    for name in FNS:
        lines.append("Definition gen_skel_%s : list string := %s." % (name.strip("_"), coq_list(r["skel"][name])))
        lines.append("")
    return "\n".join(lines)


def translate():
    errors, notes = [], []
    try:
        src = open(os.path.join(REPO, SRC_REL)).read()
        text = render(read_all(src))
        old = open(OUT).read() if os.path.exists(OUT) else None
        if old != text:
            with open(OUT, "w") as f:
                f.write(text)
            notes.append("[sampler] %s regenerated from %s" % (os.path.basename(OUT), SRC_REL))
    except (ParseError, OSError, ValueError, KeyError, IndexError, re.error) as e:
        errors.append("sampler_skel: %s" % (e,))
    except Exception as e:   # never crash the runner
        errors.append("sampler_skel: internal error %s: %s" % (type(e).__name__, e))
    return dict(ok=not errors, errors=errors, notes=notes)


if __name__ == "__main__":
    import json
    print(json.dumps(translate(), indent=1))
