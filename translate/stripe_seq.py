#!/usr/bin/env python3
"""Translate the StripedSequence methods of /repo/lightmotif/src/seq.rs that property
C04 speaks about into plain Coq data (coq/stripe/GenSeq.v):

  DEFAULT_EXTRA_ROWS                      constant
  StripedSequence::new                    the guard `rows * columns < length`, wrap: 0
  StripedSequence::configure_wrap         condition, `rows`, resize argument, the two loop
                                          ranges, the two assignments (row / column index
                                          expressions), the new wrap
  Index<usize> for StripedSequence        `rows`, `col`, `row` and the order data[row][col]
  SymbolCount::count_symbol(s)            `rows`, `l`, loop ranges, the row read, the linear
                                          index, the guard

Every function is matched against a statement skeleton (the list of its statements in
order); the expressions inside are parsed by a small expression parser and rendered as
Coq functions of the named quantities.  `A - B` (usize subtraction, which panics on
underflow) is only accepted at the top of an expression and is emitted as the pair
(A, B): the model subtracts with an explicit underflow panic.  Anything that does not
fit the skeleton makes translate() return ok=False (a broken obligation, not a crash).

Variables: drows = self.data.rows(), columns = C::USIZE = self.data.columns(),
wrap = self.wrap, len = self.len() = self.length, plus the locals of each function.
"""
import os
import re
import sys

VERIF = os.path.dirname(os.path.dirname(os.path.abspath(__file__)))
sys.path.insert(0, VERIF)
from translate.stripe_net import ParseError, _strip_comments, _num  # noqa: E402

REPO = os.environ.get("VERIF_REPO", "/repo").rstrip("/") or "/repo"   # same override as vlib/common.py
SEQ = os.path.join(REPO, "lightmotif/src/seq.rs")
OUT = os.path.join(VERIF, "coq", "stripe", "GenSeq.v")


# ------------------------------------------------------------------ expressions

SUBST = [
    (r"\bself\s*\.\s*data\s*\.\s*rows\s*\(\s*\)", "drows"),
    (r"\bself\s*\.\s*data\s*\.\s*columns\s*\(\s*\)", "columns"),
    (r"\bdata\s*\.\s*rows\s*\(\s*\)", "drows"),
    (r"\bdata\s*\.\s*columns\s*\(\s*\)", "columns"),
    (r"\bself\s*\.\s*wrap\b", "wrap"),
    (r"\bself\s*\.\s*len\s*\(\s*\)", "len"),
    (r"\bself\s*\.\s*length\b", "len"),
    (r"\bC\s*::\s*USIZE\b", "columns"),
]


def _norm(text):
    for pat, rep in SUBST:
        text = re.sub(pat, rep, text)
    return text


def _toks(text, what):
    toks, i = [], 0
    while i < len(text):
        c = text[i]
        if c.isspace():
            i += 1
        elif text[i:i + 2] in ("&&", "<=", ">=", "=="):
            toks.append(text[i:i + 2])
            i += 2
        elif c in "+*()<>%/-":
            toks.append(c)
            i += 1
        elif c.isdigit():
            m = re.match(r"0[xX][0-9a-fA-F_]+|[0-9][0-9_]*", text[i:])
            toks.append(("num", _num(m.group(0))))
            i += len(m.group(0))
        elif c.isalpha() or c == "_":
            m = re.match(r"\w+", text[i:])
            toks.append(("id", m.group(0)))
            i += len(m.group(0))
        else:
            raise ParseError("%s: unexpected character %r in %r" % (what, c, text.strip()[:80]))
    return toks


class Expr(object):
    def __init__(self, text, variables, what):
        self.what = what
        self.vars = variables
        self.toks = _toks(_norm(text), what)
        self.pos = 0

    def peek(self):
        return self.toks[self.pos] if self.pos < len(self.toks) else None

    def take(self):
        t = self.peek()
        self.pos += 1
        return t

    def atom(self):
        t = self.take()
        if isinstance(t, tuple) and t[0] == "num":
            return str(t[1])
        if isinstance(t, tuple) and t[0] == "id":
            if t[1] not in self.vars:
                raise ParseError("%s mentions unknown variable %s" % (self.what, t[1]))
            return t[1]
        if t == "(":
            e = self.summ()
            if self.take() != ")":
                raise ParseError("%s: missing )" % self.what)
            return e
        raise ParseError("%s: unexpected token %r" % (self.what, t))

    def prod(self):
        e = self.atom()
        while self.peek() in ("*", "/", "%"):
            op = self.take()
            r = self.atom()
            if op == "*":
                e = "(%s * %s)" % (e, r)
            else:
                if r != "rows":
                    raise ParseError("%s: division by something else than `rows`" % self.what)
                e = "(%s %s %s)" % (e, "/" if op == "/" else "mod", r)
        return e

    def summ(self):
        e = self.prod()
        while self.peek() == "+":
            self.take()
            e = "(%s + %s)" % (e, self.prod())
        return e

    def end(self):
        if self.peek() is not None:
            raise ParseError("%s: trailing tokens %r" % (self.what, self.toks[self.pos:]))

    def value(self):
        e = self.summ()
        self.end()
        return e

    def value_minus(self):
        """A or A - B  ->  (A, B) with B = "0" when absent"""
        a = self.summ()
        b = "0"
        if self.peek() == "-":
            self.take()
            b = self.prod()
        self.end()
        return a, b

    def cmp_(self):
        a = self.summ()
        op = self.take()
        b = self.summ()
        if op == "<=":
            return "(%s <=? %s)" % (a, b)
        if op == "<":
            return "(%s <? %s)" % (a, b)
        if op == ">=":
            return "(%s <=? %s)" % (b, a)
        if op == ">":
            return "(%s <? %s)" % (b, a)
        raise ParseError("%s: comparison expected, got %r" % (self.what, op))

    def cond(self):
        e = self.cmp_()
        self.end()
        return e


def _impl_body(src, header_re, what):
    m = re.search(header_re, src, re.S)
    if not m:
        raise ParseError("%s not found" % what)
    i = src.index("{", m.end() - 1)
    depth, j = 0, i
    while j < len(src):
        if src[j] == "{":
            depth += 1
        elif src[j] == "}":
            depth -= 1
            if depth == 0:
                return src[i + 1:j]
        j += 1
    raise ParseError("unbalanced braces in %s" % what)


def _fn_body(block, name, what):
    m = re.search(r"\bfn\s+%s\b[^{;]*\{" % re.escape(name), block, re.S)
    if not m:
        raise ParseError("fn %s not found in %s" % (name, what))
    i = m.end() - 1
    depth, j = 0, i
    while j < len(block):
        if block[j] == "{":
            depth += 1
        elif block[j] == "}":
            depth -= 1
            if depth == 0:
                return " ".join(block[i + 1:j].split())
        j += 1
    raise ParseError("unbalanced braces in fn %s" % name)


E = r"([^;{}\[\]]+?)"          # an expression without statement / index delimiters


def _match(skeleton, text, what):
    m = re.fullmatch(skeleton, text.strip())
    if not m:
        raise ParseError("%s does not have the expected statement list: %r" % (what, text.strip()[:160]))
    return m


# ------------------------------------------------------------------ the functions

def parse_const(src):
    m = re.search(r"const\s+DEFAULT_EXTRA_ROWS\s*:\s*usize\s*=\s*([0-9xXa-fA-F_]+)\s*;", src)
    if not m:
        raise ParseError("const DEFAULT_EXTRA_ROWS not found")
    return _num(m.group(1))


def parse_new(inherent):
    b = _fn_body(inherent, "new", "impl StripedSequence")
    m = _match(r"if\s+" + E + r"\s*\{\s*Err\s*\(\s*InvalidData\s*\)\s*\}\s*else\s*\{\s*Ok\s*\(\s*Self\s*\{(.*?)\}\s*\)\s*\}", b, "StripedSequence::new")
    fields = dict((k.strip(), v.strip()) for k, v in
                  (f.split(":", 1) if ":" in f else (f, f) for f in m.group(2).split(",") if f.strip()))
    if fields.get("data") != "data" or fields.get("length") != "length" or "wrap" not in fields:
        raise ParseError("StripedSequence::new: unexpected struct literal %r" % m.group(2))
    return dict(guard=Expr(m.group(1), ("drows", "columns", "length"), "new guard").cond(),
                wrap=Expr(fields["wrap"], (), "new wrap").value())


def parse_configure_wrap(inherent):
    b = _fn_body(inherent, "configure_wrap", "impl StripedSequence")
    m = _match(
        r"if\s+" + E + r"\s*\{\s*let\s+rows\s*=\s*" + E + r"\s*;\s*self\s*\.\s*data\s*\.\s*resize\s*\(" + E + r"\)\s*;\s*"
        r"for\s+i\s+in\s+" + E + r"\.\." + E + r"\s*\{\s*for\s+j\s+in\s+" + E + r"\.\." + E + r"\s*\{\s*"
        r"self\s*\.\s*data\s*\[" + E + r"\]\s*\[" + E + r"\]\s*=\s*self\s*\.\s*data\s*\[" + E + r"\]\s*\[" + E + r"\]\s*;\s*\}\s*"
        r"self\s*\.\s*data\s*\[" + E + r"\]\s*\[" + E + r"\]\s*=\s*A\s*::\s*default_symbol\s*\(\s*\)\s*;\s*\}\s*"
        r"self\s*\.\s*wrap\s*=\s*" + E + r"\s*;\s*\}", b, "configure_wrap")
    g = m.groups()
    base = ("m", "wrap", "drows", "columns")
    loc = base + ("rows", "i", "j")
    d = dict(cond=Expr(g[0], base, "configure_wrap condition").cond())
    d["rows"] = Expr(g[1], base, "configure_wrap rows").value_minus()
    d["resize"] = Expr(g[2], base, "configure_wrap resize").value_minus()
    d["outer_lo"] = Expr(g[3], base + ("rows",), "configure_wrap outer range").value()
    d["outer_hi"] = Expr(g[4], base + ("rows",), "configure_wrap outer range").value()
    d["inner_lo"] = Expr(g[5], base + ("rows", "i"), "configure_wrap inner range").value()
    d["inner_hi"] = Expr(g[6], base + ("rows", "i"), "configure_wrap inner range").value_minus()
    d["dst_row"] = Expr(g[7], loc, "configure_wrap destination row").value()
    d["dst_col"] = Expr(g[8], loc, "configure_wrap destination column").value()
    d["src_row"] = Expr(g[9], loc, "configure_wrap source row").value()
    d["src_col"] = Expr(g[10], loc, "configure_wrap source column").value()
    d["last_row"] = Expr(g[11], loc, "configure_wrap last-column row").value()
    d["last_col"] = Expr(g[12], loc, "configure_wrap last column").value_minus()
    d["new_wrap"] = Expr(g[13], base, "configure_wrap new wrap").value()
    return d


def parse_configure(inherent):
    b = _fn_body(inherent, "configure", "impl StripedSequence")
    m = _match(r"if\s+!\s*motif\s*\.\s*is_empty\s*\(\s*\)\s*\{\s*self\s*\.\s*configure_wrap\s*\(" + E + r"\)\s*;\s*\}", b, "configure")
    e = re.sub(r"\bmotif\s*\.\s*len\s*\(\s*\)", "mlen", m.group(1))
    return Expr(e, ("mlen",), "configure argument").value_minus()


def parse_index(src):
    blk = _impl_body(src, r"impl\s*<[^>]*>\s*Index\s*<\s*usize\s*>\s*for\s+StripedSequence\s*<[^>]*>\s*\{", "impl Index<usize> for StripedSequence")
    b = _fn_body(blk, "index", "impl Index<usize> for StripedSequence")
    m = _match(r"let\s+rows\s*=\s*" + E + r"\s*;\s*let\s+col\s*=\s*" + E + r"\s*;\s*let\s+row\s*=\s*" + E + r"\s*;\s*&\s*self\s*\.\s*data\s*\[\s*row\s*\]\s*\[\s*col\s*\]", b, "Index::index")
    base = ("index", "wrap", "drows", "columns")
    return dict(rows=Expr(m.group(1), base, "index rows").value_minus(),
                col=Expr(m.group(2), base + ("rows",), "index col").value(),
                row=Expr(m.group(3), base + ("rows",), "index row").value())


def _count_common(b, what, update):
    m = _match(
        r"let\s+mut\s+(?:count\s*=\s*0|counts\s*=\s*GenericArray\s*::\s*default\s*\(\s*\))\s*;\s*"
        r"let\s+rows\s*=\s*" + E + r"\s*;\s*let\s+l\s*=\s*" + E + r"\s*;\s*"
        r"for\s+i\s+in\s+" + E + r"\.\." + E + r"\s*\{\s*let\s+row\s*=\s*&\s*self\s*\.\s*data\s*\[" + E + r"\]\s*;\s*"
        r"for\s+j\s+in\s+" + E + r"\.\." + E + r"\s*\{\s*let\s+index\s*=\s*" + E + r"\s*;\s*" + update + r"\s*\}\s*\}\s*counts?", b, what)
    g = m.groups()
    base = ("wrap", "drows", "columns", "len")
    loc = base + ("rows", "l", "i", "j")
    return dict(rows=Expr(g[0], base, what + " rows").value_minus(),
                l=Expr(g[1], base, what + " l").value(),
                outer_lo=Expr(g[2], base + ("rows", "l"), what + " outer range").value(),
                outer_hi=Expr(g[3], base + ("rows", "l"), what + " outer range").value(),
                row=Expr(g[4], loc, what + " row read").value(),
                inner_lo=Expr(g[5], loc, what + " inner range").value(),
                inner_hi=Expr(g[6], loc, what + " inner range").value(),
                index=Expr(g[7], loc, what + " linear index").value(),
                guard=Expr(g[8], loc + ("index",), what + " guard").cond(),
                col=Expr(g[9], loc + ("index",), what + " column").value())


def parse_counts(src):
    blk = _impl_body(src, r"impl\s*<[^>]*>\s*SymbolCount\s*<\s*A\s*>\s*for\s+StripedSequence\s*<[^>]*>\s*\{", "impl SymbolCount for StripedSequence")
    one = _count_common(_fn_body(blk, "count_symbol", "impl SymbolCount for StripedSequence"), "count_symbol",
                        r"if\s+" + E + r"\s*&&\s*row\s*\[" + E + r"\]\s*==\s*symbol\s*\{\s*count\s*\+=\s*1\s*;?\s*\}")
    allc = _count_common(_fn_body(blk, "count_symbols", "impl SymbolCount for StripedSequence"), "count_symbols",
                         r"if\s+" + E + r"\s*\{\s*counts\s*\[\s*row\s*\[" + E + r"\]\s*\.\s*as_index\s*\(\s*\)\s*\]\s*\+=\s*1\s*;\s*\}")
    return one, allc


# ------------------------------------------------------------------ rendering

def render(c):
    L = []
    A = L.append
    A("(* GENERATED by translate/stripe_seq.py from /repo/lightmotif/src/seq.rs -- do not edit;")
    A("   regenerated on every check.  drows = self.data.rows(), columns = C::USIZE,")
    A("   wrap = self.wrap, len = self.len(); (a, b) pairs stand for the usize subtraction a - b. *)")
    A("From Coq Require Import List Arith Bool.")
    A("")
    A("Definition default_extra_rows : nat := %d." % c["extra"])
    A("")
    A("(* StripedSequence::new: if <guard> { Err(InvalidData) } else { Ok(Self { data, length, wrap: <wrap> }) } *)")
    A("Definition new_guard (drows columns length : nat) : bool := %s." % c["new"]["guard"])
    A("Definition new_wrap : nat := %s." % c["new"]["wrap"])
    A("")
    w = c["cw"]
    A("(* configure(&motif): if !motif.is_empty() { self.configure_wrap(<a> - <b>) }   (mlen = motif.len()) *)")
    A("Definition cf_arg_a (mlen : nat) : nat := %s." % c["cf"][0])
    A("Definition cf_arg_b (mlen : nat) : nat := %s." % c["cf"][1])
    A("")
    A("(* configure_wrap(m): if <cond> { let rows = <a> - <b>; self.data.resize(<a> - <b>);")
    A("     for i in <lo>..<hi> { for j in <lo>..<hi_a> - <hi_b> { self.data[dst_row][dst_col] = self.data[src_row][src_col]; }")
    A("                           self.data[last_row][last_col_a - last_col_b] = A::default_symbol(); }")
    A("     self.wrap = <new_wrap>; } *)")
    b = "(m wrap drows columns : nat)"
    br = "(m wrap drows columns rows : nat)"
    bi = "(m wrap drows columns rows i : nat)"
    bj = "(m wrap drows columns rows i j : nat)"
    A("Definition cw_cond %s : bool := %s." % (b, w["cond"]))
    A("Definition cw_rows_a %s : nat := %s." % (b, w["rows"][0]))
    A("Definition cw_rows_b %s : nat := %s." % (b, w["rows"][1]))
    A("Definition cw_resize_a %s : nat := %s." % (b, w["resize"][0]))
    A("Definition cw_resize_b %s : nat := %s." % (b, w["resize"][1]))
    A("Definition cw_outer_lo %s : nat := %s." % (br, w["outer_lo"]))
    A("Definition cw_outer_hi %s : nat := %s." % (br, w["outer_hi"]))
    A("Definition cw_inner_lo %s : nat := %s." % (bi, w["inner_lo"]))
    A("Definition cw_inner_hi_a %s : nat := %s." % (bi, w["inner_hi"][0]))
    A("Definition cw_inner_hi_b %s : nat := %s." % (bi, w["inner_hi"][1]))
    A("Definition cw_dst_row %s : nat := %s." % (bj, w["dst_row"]))
    A("Definition cw_dst_col %s : nat := %s." % (bj, w["dst_col"]))
    A("Definition cw_src_row %s : nat := %s." % (bj, w["src_row"]))
    A("Definition cw_src_col %s : nat := %s." % (bj, w["src_col"]))
    A("Definition cw_last_row %s : nat := %s." % (bj, w["last_row"]))
    A("Definition cw_last_col_a %s : nat := %s." % (bj, w["last_col"][0]))
    A("Definition cw_last_col_b %s : nat := %s." % (bj, w["last_col"][1]))
    A("Definition cw_new_wrap %s : nat := %s." % (b, w["new_wrap"]))
    A("")
    x = c["ix"]
    A("(* Index<usize>: let rows = <a> - <b>; let col = <col>; let row = <row>; &self.data[row][col] *)")
    A("Definition ix_rows_a (index wrap drows columns : nat) : nat := %s." % x["rows"][0])
    A("Definition ix_rows_b (index wrap drows columns : nat) : nat := %s." % x["rows"][1])
    A("Definition ix_col (index wrap drows columns rows : nat) : nat := %s." % x["col"])
    A("Definition ix_row (index wrap drows columns rows : nat) : nat := %s." % x["row"])
    A("")
    for pre, d, txt in (("cs", c["cs"], "count_symbol: .. if <guard> && row[<col>] == symbol { count += 1 }"),
                        ("ca", c["ca"], "count_symbols: .. if <guard> { counts[row[<col>].as_index()] += 1 }")):
        A("(* %s" % txt)
        A("   let rows = <a> - <b>; let l = <l>; for i in <lo>..<hi> { let row = &self.data[<row>];")
        A("   for j in <lo>..<hi> { let index = <index>; .. } } *)")
        v0 = "(wrap drows columns len : nat)"
        v1 = "(wrap drows columns len rows l : nat)"
        v2 = "(wrap drows columns len rows l i j : nat)"
        v3 = "(wrap drows columns len rows l i j index : nat)"
        A("Definition %s_rows_a %s : nat := %s." % (pre, v0, d["rows"][0]))
        A("Definition %s_rows_b %s : nat := %s." % (pre, v0, d["rows"][1]))
        A("Definition %s_l %s : nat := %s." % (pre, v0, d["l"]))
        A("Definition %s_outer_lo %s : nat := %s." % (pre, v1, d["outer_lo"]))
        A("Definition %s_outer_hi %s : nat := %s." % (pre, v1, d["outer_hi"]))
        A("Definition %s_row %s : nat := %s." % (pre, v2, d["row"]))
        A("Definition %s_inner_lo %s : nat := %s." % (pre, v2, d["inner_lo"]))
        A("Definition %s_inner_hi %s : nat := %s." % (pre, v2, d["inner_hi"]))
        A("Definition %s_index %s : nat := %s." % (pre, v2, d["index"]))
        A("Definition %s_guard %s : bool := %s." % (pre, v3, d["guard"]))
        A("Definition %s_col %s : nat := %s." % (pre, v3, d["col"]))
        A("")
    return "\n".join(L)


def translate(write=True):
    notes, errors = [], []
    try:
        src = _strip_comments(open(SEQ).read())
        inherent = _impl_body(src, r"impl\s*<\s*A\s*:\s*Alphabet\s*,\s*C\s*:\s*PositiveLength\s*>\s*StripedSequence\s*<\s*A\s*,\s*C\s*>\s*\{",
                              "impl StripedSequence")
        cs, ca = parse_counts(src)
        c = dict(extra=parse_const(src), new=parse_new(inherent), cw=parse_configure_wrap(inherent),
                 cf=parse_configure(inherent), ix=parse_index(src), cs=cs, ca=ca)
        text = render(c)
    except (ParseError, OSError, ValueError) as e:
        errors.append("stripe_seq: cannot parse the source: %s" % e)
        if not os.path.exists(OUT):
            errors.append("no previously generated GenSeq.v")
        return dict(ok=False, notes=notes, errors=errors)
    changed = False
    if write:
        try:
            old = open(OUT).read()
        except OSError:
            old = None
        if old != text:
            with open(OUT, "w") as f:
                f.write(text)
            changed = True
    notes.append("stripe_seq: DEFAULT_EXTRA_ROWS=%d, new / configure / configure_wrap / Index / count_symbol(s) "
                 "statement lists matched%s" % (c["extra"], " (regenerated)" if changed else ""))
    return dict(ok=True, notes=notes, errors=errors)


if __name__ == "__main__":
    r = translate(write="--dry" not in sys.argv)
    print(r)
    sys.exit(0 if r["ok"] else 1)
