#!/usr/bin/env python3
"""Translate the default (generic) striping code of /repo/lightmotif/src/pli/mod.rs -- the trait
`Stripe` with its two provided methods -- and the impls / conversions that merely forward to it
into plain Coq data (coq/stripe/GenPli.v):

  Stripe::stripe        rows, capacity, the arguments of DenseMatrix::with_capacity and of
                        StripedSequence::new, the call of stripe_into
  Stripe::stripe_into   rows, capacity, reserve / resize arguments, the symbol loop (index expressions
                        of `data[..][..] = x`), the fill loop (range, index expressions, value), the
                        argument of StripedSequence::new
  forwarding facts      `impl Stripe for Pipeline<A, Generic> {}` and `impl Stripe for Generic {}` are
                        EMPTY (they use the provided methods); the AVX2 and the dispatching pipelines
                        only override stripe_into (so `stripe` is the provided method around their
                        stripe_into); EncodedSequence::to_striped = Pipeline::dispatch().stripe(&data);
                        From<EncodedSequence> for StripedSequence = to_striped; From<StripedSequence>
                        for DenseMatrix = into_matrix = the `data` field; StripedSequence derives Clone.

Each function body is matched against a statement skeleton (its statements in order, any spacing);
the expressions are parsed by the expression parser of stripe_seq.py, extended with division /
remainder by `columns`, `(a > b) as usize` and parenthesised subtractions.  A subtraction `a - b`
inside an expression is rendered as Coq's truncated subtraction AND recorded in the `_ok` guard of
the expression (`b <=? a`): the model panics (site 5, usize underflow) when the guard is false.  A
division or remainder is recorded in the `_div` list of the expression: the model panics (site 3)
when a divisor is 0.  Anything that does not fit makes translate() return ok=False (a broken
obligation, not a crash).

Variables: length = s.len(), columns = C::USIZE, extra = crate::seq::DEFAULT_EXTRA_ROWS,
drows = data.rows() (evaluated where it is written), plus the locals of each function.
"""
import os
import re
import sys

VERIF = os.path.dirname(os.path.dirname(os.path.abspath(__file__)))
sys.path.insert(0, VERIF)
from translate.stripe_net import ParseError, _strip_comments  # noqa: E402
from translate.stripe_seq import Expr, _impl_body, _fn_body, _match, E  # noqa: E402

REPO = os.environ.get("VERIF_REPO", "/repo").rstrip("/") or "/repo"
PLI = os.path.join(REPO, "lightmotif/src/pli/mod.rs")
DISPATCH = os.path.join(REPO, "lightmotif/src/pli/dispatch.rs")
GENERIC = os.path.join(REPO, "lightmotif/src/pli/platform/generic.rs")
SEQ = os.path.join(REPO, "lightmotif/src/seq.rs")
OUT = os.path.join(VERIF, "coq", "stripe", "GenPli.v")

SUBST = [
    (r"\bs\s*\.\s*len\s*\(\s*\)", "length"),
    (r"\bcrate\s*::\s*seq\s*::\s*DEFAULT_EXTRA_ROWS\b", "extra"),
    (r"\bseq\s*::\s*DEFAULT_EXTRA_ROWS\b", "extra"),
    (r"\bDEFAULT_EXTRA_ROWS\b", "extra"),
]


class PExpr(Expr):
    """Expr + `/ columns`, `% columns`, `(a > b) as usize`, parenthesised subtraction."""

    def __init__(self, text, variables, what):
        for pat, rep in SUBST:
            text = re.sub(pat, rep, text)
        Expr.__init__(self, text, variables, what)
        self.guards = []      # Coq booleans: no usize underflow
        self.divs = []        # Coq nats: divisors

    def atom(self):
        t = self.peek()
        if t == "(":
            self.take()
            e = self.summ_minus()
            if self.peek() in ("<", ">", "<=", ">="):
                op = self.take()
                b = self.summ_minus()
                if self.take() != ")":
                    raise ParseError("%s: missing )" % self.what)
                if self.take() != ("id", "as") or self.take() != ("id", "usize"):
                    raise ParseError("%s: a parenthesised comparison must be cast `as usize`" % self.what)
                c = {"<": "(%s <? %s)" % (e, b), ">": "(%s <? %s)" % (b, e),
                     "<=": "(%s <=? %s)" % (e, b), ">=": "(%s <=? %s)" % (b, e)}[op]
                return "(if %s then 1 else 0)" % c
            if self.take() != ")":
                raise ParseError("%s: missing )" % self.what)
            return e
        return Expr.atom(self)

    def prod(self):
        e = self.atom()
        while self.peek() in ("*", "/", "%"):
            op = self.take()
            r = self.atom()
            if op == "*":
                e = "(%s * %s)" % (e, r)
            else:
                if r not in ("rows", "columns"):
                    raise ParseError("%s: division by something else than `rows` / `columns`" % self.what)
                self.divs.append(r)
                e = "(%s %s %s)" % (e, "/" if op == "/" else "mod", r)
        return e

    def summ_minus(self):
        e = self.prod()
        while self.peek() in ("+", "-"):
            op = self.take()
            r = self.prod()
            if op == "+":
                e = "(%s + %s)" % (e, r)
            else:
                self.guards.append("(%s <=? %s)" % (r, e))
                e = "(%s - %s)" % (e, r)
        return e

    def full(self):
        e = self.summ_minus()
        self.end()
        return dict(e=e, ok=" && ".join(self.guards) if self.guards else "true",
                    div="[" + "; ".join(self.divs) + "]")


def px(text, variables, what):
    return PExpr(text, variables, what).full()


# ------------------------------------------------------------------ the trait methods

def parse_stripe(trait):
    b = _fn_body(trait, "stripe", "trait Stripe")
    m = _match(
        r"let\s+s\s*=\s*seq\s*\.\s*as_ref\s*\(\s*\)\s*;\s*let\s+length\s*=\s*s\s*\.\s*len\s*\(\s*\)\s*;\s*"
        r"let\s+rows\s*=\s*" + E + r"\s*;\s*let\s+capacity\s*=\s*" + E + r"\s*;\s*"
        r"let\s+mut\s+striped\s*=\s*StripedSequence\s*::\s*new\s*\(\s*DenseMatrix\s*::\s*with_capacity\s*\(" + E + r"," + E + r"\)\s*,"
        + E + r"\)\s*\.\s*unwrap\s*\(\s*\)\s*;\s*"
        r"self\s*\.\s*stripe_into\s*\(\s*s\s*,\s*&\s*mut\s+striped\s*\)\s*;\s*striped", b, "Stripe::stripe")
    g = m.groups()
    base = ("length", "columns", "extra")
    loc = base + ("rows", "capacity")
    return dict(rows=px(g[0], base, "stripe rows"), capacity=px(g[1], base + ("rows",), "stripe capacity"),
                mrows=px(g[2], loc, "stripe with_capacity rows"), mcap=px(g[3], loc, "stripe with_capacity capacity"),
                newlen=px(g[4], loc, "stripe new length"))


def parse_stripe_into(trait):
    b = _fn_body(trait, "stripe_into", "trait Stripe")
    default = r"(?:A\s*::\s*Symbol\s*::\s*default\s*\(\s*\)|A\s*::\s*default_symbol\s*\(\s*\)|Default\s*::\s*default\s*\(\s*\))"
    m = _match(
        r"let\s+s\s*=\s*seq\s*\.\s*as_ref\s*\(\s*\)\s*;\s*let\s+length\s*=\s*s\s*\.\s*len\s*\(\s*\)\s*;\s*"
        r"let\s+rows\s*=\s*" + E + r"\s*;\s*let\s+capacity\s*=\s*" + E + r"\s*;\s*"
        r"let\s+mut\s+data\s*=\s*std\s*::\s*mem\s*::\s*take\s*\(\s*striped\s*\)\s*\.\s*into_matrix\s*\(\s*\)\s*;\s*"
        r"data\s*\.\s*reserve\s*\(" + E + r"\)\s*;\s*data\s*\.\s*resize\s*\(" + E + r"\)\s*;\s*"
        r"for\s*\(\s*i\s*,\s*&\s*x\s*\)\s*in\s+s\s*\.\s*iter\s*\(\s*\)\s*\.\s*enumerate\s*\(\s*\)\s*\{\s*"
        r"data\s*\[" + E + r"\]\s*\[" + E + r"\]\s*=\s*x\s*;\s*\}\s*"
        r"for\s+i\s+in\s+" + E + r"\.\." + E + r"\s*\{\s*data\s*\[" + E + r"\]\s*\[" + E + r"\]\s*=\s*" + default + r"\s*;\s*\}\s*"
        r"\*\s*striped\s*=\s*StripedSequence\s*::\s*new\s*\(\s*data\s*,\s*" + E + r"\)\s*\.\s*unwrap\s*\(\s*\)\s*;", b,
        "Stripe::stripe_into")
    g = m.groups()
    base = ("length", "columns", "extra")
    loc = base + ("rows", "capacity")
    # data.rows() / data.columns(): the matrix after the resize (the loops do not change its shape)
    def dn(t):
        t = re.sub(r"\bdata\s*\.\s*rows\s*\(\s*\)", "drows", t)
        return re.sub(r"\bdata\s*\.\s*columns\s*\(\s*\)", "columns", t)
    cell = loc + ("drows", "i")
    return dict(rows=px(g[0], base, "stripe_into rows"), capacity=px(g[1], base + ("rows",), "stripe_into capacity"),
                reserve=px(g[2], loc, "stripe_into reserve"), resize=px(g[3], loc, "stripe_into resize"),
                w_row=px(dn(g[4]), cell, "stripe_into symbol row"), w_col=px(dn(g[5]), cell, "stripe_into symbol column"),
                f_lo=px(dn(g[6]), loc + ("drows",), "stripe_into fill range"), f_hi=px(dn(g[7]), loc + ("drows",), "stripe_into fill range"),
                f_row=px(dn(g[8]), cell, "stripe_into fill row"), f_col=px(dn(g[9]), cell, "stripe_into fill column"),
                newlen=px(g[10], loc, "stripe_into new length"))


# ------------------------------------------------------------------ forwarding facts

def _only_fns(block, what):
    return sorted(set(re.findall(r"\bfn\s+(\w+)", block)))


def parse_forwarding(pli, dispatch, generic, seq):
    facts = []
    # impl Stripe for Pipeline<A, Generic> {}  /  impl Stripe for Generic {}
    for src, pat, what in (
            (pli, r"impl\s*<[^>]*>\s*Stripe\s*<\s*A\s*,\s*C\s*>\s*for\s+Pipeline\s*<\s*A\s*,\s*Generic\s*>\s*\{", "impl Stripe for Pipeline<A, Generic>"),
            (generic, r"impl\s*<[^{]*>\s*Stripe\s*<\s*A\s*,\s*C\s*>\s*for\s+Generic\s*\{", "impl Stripe for Generic")):
        body = _impl_body(src, pat, what)
        if body.strip():
            raise ParseError("%s is not empty: it overrides the provided striping methods" % what)
        facts.append(what + " {} (provided methods)")
    # the AVX2 pipeline: only stripe_into, forwarding to Avx2::stripe_into(seq, matrix)
    body = _impl_body(pli, r"impl\s*<[^>]*>\s*Stripe\s*<\s*A\s*,\s*<\s*Avx2\s+as\s+Backend\s*>\s*::\s*Lanes\s*>\s*for\s+Pipeline\s*<\s*A\s*,\s*Avx2\s*>\s*\{",
                      "impl Stripe for Pipeline<A, Avx2>")
    if _only_fns(body, "") != ["stripe_into"]:
        raise ParseError("impl Stripe for Pipeline<A, Avx2> defines %s, expected only stripe_into" % _only_fns(body, ""))
    fb = _fn_body(body, "stripe_into", "impl Stripe for Pipeline<A, Avx2>")
    if not re.fullmatch(r"Avx2\s*::\s*stripe_into\s*\(\s*seq\s*,\s*matrix\s*\)\s*;?", fb.strip()):
        raise ParseError("Pipeline<A, Avx2>::stripe_into does not forward to Avx2::stripe_into(seq, matrix): %r" % fb[:80])
    facts.append("Pipeline<A, Avx2>: stripe_into = Avx2::stripe_into(seq, matrix), stripe provided")
    # the dispatching pipeline: only stripe_into (its arm table is translated by stripe_net.py)
    body = _impl_body(dispatch, r"impl\s*<[^>]*>\s*Stripe\s*<\s*A\s*,\s*<\s*Dispatch\s+as\s+Backend\s*>\s*::\s*Lanes\s*>\s*for\s+Pipeline\s*<\s*A\s*,\s*Dispatch\s*>\s*\{",
                      "impl Stripe for Pipeline<A, Dispatch>")
    if _only_fns(body, "") != ["stripe_into"]:
        raise ParseError("impl Stripe for Pipeline<A, Dispatch> defines %s, expected only stripe_into" % _only_fns(body, ""))
    facts.append("Pipeline<A, Dispatch>: only stripe_into (arm table: GenStripeNet.v), stripe provided")
    # EncodedSequence::to_striped
    enc = _impl_body(seq, r"impl\s*<\s*A\s*:\s*Alphabet\s*>\s*EncodedSequence\s*<\s*A\s*>\s*\{", "impl EncodedSequence")
    fb = _fn_body(enc, "to_striped", "impl EncodedSequence")
    if not re.fullmatch(r"let\s+pli\s*=\s*Pipeline\s*::\s*<\s*A\s*,\s*_\s*>\s*::\s*dispatch\s*\(\s*\)\s*;\s*pli\s*\.\s*stripe\s*\(\s*&\s*self\s*\.\s*data\s*\)", fb.strip()):
        raise ParseError("EncodedSequence::to_striped is not `Pipeline::dispatch().stripe(&self.data)`: %r" % fb[:100])
    facts.append("EncodedSequence::to_striped = Pipeline::dispatch().stripe(&self.data)")
    # From<EncodedSequence> for StripedSequence
    body = _impl_body(seq, r"impl\s*<[^>]*>\s*From\s*<\s*EncodedSequence\s*<\s*A\s*>\s*>\s*for\s+StripedSequence\s*<\s*A\s*,\s*C\s*>\s*where[^{]*\{",
                      "impl From<EncodedSequence> for StripedSequence")
    fb = _fn_body(body, "from", "impl From<EncodedSequence> for StripedSequence")
    if not re.fullmatch(r"encoded\s*\.\s*to_striped\s*\(\s*\)", fb.strip()):
        raise ParseError("From<EncodedSequence> for StripedSequence is not encoded.to_striped(): %r" % fb[:80])
    facts.append("From<EncodedSequence> for StripedSequence = to_striped")
    # From<StripedSequence> for DenseMatrix, into_matrix
    body = _impl_body(seq, r"impl\s*<[^>]*>\s*From\s*<\s*StripedSequence\s*<\s*A\s*,\s*C\s*>\s*>\s*for\s+DenseMatrix\s*<[^{]*\{",
                      "impl From<StripedSequence> for DenseMatrix")
    fb = _fn_body(body, "from", "impl From<StripedSequence> for DenseMatrix")
    if not re.fullmatch(r"striped\s*\.\s*into_matrix\s*\(\s*\)", fb.strip()):
        raise ParseError("From<StripedSequence> for DenseMatrix is not striped.into_matrix(): %r" % fb[:80])
    inherent = _impl_body(seq, r"impl\s*<\s*A\s*:\s*Alphabet\s*,\s*C\s*:\s*PositiveLength\s*>\s*StripedSequence\s*<\s*A\s*,\s*C\s*>\s*\{", "impl StripedSequence")
    fb = _fn_body(inherent, "into_matrix", "impl StripedSequence")
    if not re.fullmatch(r"self\s*\.\s*data", fb.strip()):
        raise ParseError("StripedSequence::into_matrix is not `self.data`: %r" % fb[:80])
    facts.append("From<StripedSequence> for DenseMatrix = into_matrix = self.data")
    # #[derive(Clone)] pub struct StripedSequence { alphabet, length, wrap, data }
    m = re.search(r"#\s*\[\s*derive\s*\(([^)]*)\)\s*\]\s*pub\s+struct\s+StripedSequence\s*<[^{]*\{([^}]*)\}", seq, re.S)
    if not m or "Clone" not in [x.strip() for x in m.group(1).split(",")]:
        raise ParseError("struct StripedSequence does not derive Clone (a hand-written Clone must be modelled)")
    fields = sorted(re.findall(r"(?:^|,)\s*(?:pub(?:\([^)]*\))?\s+)?(\w+)\s*:(?!:)", m.group(2)))
    if fields != ["alphabet", "data", "length", "wrap"]:
        raise ParseError("struct StripedSequence has fields %s, expected alphabet, data, length, wrap" % fields)
    if re.search(r"impl\s*<[^>]*>\s*Clone\s+for\s+StripedSequence", seq):
        raise ParseError("hand-written impl Clone for StripedSequence")
    facts.append("StripedSequence derives Clone over {alphabet, length, wrap, data} (field-wise copy)")
    # the getters and Default / AsRef: one-expression bodies
    for name, pat, txt in (
            ("len", r"self\s*\.\s*length", "len() = self.length"),
            ("is_empty", r"self\s*\.\s*length\s*==\s*0", "is_empty() = (self.length == 0)"),
            ("wrap", r"self\s*\.\s*wrap", "wrap() = self.wrap"),
            ("matrix", r"&\s*self\s*\.\s*data", "matrix() = &self.data")):
        fb = _fn_body(inherent, name, "impl StripedSequence")
        if not re.fullmatch(pat, fb.strip()):
            raise ParseError("StripedSequence::%s is not `%s`: %r" % (name, txt, fb[:80]))
        facts.append(txt)
    body = _impl_body(seq, r"impl\s*<[^>]*>\s*Default\s+for\s+StripedSequence\s*<\s*A\s*,\s*C\s*>\s*\{", "impl Default for StripedSequence")
    fb = _fn_body(body, "default", "impl Default for StripedSequence")
    if not re.fullmatch(r"Self\s*::\s*new\s*\(\s*DenseMatrix\s*::\s*new\s*\(\s*0\s*\)\s*,\s*0\s*\)\s*\.\s*unwrap\s*\(\s*\)", fb.strip()):
        raise ParseError("StripedSequence::default is not Self::new(DenseMatrix::new(0), 0).unwrap(): %r" % fb[:80])
    facts.append("Default = Self::new(DenseMatrix::new(0), 0).unwrap()  (s_default: no rows, len 0, wrap 0)")
    for target, pat, txt in (
            (r"StripedSequence\s*<\s*A\s*,\s*C\s*>", r"self", "AsRef<StripedSequence> = self"),
            (r"DenseMatrix\s*<\s*A\s*::\s*Symbol\s*,\s*C\s*>", r"&\s*self\s*\.\s*data", "AsRef<DenseMatrix> = &self.data")):
        body = _impl_body(seq, r"impl\s*<[^>]*>\s*AsRef\s*<\s*" + target + r"\s*>\s*for\s+StripedSequence\s*<\s*A\s*,\s*C\s*>\s*\{",
                          "impl " + txt.split(" =")[0] + " for StripedSequence")
        fb = _fn_body(body, "as_ref", txt)
        if not re.fullmatch(pat, fb.strip()):
            raise ParseError("%s does not hold: %r" % (txt, fb[:80]))
        facts.append(txt)
    return facts


def parse_sample(seq):
    """StripedSequence::sample (row count, fill order, new length) and EncodedSequence::sample (take(length))"""
    STR = r'"[^"]*"'
    DIST = (r"let\s+symbols\s*=\s*<\s*A\s+as\s+Alphabet\s*>\s*::\s*symbols\s*\(\s*\)\s*;\s*"
            r"let\s+dist\s*=\s*rand_distr\s*::\s*WeightedAliasIndex\s*::\s*new\s*\(\s*background\s*\.\s*frequencies\s*\(\s*\)\s*\.\s*into\s*\(\s*\)\s*\)\s*"
            r"\.\s*expect\s*\(\s*" + STR + r"\s*\)\s*;\s*")
    inherent = _impl_body(seq, r"impl\s*<\s*A\s*:\s*Alphabet\s*,\s*C\s*:\s*PositiveLength\s*>\s*StripedSequence\s*<\s*A\s*,\s*C\s*>\s*\{", "impl StripedSequence")
    b = _fn_body(inherent, "sample", "impl StripedSequence")
    m = _match(DIST +
               r"let\s+mut\s+data\s*=\s*unsafe\s*\{\s*DenseMatrix\s*::\s*uninitialized\s*\(" + E + r"\)\s*\}\s*;\s*"
               r"for\s+row\s+in\s+data\s*\.\s*iter_mut\s*\(\s*\)\s*\{\s*"
               r"for\s*\(\s*x\s*,\s*y\s*\)\s*in\s+row\s*\.\s*iter_mut\s*\(\s*\)\s*\.\s*zip\s*\(\s*\(\s*&\s*mut\s+rng\s*\)\s*\.\s*sample_iter\s*\(\s*&\s*dist\s*\)\s*\)\s*\{\s*"
               r"\*\s*x\s*=\s*symbols\s*\[\s*y\s*\]\s*;\s*\}\s*\}\s*"
               # the repair of /repo 740d563: the padding cells are overwritten with the wildcard
               r"let\s+rows\s*=\s*data\s*\.\s*rows\s*\(\s*\)\s*;\s*"
               r"for\s+i\s+in\s+" + E + r"\.\." + E + r"\s*\{\s*data\s*\[" + E + r"\]\s*\[" + E + r"\]\s*=\s*"
               r"(?:A\s*::\s*default_symbol\s*\(\s*\)|A\s*::\s*Symbol\s*::\s*default\s*\(\s*\))\s*;\s*\}\s*"
               r"Self\s*::\s*new\s*\(\s*data\s*,\s*" + E + r"\)\s*\.\s*expect\s*\(\s*" + STR + r"\s*\)", b, "StripedSequence::sample")
    base = ("length", "columns", "extra")
    fb = base + ("rows",)
    d = dict(rows=px(m.group(1), base, "sample rows"), newlen=px(m.group(6), base, "sample new length"),
             f_lo=px(m.group(2), fb, "sample fill range"), f_hi=px(m.group(3), fb, "sample fill range"),
             f_row=px(m.group(4), fb + ("i",), "sample fill row"), f_col=px(m.group(5), fb + ("i",), "sample fill column"))
    enc = _impl_body(seq, r"impl\s*<\s*A\s*:\s*Alphabet\s*>\s*EncodedSequence\s*<\s*A\s*>\s*\{", "impl EncodedSequence")
    b = _fn_body(enc, "sample", "impl EncodedSequence")
    m = _match(DIST + r"rng\s*\.\s*sample_iter\s*\(\s*&\s*dist\s*\)\s*\.\s*take\s*\(" + E + r"\)\s*\.\s*map\s*\(\s*\|\s*i\s*\|\s*symbols\s*\[\s*i\s*\]\s*\)\s*\.\s*collect\s*\(\s*\)",
               b, "EncodedSequence::sample")
    d["take"] = px(m.group(1), base, "EncodedSequence::sample take")
    return d


# ------------------------------------------------------------------ rendering

def render(st, si, facts, sm):
    L = []
    A = L.append
    A("(* GENERATED by translate/stripe_pli.py from /repo/lightmotif/src/pli/mod.rs (trait Stripe) -- do not edit;")
    A("   regenerated on every check.  length = s.len(), columns = C::USIZE, extra = DEFAULT_EXTRA_ROWS,")
    A("   drows = data.rows() after the resize.  For every expression <x>: <x> is its value (subtraction")
    A("   truncated), <x>_ok the no-underflow guard of its subtractions, <x>_div its divisors.")
    A("   Forwarding facts matched in the source:")
    for f in facts:
        A("     - " + f)
    A("*)")
    A("From Coq Require Import List Arith Bool.")
    A("Import ListNotations.")
    A("")

    def emit(pre, name, args, d):
        A("Definition %s_%s %s : nat := %s." % (pre, name, args, d["e"]))
        A("Definition %s_%s_ok %s : bool := %s." % (pre, name, args, d["ok"]))
        A("Definition %s_%s_div %s : list nat := %s." % (pre, name, args, d["div"]))

    b0 = "(length columns extra : nat)"
    b1 = "(length columns extra rows : nat)"
    b2 = "(length columns extra rows capacity : nat)"
    b3 = "(length columns extra rows capacity drows : nat)"
    b4 = "(length columns extra rows capacity drows i : nat)"
    A("(* Stripe::stripe: let rows = <rows>; let capacity = <capacity>;")
    A("   let mut striped = StripedSequence::new(DenseMatrix::with_capacity(<mrows>, <mcap>), <newlen>).unwrap();")
    A("   self.stripe_into(s, &mut striped); striped *)")
    emit("st", "rows", b0, st["rows"])
    emit("st", "capacity", b1, st["capacity"])
    emit("st", "mrows", b2, st["mrows"])
    emit("st", "mcap", b2, st["mcap"])
    emit("st", "newlen", b2, st["newlen"])
    A("")
    A("(* Stripe::stripe_into: let rows = <rows>; let capacity = <capacity>; let mut data = take(striped).into_matrix();")
    A("   data.reserve(<reserve>); data.resize(<resize>);")
    A("   for (i, &x) in s.iter().enumerate() { data[<w_row>][<w_col>] = x; }")
    A("   for i in <f_lo>..<f_hi> { data[<f_row>][<f_col>] = A::Symbol::default(); }")
    A("   *striped = StripedSequence::new(data, <newlen>).unwrap(); *)")
    emit("si", "rows", b0, si["rows"])
    emit("si", "capacity", b1, si["capacity"])
    emit("si", "reserve", b2, si["reserve"])
    emit("si", "resize", b2, si["resize"])
    emit("si", "w_row", b4, si["w_row"])
    emit("si", "w_col", b4, si["w_col"])
    emit("si", "f_lo", b3, si["f_lo"])
    emit("si", "f_hi", b3, si["f_hi"])
    emit("si", "f_row", b4, si["f_row"])
    emit("si", "f_col", b4, si["f_col"])
    emit("si", "newlen", b2, si["newlen"])
    A("")
    A("(* seq.rs StripedSequence::sample: let mut data = unsafe { DenseMatrix::uninitialized(<rows>) };")
    A("   for row in data.iter_mut() { for (x, y) in row.iter_mut().zip((&mut rng).sample_iter(&dist)) { *x = symbols[y]; } }")
    A("   let rows = data.rows(); for i in <f_lo>..<f_hi> { data[<f_row>][<f_col>] = A::default_symbol(); }")
    A("   Self::new(data, <newlen>).expect(..)      -- every row, left to right, takes the next C draws; then the")
    A("   cells past the end of the sequence are overwritten with the wildcard (repair of /repo 740d563)")
    A("   seq.rs EncodedSequence::sample: rng.sample_iter(&dist).take(<take>).map(|i| symbols[i]).collect() *)")
    emit("sm", "rows", b0, sm["rows"])
    emit("sm", "newlen", b0, sm["newlen"])
    emit("sm", "take", b0, sm["take"])
    emit("sm", "f_lo", b1, sm["f_lo"])
    emit("sm", "f_hi", b1, sm["f_hi"])
    emit("sm", "f_row", "(length columns extra rows i : nat)", sm["f_row"])
    emit("sm", "f_col", "(length columns extra rows i : nat)", sm["f_col"])
    A("")
    return "\n".join(L)


def translate(write=True):
    notes, errors = [], []
    try:
        pli = _strip_comments(open(PLI).read())
        dispatch = _strip_comments(open(DISPATCH).read())
        generic = _strip_comments(open(GENERIC).read())
        seq = _strip_comments(open(SEQ).read())
        trait = _impl_body(pli, r"pub\s+trait\s+Stripe\s*<\s*A\s*:\s*Alphabet\s*,\s*C\s*:\s*PositiveLength\s*>\s*\{", "trait Stripe")
        if sorted(set(re.findall(r"\bfn\s+(\w+)", trait))) != ["stripe", "stripe_into"]:
            raise ParseError("trait Stripe has other methods than stripe / stripe_into")
        st = parse_stripe(trait)
        si = parse_stripe_into(trait)
        facts = parse_forwarding(pli, dispatch, generic, seq)
        sm = parse_sample(seq)
        text = render(st, si, facts, sm)
    except (ParseError, OSError, ValueError) as e:
        errors.append("stripe_pli: cannot parse the source: %s" % e)
        if not os.path.exists(OUT):
            errors.append("no previously generated GenPli.v")
        return dict(ok=False, notes=notes, errors=errors)
    changed = False
    if write:
        try:
            old = open(OUT).read()
        except OSError:
            old = None
        if old != text:
            with open(OUT, "w") as f:
                f.write(text)
            changed = True
    notes.append("stripe_pli: Stripe::stripe / stripe_into statement lists and %d forwarding facts matched%s"
                 % (len(facts), " (regenerated)" if changed else ""))
    return dict(ok=True, notes=notes, errors=errors)


if __name__ == "__main__":
    r = translate(write="--dry" not in sys.argv)
    print(r)
    sys.exit(0 if r["ok"] else 1)
