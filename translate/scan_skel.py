"""Translator for the `scan` group (properties C02, C03).

Re-reads /repo/lightmotif/src/scan.rs (working tree; VERIF_REPO override) and writes
coq/scan/GenScan.v (only when changed):

  * `gen_shape : ScanShape.shape`   the statement skeleton of `Iterator::next` and of the
        `Iterator::max` override of `Scanner`: the comparison operator of every test, the
        block end expression (`(self.row + self.block_size).min(sequence_rows)` or without
        `.min`), the terms of the candidate index (`c.col * sequence_rows + self.row + c.row`
        read as a sum of terms in any order), what happens to a padding candidate
        (`continue` / `break`), how hits leave the buffer (`pop()` / `remove(0)`), what
        `best_discrete` starts from and what it becomes when the best hit is replaced;
  * `gen_default_block_size`, `gen_default_threshold_bits`, `gen_init_row`
        the field initialisers of `Scanner::new`.

Everything else of the three bodies (the `let`s of `t`, `sequence_rows`, `max_index`, the
`score_rows_into` call with the range `self.row..end`, the `max` / `threshold` calls, the
`score_position` call, `Hit::new(index, score)`, `self.row += self.block_size` as the last
statement of the loop, the buffered-hit reduction of max()) is matched against a fixed
template; local variable names (`t`, `end`, `index`, `score`, `c`, `m`, `hit`, ...) are
free, white space, comments, redundant parentheses around a comparison and mirrored
comparisons (`t <= m` for `m >= t`) are tolerated.  A body that does not match the
template is reported as "cannot parse" (ok=False: a broken obligation), never guessed.

The parameterised scanner of ScanShape.v instantiated with `gen_shape` is what
C02Source.v / C03Source.v state the property theorems about, and what the driver replays
next to the hand-written model.
"""
import os
import re
import struct

REPO = os.environ.get("VERIF_REPO", "/repo").rstrip("/") or "/repo"   # same override as vlib/common.py
VERIF = os.path.dirname(os.path.dirname(os.path.abspath(__file__)))
SRC_REL = os.path.join("lightmotif", "src", "scan.rs")
OUT = os.path.join(VERIF, "coq", "scan", "GenScan.v")


class ParseError(Exception):
    pass


def strip_comments(src):
    src = re.sub(r"/\*.*?\*/", "", src, flags=re.S)
    return re.sub(r"//[^\n]*", "", src)


def block_at(src, start):
    """Text inside the brace block opening at the first '{' at or after `start`."""
    i = src.find("{", start)
    if i < 0:
        raise ParseError("no block after offset %d" % start)
    depth = 0
    for j in range(i, len(src)):
        if src[j] == "{":
            depth += 1
        elif src[j] == "}":
            depth -= 1
            if depth == 0:
                return src[i + 1:j]
    raise ParseError("unbalanced braces")


def squash(body):
    """Remove white space, keeping one blank between two identifier characters."""
    body = re.sub(r"\s+", " ", body.strip())
    body = re.sub(r"(?<![A-Za-z0-9_]) | (?![A-Za-z0-9_])", "", body)
    return body


ID = r"[A-Za-z_][A-Za-z0-9_]*"
OPS = {">=": "CGe", ">": "CGt", "<=": "CLe", "<": "CLt", "==": "CEq", "!=": "CNe"}
MIRROR = {"CGe": "CLe", "CGt": "CLt", "CLe": "CGe", "CLt": "CGt", "CEq": "CEq", "CNe": "CNe"}
CMP_RE = r"(?:>=|<=|==|!=|>|<)"


def unparen(e):
    """Strip redundant outer parentheses."""
    e = e.strip()
    while e.startswith("(") and e.endswith(")"):
        depth = 0
        ok = True
        for k, ch in enumerate(e):
            if ch == "(":
                depth += 1
            elif ch == ")":
                depth -= 1
                if depth == 0 and k != len(e) - 1:
                    ok = False
                    break
        if not ok:
            break
        e = e[1:-1].strip()
    return e


def comparison(text, left, right, what):
    """`text` is `<a> OP <b>` with {a, b} = {left, right}; returns the operator in the
    canonical operand order (left OP right)."""
    text = unparen(text)
    m = re.fullmatch(r"(.+?)(%s)(.+)" % CMP_RE, text)
    if not m:
        raise ParseError("%s: cannot parse the comparison `%s`" % (what, text))
    a, op, b = unparen(m.group(1)), OPS[m.group(2)], unparen(m.group(3))
    if a == left and b == right:
        return op
    if a == right and b == left:
        return MIRROR[op]
    raise ParseError("%s: expected a comparison of `%s` and `%s`, found `%s`" % (what, left, right, text))


def split_top(text, sep):
    """Split at the top-level occurrences of the (one- or two-character) separator."""
    out, depth, cur, k = [], 0, "", 0
    while k < len(text):
        ch = text[k]
        if ch in "([{":
            depth += 1
        elif ch in ")]}":
            depth -= 1
        if depth == 0 and text.startswith(sep, k) and not (len(sep) == 1 and text[k:k + 2] in ("&&", "||")):
            out.append(cur)
            cur = ""
            k += len(sep)
            continue
        if depth == 0 and len(sep) == 1 and text[k:k + 2] in ("&&", "||"):
            cur += text[k:k + 2]
            k += 2
            continue
        cur += ch
        k += 1
    out.append(cur)
    return out


def index_terms(expr, cvar, rows, what):
    """`c.col * sequence_rows + self.row + c.row` as a set of terms."""
    terms = [unparen(t) for t in split_top(unparen(expr), "+")]
    seen = {"col_rows": False, "block_row": False, "r": False}
    for t in terms:
        if t in ("%s.col*%s" % (cvar, rows), "%s*%s.col" % (rows, cvar)):
            k = "col_rows"
        elif t == "self.row":
            k = "block_row"
        elif t == "%s.row" % cvar:
            k = "r"
        else:
            raise ParseError("%s: cannot parse the term `%s` of the candidate index" % (what, t))
        if seen[k]:
            raise ParseError("%s: the term `%s` occurs twice in the candidate index" % (what, t))
        seen[k] = True
    return seen


# kinds of the four additions `row + block_size` met while parsing ("plain" | "saturating"); all four must agree
ADD_KINDS = []

ROW_STEP = (r"(?:(?P<%s>self\.row\+=self\.block_size;)"
            r"|self\.row=self\.row\.saturating_add\(self\.block_size\);)")


def end_expr(expr, rows, what):
    e = unparen(expr)
    sat = r"self\.row\.saturating_add\(self\.block_size\)"
    if re.search(sat, e):
        ADD_KINDS.append("saturating")
        e = re.sub(sat, "(self.row+self.block_size)", e)
        e = unparen(e.replace("((self.row+self.block_size))", "(self.row+self.block_size)"))
    else:
        ADD_KINDS.append("plain")
    plus = r"(?:self\.row\+self\.block_size|self\.block_size\+self\.row)"
    if re.fullmatch(r"\(%s\)\.min\(%s\)" % (plus, re.escape(rows)), e) or \
       re.fullmatch(r"%s\.min\(\(?%s\)?\)" % (re.escape(rows), plus), e) or \
       re.fullmatch(r"(?:std::cmp::|cmp::)?min\(%s,%s\)" % (plus, re.escape(rows)), e) or \
       re.fullmatch(r"(?:std::cmp::|cmp::)?min\(%s,%s\)" % (re.escape(rows), plus), e):
        return "EndMin"
    if re.fullmatch(plus, e):
        return "EndNoMin"
    raise ParseError("%s: cannot parse the block end `%s`" % (what, e))


ROWS_RHS = r"seq\.matrix\(\)\.rows\(\)\.saturating_sub\(seq\.wrap\(\)\)"
MAXIDX_RHS = r"\(seq\.len\(\)\+1\)\.saturating_sub\(self\.pssm\.as_ref\(\)\.len\(\)\)"
SEQARG = r"(?:&self\.seq|seq)"


def two_lets(text, what):
    """the two cached bounds, in either order; returns (rows_var, maxidx_var)"""
    a = re.fullmatch(r"let (%s)=%s;let (%s)=%s;" % (ID, ROWS_RHS, ID, MAXIDX_RHS), text)
    if a:
        return a.group(1), a.group(2)
    b = re.fullmatch(r"let (%s)=%s;let (%s)=%s;" % (ID, MAXIDX_RHS, ID, ROWS_RHS), text)
    if b:
        return b.group(2), b.group(1)
    raise ParseError("%s: cannot parse the definitions of sequence_rows / max_index in `%s`" % (what, text[:160]))


def parse_next(body):
    b = squash(body)
    what = "next()"
    m = re.fullmatch((
        r"let seq=self\.seq\.as_ref\(\);"
        r"let (?P<t>%(ID)s)=self\.dm\.scale\(self\.threshold\);"
        r"(?P<lets>let .*?;let .*?;)"
        r"while ?(?P<cond>[^{]+)\{"
        r"let (?P<end>%(ID)s)=(?P<endexpr>[^;]+);"
        r"self\.pipeline\.score_rows_into\(&self\.dm,(?:&self\.seq|seq),self\.row\.\.(?P=end),&mut self\.dscores\);"
        r"if self\.pipeline\.max\(&self\.dscores\)\.map_or\(false,\|(?P<m>%(ID)s)\|(?P<gate>[^{]+)\)\{"
        r"for (?P<c>%(ID)s) in self\.pipeline\.threshold\(&self\.dscores,(?P=t)\)\{"
        r"let (?P<index>%(ID)s)=(?P<idx>[^;]+);"
        r"if ?(?P<pad>[^{]+)\{(?P<padact>continue|break);\}"
        r"let (?P<score>%(ID)s)=self\.pssm\.as_ref\(\)\.score_position\(%(SEQARG)s,(?P=index)\);"
        r"if ?(?P<thr>[^{]+)\{self\.hits\.push\(Hit::new\((?P=index),(?P=score)\)\);\}"
        r"\}\}"
        + ROW_STEP % "nstep" +
        r"\}"
        r"self\.hits\.(?P<pop>pop\(\)|remove\(0\))") % dict(ID=ID, SEQARG=SEQARG), b)
    if not m:
        raise ParseError("next(): cannot parse the body (statement skeleton changed): `%s...`" % b[:120])
    g = m.groupdict()
    ADD_KINDS.append("plain" if g["nstep"] else "saturating")
    rows, maxidx = two_lets(g["lets"], what)
    conj = [unparen(x) for x in split_top(unparen(g["cond"]), "&&")]
    hits_empty = False
    loop_cmp = None
    for cj in conj:
        if cj == "self.hits.is_empty()":
            if hits_empty:
                raise ParseError("next(): duplicate conjunct in the loop condition")
            hits_empty = True
        else:
            if loop_cmp is not None:
                raise ParseError("next(): cannot parse the loop condition `%s`" % g["cond"])
            loop_cmp = comparison(cj, "self.row", rows, "next() loop condition")
    if loop_cmp is None:
        raise ParseError("next(): the loop condition does not test self.row")
    sh = {}
    sh["n_loop_hits_empty"] = hits_empty
    sh["n_loop_cmp"] = loop_cmp
    sh["n_end"] = end_expr(g["endexpr"], rows, what)
    sh["n_gate_cmp"] = comparison(g["gate"], g["m"], g["t"], "next() block gate")
    sh["n_idx"] = index_terms(g["idx"], g["c"], rows, what)
    sh["n_pad_cmp"] = comparison(g["pad"], g["index"], maxidx, "next() padding test")
    sh["n_pad_action"] = "PadContinue" if g["padact"] == "continue" else "PadBreak"
    sh["n_thr_cmp"] = comparison(g["thr"], g["score"], "self.threshold", "next() threshold test")
    sh["n_order"] = "Lifo" if g["pop"].startswith("pop") else "Fifo"
    return sh


def parse_max(body):
    b = squash(body)
    what = "max()"
    m = re.fullmatch((
        r"let seq=self\.seq\.as_ref\(\);"
        r"let mut (?P<best>%(ID)s)=std::mem::take\(&mut self\.hits\)\.into_iter\(\)"
        r"\.filter\(\|(?P<fh>%(ID)s)\|(?P<filter>[^)]+)\)"
        r"\.max_by\(\|(?P<x>%(ID)s),(?P<y>%(ID)s)\|(?P=x)\.score\.partial_cmp\(&(?P=y)\.score\)\.unwrap\(\)\);"
        r"let mut (?P<bd>%(ID)s)=match&(?P=best)\{"
        r"Some\((?P<ih>%(ID)s)\)=>self\.dm\.scale\((?P<init>[^)]+)\),"
        r"None=>self\.dm\.scale\(self\.threshold\),?\};"
        r"(?P<lets>let .*?;let .*?;)"
        r"while ?(?P<cond>[^{]+)\{"
        r"let (?P<end>%(ID)s)=(?P<endexpr>[^;]+);"
        r"self\.pipeline\.score_rows_into\(&self\.dm,(?:&self\.seq|seq),self\.row\.\.(?P=end),&mut self\.dscores\);"
        r"if self\.pipeline\.max\(&self\.dscores\)\.map_or\(false,\|(?P<m>%(ID)s)\|(?P<gate>[^{]+)\)\{"
        r"for (?P<c>%(ID)s) in self\.pipeline\.threshold\(&self\.dscores,(?P=bd)\)\{"
        r"let (?P<dscore>%(ID)s)=self\.dscores\.matrix\(\)\[(?P=c)\];"
        r"let (?P<index>%(ID)s)=(?P<idx>[^;]+);"
        r"if ?(?P<guard>[^{]+)\{"
        r"let (?P<score>%(ID)s)=self\.pssm\.as_ref\(\)\.score_position\(%(SEQARG)s,(?P=index)\);"
        r"if let Some\((?P<hit>%(ID)s)\)=&(?P=best)\{"
        r"if ?(?P<better>[^{]+)\{"
        r"(?P=best)=Some\(Hit::new\((?P=index),(?P=score)\)\);"
        r"(?P<bound>(?:(?P=bd)=[^;]+;)?)"
        r"\}"
        r"\}else if ?(?P<first>[^{]+)\{"
        r"(?P=best)=Some\(Hit::new\((?P=index),(?P=score)\)\);"
        r"\}"
        r"\}\}\}"
        + ROW_STEP % "mstep" +
        r"\}"
        r"(?P=best)") % dict(ID=ID, SEQARG=SEQARG), b)
    if not m:
        raise ParseError("max(): cannot parse the body (statement skeleton changed): `%s...`" % b[:120])
    g = m.groupdict()
    ADD_KINDS.append("plain" if g["mstep"] else "saturating")
    rows, maxidx = two_lets(g["lets"], what)
    sh = {}
    sh["m_filter_cmp"] = comparison(g["filter"], g["fh"] + ".score", "self.threshold", "max() filter of the buffered hits")
    init = unparen(g["init"])
    if init == g["ih"] + ".score":
        sh["m_init"] = "InitScaleHitScore"
    elif init == "self.threshold":
        sh["m_init"] = "InitScaleThreshold"
    else:
        raise ParseError("max(): cannot parse the initial bound `scale(%s)`" % init)
    sh["m_loop_cmp"] = comparison(g["cond"], "self.row", rows, "max() loop condition")
    sh["m_end"] = end_expr(g["endexpr"], rows, what)
    sh["m_gate_cmp"] = comparison(g["gate"], g["m"], g["bd"], "max() block gate")
    sh["m_idx"] = index_terms(g["idx"], g["c"], rows, what)
    conj = [unparen(x) for x in split_top(unparen(g["guard"]), "&&")]
    if len(conj) != 2:
        raise ParseError("max(): cannot parse the candidate guard `%s`" % g["guard"])
    dcmp = icmp = None
    for cj in conj:
        try:
            d = comparison(cj, g["dscore"], g["bd"], "max() candidate guard")
            if dcmp is not None:
                raise ParseError("max(): candidate guard tests the byte score twice")
            dcmp = d
            continue
        except ParseError:
            pass
        i = comparison(cj, g["index"], maxidx, "max() candidate guard")
        if icmp is not None:
            raise ParseError("max(): candidate guard tests the index twice")
        icmp = i
    if dcmp is None or icmp is None:
        raise ParseError("max(): cannot parse the candidate guard `%s`" % g["guard"])
    sh["m_dscore_cmp"], sh["m_index_cmp"] = dcmp, icmp
    # (score > hit.score) | (score == hit.score && index > hit.position)
    better = unparen(g["better"])
    disj = split_top(better, "||")
    if len(disj) == 1:
        disj = split_top(better, "|")
    if len(disj) != 2:
        raise ParseError("max(): cannot parse the replacement test `%s`" % better)
    hs, hp = g["hit"] + ".score", g["hit"] + ".position"
    d0, d1 = unparen(disj[0]), unparen(disj[1])
    if "&&" in d0 and "&&" not in d1:
        d0, d1 = d1, d0
    sh["m_better_cmp"] = comparison(d0, g["score"], hs, "max() replacement test")
    tie = [unparen(x) for x in split_top(d1, "&&")]
    if len(tie) != 2:
        raise ParseError("max(): cannot parse the tie clause `%s`" % d1)
    tcmp = pcmp = None
    for cj in tie:
        try:
            t = comparison(cj, g["score"], hs, "max() tie clause")
            if tcmp is not None:
                raise ParseError("dup")
            tcmp = t
            continue
        except ParseError:
            pass
        pcmp = comparison(cj, g["index"], hp, "max() tie clause")
    if tcmp is None or pcmp is None:
        raise ParseError("max(): cannot parse the tie clause `%s`" % d1)
    sh["m_tie_cmp"], sh["m_tie_pos_cmp"] = tcmp, pcmp
    bound = g["bound"]
    if bound == "":
        sh["m_bound"] = "BoundKeep"
    else:
        rhs = unparen(bound[len(g["bd"]) + 1:-1])
        if rhs == "self.dm.scale(%s)" % g["score"]:
            sh["m_bound"] = "BoundScaleScore"
        elif rhs == g["dscore"]:
            sh["m_bound"] = "BoundDscore"
        else:
            raise ParseError("max(): cannot parse the new bound `%s`" % rhs)
    sh["m_first_cmp"] = comparison(g["first"], g["score"], "self.threshold", "max() first-hit test")
    return sh


def f32_bits(lit):
    lit = lit.replace("_", "")
    lit = re.sub(r"(?:f32)$", "", lit)
    try:
        v = float(lit)
    except ValueError:
        raise ParseError("new(): cannot parse the float literal `%s`" % lit)
    return struct.unpack("<I", struct.pack("<f", v))[0]


def parse_new(body):
    b = squash(body)
    m = re.fullmatch(r"Self\{(.*)\}", b)
    if not m:
        raise ParseError("new(): cannot parse the body `%s...`" % b[:80])
    fields = {}
    for item in split_top(m.group(1), ","):
        if not item:
            continue
        if ":" in item:
            k, v = item.split(":", 1)
            fields[k] = v
        else:
            fields[item] = item
    for k in ("threshold", "block_size", "row", "hits", "dm"):
        if k not in fields:
            raise ParseError("new(): no initialiser for the field `%s`" % k)
    if fields["hits"] not in ("Vec::new()", "vec![]", "Vec::with_capacity(0)", "Default::default()"):
        raise ParseError("new(): cannot parse the initial hit buffer `%s`" % fields["hits"])
    if fields["dm"] != "pssm.as_ref().to_discrete()":
        raise ParseError("new(): cannot parse the discrete matrix initialiser `%s`" % fields["dm"])
    try:
        bs = int(re.sub(r"(?:usize)$", "", fields["block_size"].replace("_", "")))
        row = int(re.sub(r"(?:usize)$", "", fields["row"].replace("_", "")))
    except ValueError:
        raise ParseError("new(): block_size / row are not integer literals")
    return dict(block_size=bs, row=row, thr_bits=f32_bits(fields["threshold"]))


def read_all(src):
    src = strip_comments(src)
    it = re.search(r"impl\b[^{;]*?\bIterator\s+for\s+Scanner\b", src)
    if not it:
        raise ParseError("impl Iterator for Scanner not found")
    impl = block_at(src, it.end())
    nx = re.search(r"\bfn\s+next\s*\(\s*&\s*mut\s+self\s*\)\s*->\s*Option\s*<\s*Self::Item\s*>\s*", impl)
    mx = re.search(r"\bfn\s+max\s*\(\s*mut\s+self\s*\)\s*->\s*Option\s*<\s*Self::Item\s*>\s*", impl)
    if not nx or not mx:
        raise ParseError("fn next(&mut self) / fn max(mut self) not found in impl Iterator for Scanner")
    shape = {}
    del ADD_KINDS[:]
    shape.update(parse_next(block_at(impl, nx.end())))
    shape.update(parse_max(block_at(impl, mx.end())))
    if len(ADD_KINDS) != 4 or len(set(ADD_KINDS)) != 1:
        raise ParseError("the four additions `row + block_size` of next() / max() are not all of the same kind "
                         "(plain `+` or `saturating_add`): %s" % ",".join(ADD_KINDS))
    nw = re.search(r"\bpub\s+fn\s+new\s*\(\s*pssm\s*:\s*M\s*,\s*seq\s*:\s*S\s*\)\s*->\s*Self\s*", src)
    if not nw:
        raise ParseError("pub fn new(pssm: M, seq: S) -> Self not found")
    consts = parse_new(block_at(src, nw.end()))
    consts["row_add_saturating"] = (ADD_KINDS[0] == "saturating")
    return shape, consts


FIELDS = ["n_loop_hits_empty", "n_loop_cmp", "n_end", "n_gate_cmp", "n_idx", "n_pad_cmp", "n_pad_action",
          "n_thr_cmp", "n_order", "m_filter_cmp", "m_loop_cmp", "m_end", "m_gate_cmp", "m_init", "m_idx",
          "m_dscore_cmp", "m_index_cmp", "m_better_cmp", "m_tie_cmp", "m_tie_pos_cmp", "m_bound", "m_first_cmp"]


def render(shape, consts):
    def val(v):
        if isinstance(v, bool):
            return "true" if v else "false"
        if isinstance(v, dict):
            return "{| ix_col_rows := %s; ix_block_row := %s; ix_r := %s |}" % (
                val(v["col_rows"]), val(v["block_row"]), val(v["r"]))
        return v
    lines = [
        "(* GENERATED by translate/scan_skel.py from lightmotif/src/scan.rs -- do not edit. *)",
        "From Coq Require Import ZArith.",
        "From LMScan Require Import ScanShape.",
        "",
        "Definition gen_shape : shape := {|",
    ]
    lines += ["  %s := %s;" % (k, val(shape[k])) for k in FIELDS[:-1]]
    lines += ["  %s := %s |}." % (FIELDS[-1], val(shape[FIELDS[-1]])), ""]
    lines += [
        "(* Scanner::new: block_size, row, threshold (binary32 bit pattern) *)",
        "Definition gen_default_block_size : nat := %d." % consts["block_size"],
        "Definition gen_init_row : nat := %d." % consts["row"],
        "Definition gen_default_threshold_bits : Z := %d%%Z." % consts["thr_bits"],
        "",
        "(* the four additions `row + block_size` of next() / max(): plain `+` (overflow: panic or wrap, by build",
        "   profile) or `saturating_add` (the repair proposed for finding F-scan-ovf); ScanWord.v models both *)",
        "Definition gen_row_add_saturating : bool := %s." % ("true" if consts.get("row_add_saturating") else "false"),
        "",
    ]
    return "\n".join(lines)


def translate():
    errors, notes = [], []
    try:
        src = open(os.path.join(REPO, SRC_REL)).read()
        shape, consts = read_all(src)
        if consts["block_size"] > 100000:
            raise ParseError("new(): default block size %d is too large for a unary constant" % consts["block_size"])
        text = render(shape, consts)
        old = open(OUT).read() if os.path.exists(OUT) else None
        if old != text:
            with open(OUT, "w") as f:
                f.write(text)
            notes.append("[scan] GenScan.v regenerated from %s" % SRC_REL)
    except (ParseError, OSError, ValueError, KeyError, IndexError, re.error) as e:
        errors.append("scan_skel: %s" % (e,))
    return dict(ok=not errors, errors=errors, notes=notes)


if __name__ == "__main__":
    import json
    print(json.dumps(translate(), indent=1))
    if os.path.exists(OUT):
        print(open(OUT).read())
