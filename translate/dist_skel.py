"""Translator for the `dist` group (property C11).

Re-reads /repo/lightmotif/src/pwm/dist.rs (working tree; VERIF_REPO override) and writes
coq/dist/GenDist.v (only when changed):

  * `gen_cdf_range`          the value of `const CDF_RANGE: usize`  (DistModel.cdf_range := gen_cdf_range);
  * `gen_from_body`          the statement skeleton of `From<ScoringMatrix> for ScoreDistribution::from`
                             (comments and all white space removed, split after every `;`, `{`, `}`);
  * `gen_methods`            the same for scale / unscale / pvalue / score / min_pvalue / sample;
  * structured readings used by C11_source_parameters: the rounding function of the cell discretisation,
    the bounds of the inner k loop, the definition of `max`, the skip marker, the number of `.min(1.0)`
    clip sites, the fill bound, the accumulation statement, the scale fall-back test.

The hand-written model (DistModel.v) was written against the skeleton pinned in DistSkel.v; the theorem
C11_source_skeleton (`gen_* = model_*`, by computation) breaks whenever a loop bound, an accumulation or a
clip site of the source is edited.  Nothing is guessed: a source that cannot be read makes translate()
return ok=False (reported by the runner as a broken obligation).
"""
import os
import re

REPO = os.environ.get("VERIF_REPO", "/repo").rstrip("/") or "/repo"   # same override as vlib/common.py
VERIF = os.path.dirname(os.path.dirname(os.path.abspath(__file__)))
SRC_REL = os.path.join("lightmotif", "src", "pwm", "dist.rs")
OUT = os.path.join(VERIF, "coq", "dist", "GenDist.v")


class ParseError(Exception):
    pass


def strip_comments(src):
    src = re.sub(r"/\*.*?\*/", "", src, flags=re.S)
    return re.sub(r"//[^\n]*", "", src)


def block_at(src, start):
    """Text inside the brace block opening at the first '{' at or after `start`."""
    i = src.index("{", start)
    depth = 0
    for j in range(i, len(src)):
        if src[j] == "{":
            depth += 1
        elif src[j] == "}":
            depth -= 1
            if depth == 0:
                return src[i + 1:j]
    raise ParseError("unbalanced braces")


def fn_body(src, pattern, what):
    m = re.search(pattern, src)
    if not m:
        raise ParseError("%s not found" % what)
    return block_at(src, m.end() - 1 if src[m.end() - 1] == "{" else m.end())


def skeleton(body):
    """white space removed; split after every ';', '{', '}'"""
    t = re.sub(r"\s+", "", body)
    out, cur = [], ""
    for ch in t:
        cur += ch
        if ch in ";{}":
            out.append(cur)
            cur = ""
    if cur:
        out.append(cur)
    return out


def coq_string(s):
    return '"' + s.replace('"', '""') + '"'


def coq_list(items, indent="  "):
    if not items:
        return "[]"
    return "[\n" + ";\n".join(indent + "  " + coq_string(x) for x in items) + "\n" + indent + "]"


def read_all(src):
    src = strip_comments(src)
    m = re.search(r"\bconst\s+CDF_RANGE\s*:\s*usize\s*=\s*([0-9_]+)\s*;", src)
    if not m:
        raise ParseError("const CDF_RANGE: usize = <literal> not found")
    cdf = int(m.group(1).replace("_", ""))
    imp = re.search(r"impl\b[^{;]*?\bFrom\s*<\s*S\s*>\s*for\s+ScoreDistribution\s*<\s*A\s*>", src)
    if not imp:
        raise ParseError("impl From<S> for ScoreDistribution<A> not found")
    impl_body = block_at(src, imp.end())
    from_body = fn_body(impl_body, r"\bfn\s+from\s*\(\s*pssm\s*:\s*S\s*\)\s*->\s*Self\s*\{", "fn from(pssm: S) -> Self")
    sk = skeleton(from_body)
    flat = "".join(sk)

    def one(pattern, what):
        found = re.findall(pattern, flat)
        if len(found) != 1:
            raise ParseError("%s: expected exactly one match, found %d" % (what, len(found)))
        return found[0]

    params = {}
    params["round_fn"] = one(r"dst_row\[i\]=([A-Za-z0-9_:]+)\(\(src_row\[i\]asf64-offsetasf64\)\*scale\)asi32;", "cell discretisation")
    lo, op, hi = one(r"forkin([A-Za-z0-9_]+)(\.\.=?)([A-Za-z0-9_+\-*().]+)\{", "inner k loop")
    params["kloop_lo"], params["kloop_inclusive"], params["kloop_hi"] = lo, (op == "..="), hi
    params["max_def"] = one(r"letmax=([^;]+);", "definition of max")
    params["skip_marker"] = one(r"ifs!=([A-Za-z0-9_:]+)\{", "skip marker")
    params["fill"] = one(r"(pdf_new\[[^\]]*\]\.fill\([^)]*\));", "fill of the new buffer")
    params["accumulate"] = one(r"(pdf_new\[[^\]]*\]\+=[^;]+);", "accumulation statement")
    params["nonzero_test"] = one(r"letold=pdf_old\[k\];if(old[^{]+)\{", "zero test of the old entry")
    params["scale_fallback"] = one(r"if(scale==[^{]+)\{scale=", "scale fall-back")
    params["clip_sites"] = len(re.findall(r"\.min\(1\.0\)", flat))
    params["sf_loop"] = one(r"foriin(\(0\.\.=?sf\.len\(\)-[0-9]+\)\.rev\(\))\{", "survival loop")
    params["sf_sum"] = one(r"letp=([^;]+);", "survival accumulation")

    # the methods of `impl<A: Alphabet> ScoreDistribution<A>` and the sampling impl
    methods = []
    for name, pat in (
        ("scale", r"\bpub\s+fn\s+scale\s*\(\s*&self\s*,\s*score\s*:\s*f32\s*\)\s*->\s*i32\s*\{"),
        ("unscale", r"\bpub\s+fn\s+unscale\s*\(\s*&self\s*,\s*score\s*:\s*i32\s*\)\s*->\s*f32\s*\{"),
        ("pvalue", r"\bpub\s+fn\s+pvalue\s*\(\s*&self\s*,\s*score\s*:\s*f32\s*\)\s*->\s*f64\s*\{"),
        ("score", r"\bpub\s+fn\s+score\s*\(\s*&self\s*,\s*pvalue\s*:\s*f64\s*\)\s*->\s*f32\s*\{"),
        ("min_pvalue", r"\bpub\s+fn\s+min_pvalue\s*\(\s*&self\s*\)\s*->\s*f64\s*\{"),
        ("sample", r"\bfn\s+sample\s*<[^>]*>\s*\(\s*&self\s*,\s*rng\s*:\s*&mut\s+R\s*\)\s*->\s*f32\s*\{"),
    ):
        body = fn_body(src, pat, "fn " + name)
        methods.append(name + ":" + "".join(skeleton(body)))
    return cdf, sk, methods, params


def render(cdf, sk, methods, params):
    b = lambda x: "true" if x else "false"
    lines = [
        "(* GENERATED by translate/dist_skel.py from lightmotif/src/pwm/dist.rs -- do not edit. *)",
        "From Coq Require Import List String.",
        "Import ListNotations.",
        "Local Open Scope string_scope.",
        "",
        "Definition gen_cdf_range : nat := %d." % cdf,
        "",
        "Definition gen_round_fn : string := %s." % coq_string(params["round_fn"]),
        "Definition gen_kloop_lo : string := %s." % coq_string(params["kloop_lo"]),
        "Definition gen_kloop_hi : string := %s." % coq_string(params["kloop_hi"]),
        "Definition gen_kloop_inclusive : bool := %s." % b(params["kloop_inclusive"]),
        "Definition gen_max_def : string := %s." % coq_string(params["max_def"]),
        "Definition gen_skip_marker : string := %s." % coq_string(params["skip_marker"]),
        "Definition gen_fill : string := %s." % coq_string(params["fill"]),
        "Definition gen_accumulate : string := %s." % coq_string(params["accumulate"]),
        "Definition gen_nonzero_test : string := %s." % coq_string(params["nonzero_test"]),
        "Definition gen_scale_fallback : string := %s." % coq_string(params["scale_fallback"]),
        "Definition gen_clip_sites : nat := %d." % params["clip_sites"],
        "Definition gen_sf_loop : string := %s." % coq_string(params["sf_loop"]),
        "Definition gen_sf_sum : string := %s." % coq_string(params["sf_sum"]),
        "",
        "Definition gen_from_body : list string := %s." % coq_list(sk),
        "",
        "Definition gen_methods : list string := %s." % coq_list(methods),
        "",
    ]
    return "\n".join(lines)


def translate():
    errors, notes = [], []
    try:
        src = open(os.path.join(REPO, SRC_REL)).read()
        cdf, sk, methods, params = read_all(src)
        text = render(cdf, sk, methods, params)
        old = open(OUT).read() if os.path.exists(OUT) else None
        if old != text:
            with open(OUT, "w") as f:
                f.write(text)
            notes.append("[dist] GenDist.v regenerated from %s" % SRC_REL)
    except (ParseError, OSError, ValueError) as e:
        errors.append("dist_skel: %s" % (e,))
    return dict(ok=not errors, errors=errors, notes=notes)


if __name__ == "__main__":
    import json
    print(json.dumps(translate(), indent=1))
