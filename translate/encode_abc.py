"""Translator for property C05 (group `encode`).

Re-extracts, from /repo's working tree on every run,

  lightmotif/src/abc.rs
    * for the alphabets Dna and Protein: `type Symbol`, `type K` (typenum Un),
      the variant order of `symbols()`, the string of `as_str()`;
    * for their symbol enums (Nucleotide, AminoAcid): the declared variants with
      their discriminants (explicit `= n` or implicit previous+1), the `#[default]`
      variant, the arms of `as_ascii` (variant => byte) and of `from_ascii`
      (byte => Ok(variant), in source order, and the shape of the catch-all arm);
    * textual checks: `as_index` is `*self as usize`; the impls define exactly
      as_index/as_ascii/from_ascii (no override of the trait defaults); the trait
      defaults of `as_char` / `from_char` have the modelled bodies.
  lightmotif/src/pli/dispatch.rs
    * the arm table of `impl Encode<A> for Pipeline<A, Dispatch>` (arms that
      compile on x86_64 only): Dispatch arm -> kernel, and the default arm.
  lightmotif/src/pli/platform/{avx2,sse2}.rs
    * the block-loop condition (`i + STRIDE <= l` or `<`), the initial value of
      `encoded` (`A::K::USIZE` or `A::K::USIZE - 1`) of encode_into_{avx2,sse2}.

and writes coq/encode/GenAbc.v (only if changed).  Variants are identified by
their discriminant (= what `as_index` returns), bytes are Coq `Byte.byte`
constructors (x00 .. xff).  Nothing here is trusted for the *property*: the
theorems of coq/encode are re-checked over whatever tables are generated; what is
trusted is that this parser reads the Rust source the way rustc does.

A source that can no longer be parsed gives dict(ok=False, errors=[...]) (reported
by the runner as a broken obligation) and leaves the previous GenAbc.v in place.
"""
import os
import re

REPO = os.environ.get("VERIF_REPO", "/repo").rstrip("/") or "/repo"   # same override as vlib/common.py
VERIF = os.path.dirname(os.path.dirname(os.path.abspath(__file__)))
OUT = os.path.join(VERIF, "coq", "encode", "GenAbc.v")

ALPHABETS = [("dna", "Dna"), ("protein", "Protein")]


class ParseError(Exception):
    pass


# ------------------------------------------------------------------ lexical helpers

def strip_comments(src):
    """Remove // and /* */ comments, respecting string, char and byte literals."""
    out = []
    i, n = 0, len(src)
    while i < n:
        c = src[i]
        if src.startswith("//", i):
            j = src.find("\n", i)
            i = n if j < 0 else j
        elif src.startswith("/*", i):
            depth, i = 1, i + 2
            while i < n and depth:
                if src.startswith("/*", i):
                    depth, i = depth + 1, i + 2
                elif src.startswith("*/", i):
                    depth, i = depth - 1, i + 2
                else:
                    i += 1
        elif c == '"':
            j = i + 1
            while j < n and src[j] != '"':
                j += 2 if src[j] == "\\" else 1
            out.append(src[i:j + 1])
            i = j + 1
        elif c == "'":
            # char / byte literal ('x', '\n', '\x41', '\'') or a lifetime ('a, 'static)
            m = re.match(r"'(\\x[0-9a-fA-F]{2}|\\u\{[0-9a-fA-F]+\}|\\.|[^\\'])'", src[i:])
            if m:
                out.append(m.group(0))
                i += len(m.group(0))
            else:
                out.append(c)
                i += 1
        else:
            out.append(c)
            i += 1
    return "".join(out)


def block_after(src, pos):
    """src[pos] must be '{'; returns (body, end) with body = text inside the braces."""
    if src[pos] != "{":
        raise ParseError("expected '{' at offset %d" % pos)
    depth = 0
    i, n = pos, len(src)
    while i < n:
        c = src[i]
        if c == '"':
            j = i + 1
            while j < n and src[j] != '"':
                j += 2 if src[j] == "\\" else 1
            i = j + 1
            continue
        if c == "'":
            m = re.match(r"'(\\x[0-9a-fA-F]{2}|\\u\{[0-9a-fA-F]+\}|\\.|[^\\'])'", src[i:])
            if m:
                i += len(m.group(0))
                continue
        if c == "{":
            depth += 1
        elif c == "}":
            depth -= 1
            if depth == 0:
                return src[pos + 1:i], i + 1
        i += 1
    raise ParseError("unbalanced braces from offset %d" % pos)


def find_block(src, header_re, what):
    m = re.search(header_re, src)
    if not m:
        raise ParseError("cannot find %s" % what)
    p = src.find("{", m.end() - 1)
    if p < 0:
        raise ParseError("no body for %s" % what)
    body, _ = block_after(src, p)
    return body


def find_fn(body, name, what):
    m = re.search(r"\bfn\s+%s\b" % re.escape(name), body)
    if not m:
        raise ParseError("cannot find fn %s in %s" % (name, what))
    # a declaration without body (trait method) ends with ';' before any '{'
    semi = body.find(";", m.end())
    brace = body.find("{", m.end())
    if brace < 0 or (0 <= semi < brace):
        return None
    b, _ = block_after(body, brace)
    return b


def fn_names(body):
    """Names of the fns defined at the top level of an impl/trait body."""
    names = []
    depth = 0
    i = 0
    while i < len(body):
        c = body[i]
        if c == "{":
            depth += 1
        elif c == "}":
            depth -= 1
        elif depth == 0:
            m = re.match(r"fn\s+(\w+)", body[i:])
            if m and (i == 0 or not (body[i - 1].isalnum() or body[i - 1] == "_")):
                names.append(m.group(1))
                i += len(m.group(0))
                continue
        i += 1
    return names


def norm(s):
    return re.sub(r"\s+", "", s)


def byte_literal(tok):
    """Value of a Rust u8 pattern/expression literal: b'A', b'\\n', b'\\x41', 65, 0x41, 65u8."""
    tok = tok.strip()
    m = re.fullmatch(r"b'(.*)'", tok, re.S)
    if m:
        s = m.group(1)
        if len(s) == 1 and ord(s) < 128:
            return ord(s)
        esc = {"\\n": 10, "\\r": 13, "\\t": 9, "\\\\": 92, "\\0": 0, "\\'": 39, '\\"': 34}
        if s in esc:
            return esc[s]
        mx = re.fullmatch(r"\\x([0-9a-fA-F]{2})", s)
        if mx:
            return int(mx.group(1), 16)
        raise ParseError("unsupported byte literal %r" % tok)
    m = re.fullmatch(r"(0x[0-9a-fA-F_]+|0o[0-7_]+|0b[01_]+|[0-9][0-9_]*)(u8)?", tok)
    if m:
        v = int(m.group(1).replace("_", ""), 0)
        if not 0 <= v <= 255:
            raise ParseError("byte literal out of range %r" % tok)
        return v
    raise ParseError("unsupported byte literal %r" % tok)


def str_literal(tok):
    m = re.fullmatch(r'"((?:[^"\\]|\\.)*)"', tok.strip(), re.S)
    if not m:
        raise ParseError("unsupported string literal %r" % tok)
    s = m.group(1)
    if "\\" in s:
        raise ParseError("escape in alphabet string %r" % tok)
    return list(s.encode("utf-8"))


def split_arms(match_body):
    """Split the body of a `match` into arms `pat => expr` at top-level commas."""
    arms, depth, cur = [], 0, ""
    i = 0
    while i < len(match_body):
        c = match_body[i]
        m = re.match(r"b?'(\\x[0-9a-fA-F]{2}|\\.|[^\\'])'", match_body[i:])
        if m:
            cur += m.group(0)
            i += len(m.group(0))
            continue
        if c in "([{":
            depth += 1
        elif c in ")]}":
            depth -= 1
        if c == "," and depth == 0:
            if cur.strip():
                arms.append(cur.strip())
            cur = ""
        else:
            cur += c
        i += 1
    if cur.strip():
        arms.append(cur.strip())
    out = []
    for a in arms:
        if "=>" not in a:
            raise ParseError("match arm without '=>': %r" % a)
        p, e = a.split("=>", 1)
        out.append((p.strip(), e.strip()))
    return out


def match_of(fn_body, what):
    m = re.search(r"\bmatch\b[^{]*", fn_body)
    if not m:
        raise ParseError("no match expression in %s" % what)
    scrut = fn_body[m.start() + 5:m.end()].strip()
    b, end = block_after(fn_body, m.end())
    rest = fn_body[end:].strip()
    pre = fn_body[:m.start()].strip()
    if rest or pre:
        raise ParseError("%s is not a single match expression" % what)
    return scrut, split_arms(b)


# ------------------------------------------------------------------ abc.rs

def parse_enum(src, name):
    body = find_block(src, r"\benum\s+%s\b[^{;]*\{" % re.escape(name), "enum " + name)
    variants = []           # (name, discriminant)
    default = None
    nxt = 0
    pending_default = False
    # split on top-level commas
    for item in split_top(body):
        item = item.strip()
        if not item:
            continue
        attrs = re.findall(r"#\[([^\]]*)\]", item)
        item = re.sub(r"#\[[^\]]*\]", "", item).strip()
        m = re.fullmatch(r"(\w+)(?:\s*=\s*([0-9xXa-fA-F_]+)(?:u8|usize|isize|i8)?)?", item)
        if not m:
            raise ParseError("enum %s: unsupported variant %r (only unit variants)" % (name, item))
        if m.group(2) is not None:
            nxt = int(m.group(2).replace("_", ""), 0)
        variants.append((m.group(1), nxt))
        if any(norm(a) == "default" for a in attrs):
            if default is not None:
                raise ParseError("enum %s: two #[default] variants" % name)
            default = m.group(1)
        nxt += 1
    if not variants:
        raise ParseError("enum %s has no variants" % name)
    # repr
    mh = re.search(r"((?:#\[[^\]]*\]\s*)*)(?:pub\s+)?enum\s+%s\b" % re.escape(name), src)
    reprs = re.findall(r"#\[\s*repr\(([^)]*)\)\s*\]", mh.group(1)) if mh else []
    return variants, default, [norm(r) for r in reprs]


def split_top(s):
    parts, depth, cur = [], 0, ""
    for c in s:
        if c in "([{":
            depth += 1
        elif c in ")]}":
            depth -= 1
        if c == "," and depth == 0:
            parts.append(cur)
            cur = ""
        else:
            cur += c
    parts.append(cur)
    return parts


def parse_alphabet(src, aname):
    errors = []
    body = find_block(src, r"\bimpl\s+Alphabet\s+for\s+%s\s*\{" % re.escape(aname), "impl Alphabet for " + aname)
    m = re.search(r"\btype\s+Symbol\s*=\s*(\w+)\s*;", body)
    if not m:
        raise ParseError("%s: no `type Symbol`" % aname)
    sname = m.group(1)
    m = re.search(r"\btype\s+K\s*=\s*(?:[\w:]*::)?U(\d+)\s*;", body)
    if not m:
        raise ParseError("%s: `type K` is not a typenum Un" % aname)
    k = int(m.group(1))
    fb = find_fn(body, "symbols", aname)
    m = re.fullmatch(r"&\[(.*)\]", fb.strip(), re.S) if fb else None
    if not m:
        raise ParseError("%s::symbols() is not a literal slice" % aname)
    sym_names = []
    for it in split_top(m.group(1)):
        it = it.strip()
        if not it:
            continue
        mm = re.fullmatch(r"(?:%s|Self::Symbol)::(\w+)" % re.escape(sname), it)
        if not mm:
            raise ParseError("%s::symbols(): unsupported element %r" % (aname, it))
        sym_names.append(mm.group(1))
    fb = find_fn(body, "as_str", aname)
    if fb is None:
        raise ParseError("%s::as_str() has no body" % aname)
    astr = str_literal(fb)

    variants, default, reprs = parse_enum(src, sname)
    disc = dict(variants)
    if len(disc) != len(variants):
        raise ParseError("enum %s: duplicate variant names" % sname)

    def d(vname, where):
        if vname not in disc:
            raise ParseError("%s: unknown variant %s::%s" % (where, sname, vname))
        return disc[vname]

    ibody = find_block(src, r"\bimpl\s+Symbol\s+for\s+%s\s*\{" % re.escape(sname), "impl Symbol for " + sname)
    defined = sorted(fn_names(ibody))
    if defined != ["as_ascii", "as_index", "from_ascii"]:
        errors.append("impl Symbol for %s defines %s (model assumes exactly as_index, as_ascii, from_ascii; "
                      "as_char/from_char trait defaults)" % (sname, defined))
    ai = find_fn(ibody, "as_index", sname)
    if ai is None or norm(ai) not in ("*selfasusize", "(*self)asusize", "*selfasu8asusize"):
        errors.append("%s::as_index is not `*self as usize`: %r" % (sname, ai))
    # as_ascii
    scrut, arms = match_of(find_fn(ibody, "as_ascii", sname), sname + "::as_ascii")
    if norm(scrut) not in ("self", "*self"):
        errors.append("%s::as_ascii matches on %r" % (sname, scrut))
    as_ascii = []
    for p, e in arms:
        mm = re.fullmatch(r"(?:%s|Self)::(\w+)" % re.escape(sname), p)
        if not mm:
            raise ParseError("%s::as_ascii: unsupported pattern %r" % (sname, p))
        as_ascii.append((d(mm.group(1), "as_ascii"), byte_literal(e)))
    # from_ascii
    fa = find_fn(ibody, "from_ascii", sname)
    msig = re.search(r"\bfn\s+from_ascii\s*\(\s*(\w+)\s*:\s*u8\s*\)", ibody)
    if not msig:
        raise ParseError("%s::from_ascii: unexpected signature" % sname)
    arg = msig.group(1)
    scrut, arms = match_of(fa, sname + "::from_ascii")
    if norm(scrut) != arg:
        errors.append("%s::from_ascii matches on %r, not on its argument" % (sname, scrut))
    from_ascii = []
    catch_all = False
    for idx, (p, e) in enumerate(arms):
        if p == "_" or re.fullmatch(r"[a-z_]\w*", p):
            if idx != len(arms) - 1:
                raise ParseError("%s::from_ascii: catch-all arm is not last" % sname)
            want = "Err(InvalidSymbol(%sas" "char))" % (arg if p == "_" else p)
            if norm(e) != want:
                errors.append("%s::from_ascii: catch-all arm is %r, model assumes Err(InvalidSymbol(%s as char))"
                              % (sname, e, arg))
            catch_all = True
            continue
        if " if " in p:
            raise ParseError("%s::from_ascii: guard in pattern %r" % (sname, p))
        mm = re.fullmatch(r"Ok\(\s*(?:%s|Self)::(\w+)\s*\)" % re.escape(sname), e)
        if not mm:
            raise ParseError("%s::from_ascii: unsupported arm body %r" % (sname, e))
        for alt in p.split("|"):
            from_ascii.append((byte_literal(alt), d(mm.group(1), "from_ascii")))
    if not catch_all:
        raise ParseError("%s::from_ascii has no catch-all arm" % sname)
    if "u8" not in reprs:
        errors.append("enum %s is not #[repr(u8)] (the SIMD encoders store u8 lanes into [Symbol])" % sname)
    if default is None:
        errors.append("enum %s has no #[default] variant" % sname)
    return dict(alphabet=aname, symbol=sname, K=k, str=astr,
                symbols=[d(n, "symbols()") for n in sym_names],
                discr=[v for _, v in variants], names=[n for n, _ in variants],
                default=disc.get(default, 0), as_ascii=as_ascii, from_ascii=from_ascii), errors


def check_trait_defaults(src):
    errors = []
    body = find_block(src, r"\btrait\s+Symbol\b[^{]*\{", "trait Symbol")
    ac = find_fn(body, "as_char", "trait Symbol")
    if ac is None or norm(ac) != "self.as_ascii()aschar":
        errors.append("Symbol::as_char default is not `self.as_ascii() as char`: %r" % (ac,))
    fc = find_fn(body, "from_char", "trait Symbol")
    want = "ifc.is_ascii(){Self::from_ascii(casu8)}else{Err(InvalidSymbol(c))}"
    if fc is None or norm(fc) != want:
        errors.append("Symbol::from_char default differs from the modelled body: %r" % (fc,))
    return errors


# ------------------------------------------------------------------ dispatch.rs / kernels

def cfg_allows_x86_64(attrs):
    """attrs: list of cfg(...) contents preceding an arm.  True when the arm is compiled on x86_64."""
    for a in attrs:
        a = norm(a)
        archs = re.findall(r'target_arch="(\w+)"', a)
        if a.startswith("not("):
            if "x86_64" in archs:
                return False
        elif archs and "x86_64" not in archs:
            return False
    return True


def parse_dispatch(src):
    body = find_block(src, r"\bimpl\s*<\s*A\s*:\s*Alphabet\s*>\s*Encode\s*<\s*A\s*>\s*for\s+Pipeline\s*<\s*A\s*,\s*Dispatch\s*>\s*\{",
                      "impl Encode<A> for Pipeline<A, Dispatch>")
    names = fn_names(body)
    if names != ["encode_into"]:
        raise ParseError("Dispatch Encode impl defines %s (model: only encode_into; encode/encode_raw trait defaults)" % names)
    fb = find_fn(body, "encode_into", "Dispatch Encode impl")
    m = re.search(r"\bmatch\b\s*([^{]*)", fb)
    if not m or norm(m.group(1)) != "self.backend":
        raise ParseError("Dispatch encode_into does not match on self.backend")
    mb, end = block_after(fb, m.end())
    if fb[:m.start()].strip() or fb[end:].strip():
        raise ParseError("Dispatch encode_into is not a single match")
    table, default = [], None
    for p, e in split_arms(mb):
        attrs = re.findall(r"#\[\s*cfg\((.*?)\)\s*\]\s*(?=#|\w|_)", p, re.S)
        p2 = re.sub(r"#\[\s*cfg\(.*?\)\s*\]\s*(?=#|\w|_)", "", p, flags=re.S).strip()
        if not cfg_allows_x86_64(attrs):
            continue
        en = norm(e)
        if re.fullmatch(r"Avx2::encode_into::<A>\(seq\.as_ref\(\),dst\)", en):
            kern = "KAvx2"
        elif re.fullmatch(r"Sse2::encode_into::<A>\(seq\.as_ref\(\),dst\)", en):
            kern = "KSse2"
        elif re.fullmatch(r"<GenericasEncode<A>>::encode_into(::<&\[u8\]>)?\(&Generic,seq\.as_ref\(\),dst\)", en):
            kern = "KGeneric"
        else:
            raise ParseError("Dispatch encode_into: unsupported arm body %r" % e)
        if p2 == "_":
            default = kern
        else:
            mm = re.fullmatch(r"Dispatch::(\w+)", p2)
            if not mm or mm.group(1) not in ("Generic", "Sse2", "Avx2"):
                raise ParseError("Dispatch encode_into: unsupported arm pattern %r" % p2)
            table.append(("D" + mm.group(1), kern))
    return table, default


def parse_kernel(src, fname, stride_ty):
    body = find_block(src, r"\bfn\s+%s\b[^{]*\{" % fname, "fn " + fname)
    nb = norm(body)
    if "constSTRIDE:usize=std::mem::size_of::<%s>();" % stride_ty not in nb:
        raise ParseError("%s: STRIDE is not size_of::<%s>()" % (fname, stride_ty))
    m = re.search(r"whilei\+STRIDE(<=|<)l\{", nb)
    if not m:
        raise ParseError("%s: block loop condition not recognised" % fname)
    strict = (m.group(1) == "<")
    m = re.search(r"letmutencoded=_mm(?:256)?_set1_epi8\(\(?A::K::USIZE(-1)?\)?asi8\);", nb)
    if not m:
        raise ParseError("%s: initial value of `encoded` not recognised" % fname)
    init_minus_one = m.group(1) is not None
    if not re.search(r"letmutunknown=_mm(?:256)?_set1_epi8\(0xFF\);", nb):
        raise ParseError("%s: initial value of `unknown` not recognised" % fname)
    if "forain0..A::K::USIZE{" not in nb:
        raise ParseError("%s: letter loop not recognised" % fname)
    if "ifi<l{g.encode_into(&seq[i..],&mutdst[i..])?;}" not in nb:
        raise ParseError("%s: scalar tail not recognised" % fname)
    # Addressing discipline assumed by the list model (EncodeModel.loadu/storeu, EncodeMem.v):
    # one cursor `i` and two raw pointers that start at the slices and advance together by
    # STRIDE, one unaligned load from src_ptr and one unaligned store of `encoded` to dst_ptr
    # per iteration, nothing that depends on the address (aligned load/store, align_offset, ...).
    p = "_mm256" if stride_ty == "__m256i" else "_mm"
    w = "256" if stride_ty == "__m256i" else "128"
    for var, want in (("i", ["letmuti=0;", "i+=STRIDE;"]),
                      ("src_ptr", ["letmutsrc_ptr=seq.as_ptr();", "src_ptr=src_ptr.add(STRIDE);"]),
                      ("dst_ptr", ["letmutdst_ptr=dst.as_mut_ptr();", "dst_ptr=dst_ptr.add(STRIDE);"])):
        found = re.findall(r"(?:(?<![A-Za-z0-9_])letmut|(?<![A-Za-z0-9_])let|(?<![A-Za-z0-9_.]))%s(?:\+|-|\*)?=(?!=)[^;]*;" % var, nb)
        if sorted(found) != sorted(want):
            raise ParseError("%s: assignments to `%s` are %r, the model assumes %r" % (fname, var, found, want))
    loads = re.findall(r"_mm(?:256)?_(?:lddqu|loadu?|stream_load)_si\d+\([^;]*\)", nb)
    if loads != ["%s_loadu_si%s(src_ptras*const%s)" % (p, w, stride_ty)]:
        raise ParseError("%s: vector loads %r (model: one unaligned load of the block at src_ptr)" % (fname, loads))
    stores = re.findall(r"_mm(?:256)?_(?:storeu?|stream|maskstore|maskmoveu)_si\d+\([^;]*\)", nb)
    allowed_extra = ["_mm_storeu_si128(x.as_mut_ptr()as*mut__m128i,error)"] if stride_ty == "__m128i" else []
    want_st = ["%s_storeu_si%s(dst_ptras*mut%s,encoded)" % (p, w, stride_ty)] + allowed_extra
    if stores != want_st:
        raise ParseError("%s: vector stores %r (model: %r)" % (fname, stores, want_st))
    for bad in ("align_offset", "align_to", "is_aligned", "copy_nonoverlapping", "ptr::write", ".offset(", ".sub("):
        if bad in nb:
            raise ParseError("%s: `%s` occurs in the kernel (address-dependent code is not modelled)" % (fname, bad))
    if re.search(r"(?:ptr|as_ptr\(\)|as_mut_ptr\(\))as(?:usize|u64|isize|\*const\(\))", nb):
        raise ParseError("%s: a pointer is cast to an integer (address-dependent code is not modelled)" % fname)
    if nb.count("assert_eq!(seq.len(),dst.len());") != 1 or nb.find("assert_eq!(seq.len(),dst.len());") > nb.find("unsafe{"):
        raise ParseError("%s: assert_eq!(seq.len(), dst.len()) is not the first statement before the unsafe block" % fname)
    # Finally the whole body, modulo white space/comments and the two holes the proofs are
    # parametric in (loop bound `<`/`<=`, initial register K / K-1), must be the text that
    # EncodeModel.{simd_letters, simd_blocks, rescan, error_nonzero, encode_into_simd} transcribe.
    holes = re.sub(r"whilei\+STRIDE(<=|<)l\{", "whilei+STRIDE@CMP@l{", nb, count=1)
    holes = re.sub(r"_set1_epi8\(\(?A::K::USIZE(-1)?\)?asi8\);", "_set1_epi8(@INIT@);", holes, count=1)
    want = KERNEL_TEXT[stride_ty]
    if holes != want:
        k = next((j for j in range(min(len(holes), len(want))) if holes[j] != want[j]), min(len(holes), len(want)))
        raise ParseError("%s: body differs from the modelled text at offset %d: source %r, model %r"
                         % (fname, k, holes[max(0, k - 30):k + 50], want[max(0, k - 30):k + 50]))
    return dict(strict=strict, init_minus_one=init_minus_one)


KERNEL_TEXT = {
    "__m256i": (
        "constSTRIDE:usize=std::mem::size_of::<__m256i>();letalphabet=A::as_str().as_bytes();"
        "letg=Pipeline::<A,_>::generic();letl=seq.len();assert_eq!(seq.len(),dst.len());unsafe{letmuti=0;"
        "letmutsrc_ptr=seq.as_ptr();letmutdst_ptr=dst.as_mut_ptr();letmuterror=_mm256_setzero_si256();"
        "whilei+STRIDE@CMP@l{letletters=_mm256_loadu_si256(src_ptras*const__m256i);"
        "letmutencoded=_mm256_set1_epi8(@INIT@);letmutunknown=_mm256_set1_epi8(0xFF);"
        "forain0..A::K::USIZE{letindex=_mm256_set1_epi8(aasi8);letascii=_mm256_set1_epi8(alphabet[a]asi8);"
        "letm=_mm256_cmpeq_epi8(letters,ascii);encoded=_mm256_blendv_epi8(encoded,index,m);"
        "unknown=_mm256_andnot_si256(m,unknown);}error=_mm256_or_si256(error,unknown);"
        "_mm256_storeu_si256(dst_ptras*mut__m256i,encoded);src_ptr=src_ptr.add(STRIDE);dst_ptr=dst_ptr.add(STRIDE);"
        "i+=STRIDE;}if_mm256_testz_si256(error,error)!=1{forsinseq.iter(){A::Symbol::from_ascii(*s)?;}}"
        "ifi<l{g.encode_into(&seq[i..],&mutdst[i..])?;}}Ok(())"),
    "__m128i": (
        "constSTRIDE:usize=std::mem::size_of::<__m128i>();letalphabet=A::as_str().as_bytes();"
        "letg=Pipeline::<A,_>::generic();letl=seq.len();assert_eq!(seq.len(),dst.len());unsafe{letmuti=0;"
        "letmutsrc_ptr=seq.as_ptr();letmutdst_ptr=dst.as_mut_ptr();letmuterror=_mm_setzero_si128();"
        "whilei+STRIDE@CMP@l{letletters=_mm_loadu_si128(src_ptras*const__m128i);"
        "letmutencoded=_mm_set1_epi8(@INIT@);letmutunknown=_mm_set1_epi8(0xFF);"
        "forain0..A::K::USIZE{letindex=_mm_set1_epi8(aasi8);letascii=_mm_set1_epi8(alphabet[a]asi8);"
        "letm=_mm_cmpeq_epi8(letters,ascii);"
        "encoded=_mm_or_si128(_mm_andnot_si128(m,encoded),_mm_and_si128(m,index));"
        "unknown=_mm_andnot_si128(m,unknown);}error=_mm_or_si128(error,unknown);"
        "_mm_storeu_si128(dst_ptras*mut__m128i,encoded);src_ptr=src_ptr.add(STRIDE);dst_ptr=dst_ptr.add(STRIDE);"
        "i+=STRIDE;}letmutx:[u8;16]=[0;16];_mm_storeu_si128(x.as_mut_ptr()as*mut__m128i,error);"
        "ifx.iter().any(|&x|x!=0){forxinseq.iter(){let_=A::Symbol::from_ascii(*x)?;}}"
        "ifi<l{g.encode_into(&seq[i..],&mutdst[i..])?;}}Ok(())"),
}


# encode_into_neon (arm/aarch64 only, never compiled or run on the x86_64 host): the model
# EncodeInst.neon_params is tied to it by the whole normalised body only.
NEON_TEXT = (
        'letalphabet=A::as_str().as_bytes();letg=Pipeline::<A,_>::generic();letl=seq.len();assert_eq!(seq.len'
        '(),dst.len());unsafe{letmuti=0;letmutsrc_ptr=seq.as_ptr();letmutdst_ptr=dst.as_mut_ptr();letmuterror'
        '=uint8x16x4_t(vdupq_n_u8(0),vdupq_n_u8(0),vdupq_n_u8(0),vdupq_n_u8(0));whilei+std::mem::size_of::<ui'
        'nt8x16_t>()*4<l{letletters=vld1q_u8_x4(src_ptr);letmutencoded=uint8x16x4_t(vdupq_n_u8(0x00),vdupq_n_'
        'u8(0x00),vdupq_n_u8(0x00),vdupq_n_u8(0x00),);letmutunknown=uint8x16x4_t(vdupq_n_u8(0xFF),vdupq_n_u8('
        '0xFF),vdupq_n_u8(0xFF),vdupq_n_u8(0xFF),);forain0..A::K::USIZE{letindex=vdupq_n_u8(aasu8);letascii=v'
        'dupq_n_u8(alphabet[a]);letm=uint8x16x4_t(vceqq_u8(letters.0,ascii),vceqq_u8(letters.1,ascii),vceqq_u'
        '8(letters.2,ascii),vceqq_u8(letters.3,ascii),);encoded.0=vbslq_u8(m.0,index,encoded.0);unknown.0=van'
        'dq_u8(unknown.0,vmvnq_u8(m.0));encoded.1=vbslq_u8(m.1,index,encoded.1);unknown.1=vandq_u8(unknown.1,'
        'vmvnq_u8(m.1));encoded.2=vbslq_u8(m.2,index,encoded.2);unknown.2=vandq_u8(unknown.2,vmvnq_u8(m.2));e'
        'ncoded.3=vbslq_u8(m.3,index,encoded.3);unknown.3=vandq_u8(unknown.3,vmvnq_u8(m.3));}error.0=vorrq_u8'
        '(error.0,unknown.0);error.1=vorrq_u8(error.1,unknown.1);error.2=vorrq_u8(error.2,unknown.2);error.3='
        'vorrq_u8(error.3,unknown.3);vst1q_u8_x4(dst_ptras*mutu8,encoded);src_ptr=src_ptr.add(std::mem::size_'
        'of::<uint8x16_t>()*4);dst_ptr=dst_ptr.add(std::mem::size_of::<uint8x16_t>()*4);i+=std::mem::size_of:'
        ':<uint8x16_t>()*4;}leterror64=vreinterpretq_u64_u8(vorrq_u8(vorrq_u8(error.0,error.1),vorrq_u8(error'
        '.2,error.3),));ifvgetq_lane_u64(error64,0)!=0||vgetq_lane_u64(error64,1)!=0{foriin0..l{A::Symbol::fr'
        'om_ascii(seq[i])?;}}g.encode_into(&seq[i..],&mutdst[i..])?;}Ok(())')
NEON_WRAPPER = ('#[cfg(any(target_arch="arm",target_arch="aarch64"))]unsafe{returnencode_into_neon::<A>(seq,dst);};'
                '#[cfg(not(any(target_arch="arm",target_arch="aarch64")))]{panic!(')


def check_neon(src):
    errors = []
    try:
        nb = norm(find_block(src, r"\bfn\s+encode_into_neon\b[^{]*\{", "fn encode_into_neon"))
        if nb != NEON_TEXT:
            k = next((j for j in range(min(len(nb), len(NEON_TEXT))) if nb[j] != NEON_TEXT[j]), min(len(nb), len(NEON_TEXT)))
            errors.append("encode_into_neon: body differs from the modelled text at offset %d: source %r, model %r"
                          % (k, nb[max(0, k - 30):k + 50], NEON_TEXT[max(0, k - 30):k + 50]))
        wb = find_fn(find_block(src, r"\bimpl\s+Neon\s*\{", "impl Neon"), "encode_into", "impl Neon")
        if wb is None or not norm(wb).startswith(NEON_WRAPPER):
            errors.append("Neon::encode_into is not a plain call of encode_into_neon: %r" % (wb,))
    except ParseError as e:
        errors.append("neon.rs: %s" % e)
    return errors


def check_bodies(seq_src, mod_src):
    """Textual tie of the small bodies that the model transcribes by hand:
    EncodedSequence::{new, encode}, FromStr::from_str, Display::fmt (seq.rs) and the trait
    defaults Encode::{encode_raw, encode, encode_into} (pli/mod.rs).  Each must be, modulo
    white space and comments, the text the Gallina definition was written from."""
    errors = []

    def body_of(src, impl_re, fn, what):
        try:
            blk = find_block(src, impl_re, what)
            b = find_fn(blk, fn, what)
        except ParseError as e:
            errors.append(str(e))
            return None
        if b is None:
            errors.append("%s: fn %s has no body" % (what, fn))
            return None
        return norm(b)

    es = r"\bimpl\s*<\s*A\s*:\s*Alphabet\s*>\s*EncodedSequence\s*<\s*A\s*>\s*\{"
    expect = [
        (seq_src, es, "new", "impl EncodedSequence",
         ["Self{data,alphabet:std::marker::PhantomData,}", "Self{data,alphabet:std::marker::PhantomData}"],
         "EncodeInst.pipeline_encode_raw (encode = encode_raw + new)"),
        (seq_src, es, "encode", "impl EncodedSequence",
         ["letpli=Pipeline::<A,_>::dispatch();pli.encode(sequence.as_ref())"],
         "EncodeInst.encoded_sequence_encode"),
        (seq_src, r"\bimpl\s*<\s*A\s*:\s*Alphabet\s*>\s*FromStr\s+for\s+EncodedSequence\s*<\s*A\s*>\s*\{", "from_str",
         "impl FromStr for EncodedSequence", ["Self::encode(seq)"], "EncodeInst.encoded_sequence_encode (from_str)"),
        (seq_src, r"\bimpl\s*<\s*A\s*:\s*Alphabet\s*>\s*Display\s+for\s+EncodedSequence\s*<\s*A\s*>\s*\{", "fmt",
         "impl Display for EncodedSequence", ["forcinself.data.iter(){f.write_char(c.as_char())?;}Ok(())"],
         "EncodeModel.display / to_string"),
        (seq_src, r"\bimpl\s*<\s*A\s*:\s*Alphabet\s*>\s*AsRef\s*<\s*\[\s*A::Symbol\s*\]\s*>\s*for\s+EncodedSequence\s*<\s*A\s*>\s*\{",
         "as_ref", "impl AsRef<[A::Symbol]> for EncodedSequence", ["self.data.as_slice()", "&self.data"],
         "the harness reading the symbols of an EncodedSequence"),
        (mod_src, r"\bpub\s+trait\s+Encode\s*<\s*A\s*:\s*Alphabet\s*>\s*\{", "encode_raw", "trait Encode",
         ["lets=seq.as_ref();letmutbuffer=Vec::with_capacity(s.len());unsafe{buffer.set_len(s.len())};"
          "matchself.encode_into(s,&mutbuffer){Ok(_)=>Ok(buffer),Err(e)=>Err(e),}"], "EncodeModel.encode_raw"),
        (mod_src, r"\bpub\s+trait\s+Encode\s*<\s*A\s*:\s*Alphabet\s*>\s*\{", "encode", "trait Encode",
         ["self.encode_raw(seq).map(EncodedSequence::new)"], "EncodeInst.pipeline_encode_raw"),
        (mod_src, r"\bpub\s+trait\s+Encode\s*<\s*A\s*:\s*Alphabet\s*>\s*\{", "encode_into", "trait Encode",
         ["assert_eq!(seq.as_ref().len(),dst.len());for(i,c)inseq.as_ref().iter().enumerate(){"
          "dst[i]=A::Symbol::from_ascii(*c)?;}Ok(())"], "EncodeModel.encode_into_generic / gen_loop"),
    ]
    for src, impl_re, fn, what, wants, model in expect:
        b = body_of(src, impl_re, fn, what)
        if b is not None and b not in wants:
            errors.append("%s::%s body differs from the text modelled by %s: %r" % (what, fn, model, b))
    return errors


# ------------------------------------------------------------------ output

def coq_byte(v):
    return "x%02x" % v


def coq_list(items):
    return "[" + "; ".join(items) + "]"


def emit(abcs, dispatch, kernels, flags):
    o = []
    o.append("(* GENERATED by translate/encode_abc.py from /repo/lightmotif/src/{abc.rs,pli/dispatch.rs,")
    o.append("   pli/platform/avx2.rs,pli/platform/sse2.rs} on every run -- do not edit. *)")
    o.append("From Coq Require Import List NArith.")
    o.append("From Coq.Strings Require Import Byte.")
    o.append("From LMEncode Require Import EncodeModel.")
    o.append("Import ListNotations.")
    o.append("Local Open Scope N_scope.")
    o.append("")
    for cname, a in abcs:
        o.append("(* alphabet %s, symbol enum %s; variants in declaration order: %s *)" % (
            a["alphabet"], a["symbol"], " ".join("%s=%d" % (n, v) for n, v in zip(a["names"], a["discr"]))))
        o.append("Definition %s : abc := {|" % cname)
        o.append("  a_K := %d%%nat;" % a["K"])
        o.append("  a_str := %s;" % coq_list([coq_byte(b) for b in a["str"]]))
        o.append("  a_symbols := %s;" % coq_list([str(v) for v in a["symbols"]]))
        o.append("  a_discr := %s;" % coq_list([str(v) for v in a["discr"]]))
        o.append("  a_default := %d;" % a["default"])
        o.append("  a_from_ascii := %s;" % coq_list(["(%s, %d)" % (coq_byte(b), v) for b, v in a["from_ascii"]]))
        o.append("  a_as_ascii := %s" % coq_list(["(%d, %s)" % (v, coq_byte(b)) for v, b in a["as_ascii"]]))
        o.append("|}.")
        o.append("")
    table, default = dispatch
    o.append("(* impl Encode<A> for Pipeline<A, Dispatch>::encode_into, arms compiled on x86_64 *)")
    o.append("Definition gen_encode_arms : list (arm * kernel) := %s." % coq_list(["(%s, %s)" % t for t in table]))
    o.append("Definition gen_encode_default : kernel := %s." % default)
    o.append("")
    o.append("(* encode_into_avx2 / encode_into_sse2: block loop condition and initial `encoded` lanes *)")
    for k in ("avx2", "sse2"):
        o.append("Definition gen_%s_strict : bool := %s.   (* while i + STRIDE %s l *)" % (
            k, "true" if kernels[k]["strict"] else "false", "<" if kernels[k]["strict"] else "<="))
        o.append("Definition gen_%s_init_km1 : bool := %s. (* encoded = set1(K%s) *)" % (
            k, "true" if kernels[k]["init_minus_one"] else "false", " - 1" if kernels[k]["init_minus_one"] else ""))
    o.append("")
    return "\n".join(o) + "\n"


def translate():
    errors, notes = [], []
    try:
        src = strip_comments(open(os.path.join(REPO, "lightmotif/src/abc.rs")).read())
        abcs = []
        for cname, aname in ALPHABETS:
            a, errs = parse_alphabet(src, aname)
            errors += errs
            abcs.append((cname, a))
        errors += check_trait_defaults(src)
        dsrc = strip_comments(open(os.path.join(REPO, "lightmotif/src/pli/dispatch.rs")).read())
        dispatch = parse_dispatch(dsrc)
        if dispatch[1] is None:
            raise ParseError("Dispatch encode_into has no default arm")
        kernels = {}
        for k, f, ty in (("avx2", "encode_into_avx2", "__m256i"), ("sse2", "encode_into_sse2", "__m128i")):
            ksrc = strip_comments(open(os.path.join(REPO, "lightmotif/src/pli/platform/%s.rs" % k)).read())
            kernels[k] = parse_kernel(ksrc, f, ty)
            # the safe wrapper `impl Avx2 / Sse2 { pub fn encode_into }` only calls the kernel
            B = k.capitalize()
            wb = find_fn(find_block(ksrc, r"\bimpl\s+%s\s*\{" % B, "impl " + B), "encode_into", "impl " + B)
            want_w = ('#[cfg(any(target_arch="x86",target_arch="x86_64"))]unsafe{%s::<A>(seq,dst)}'
                      '#[cfg(not(any(target_arch="x86",target_arch="x86_64")))]panic!(' % f)
            if wb is None or not norm(wb).startswith(want_w):
                errors.append("%s::encode_into is not a plain call of %s: %r" % (B, f, wb))
        # pli/mod.rs: the SSE2 and AVX2 pipelines call their own kernel, the generic one the trait default
        msrc = norm(strip_comments(open(os.path.join(REPO, "lightmotif/src/pli/mod.rs")).read()))
        for b in ("Sse2", "Avx2"):
            if not re.search(r"impl<A:Alphabet>Encode<A>forPipeline<A,%s>\{(#\[inline\])?fnencode_into<S:AsRef<\[u8\]>>"
                             r"\(&self,seq:S,dst:&mut\[A::Symbol\],?\)->Result<\(\),InvalidSymbol>\{%s::encode_into::<A>"
                             r"\(seq\.as_ref\(\),dst\)\}\}" % (b, b), msrc):
                errors.append("pli/mod.rs: Pipeline<A,%s>::encode_into is not `%s::encode_into::<A>(seq.as_ref(), dst)`" % (b, b))
        if "impl<A:Alphabet>Encode<A>forPipeline<A,Generic>{}" not in msrc:
            errors.append("pli/mod.rs: Pipeline<A,Generic> overrides Encode methods")
        errors += check_neon(strip_comments(open(os.path.join(REPO, "lightmotif/src/pli/platform/neon.rs")).read()))
        errors += check_bodies(strip_comments(open(os.path.join(REPO, "lightmotif/src/seq.rs")).read()),
                               strip_comments(open(os.path.join(REPO, "lightmotif/src/pli/mod.rs")).read()))
    except (ParseError, OSError) as e:
        return dict(ok=False, errors=["cannot parse source: %s" % e], notes=notes)
    text = emit(abcs, dispatch, kernels, {})
    changed = False
    try:
        old = open(OUT).read()
    except OSError:
        old = None
    if old != text:
        os.makedirs(os.path.dirname(OUT), exist_ok=True)
        with open(OUT, "w") as f:
            f.write(text)
        changed = True
    notes.append("translator: GenAbc.v %s (%s)" % (
        "rewritten" if changed else "unchanged",
        ", ".join("%s K=%d str=%s" % (a["alphabet"], a["K"], bytes(a["str"]).decode("latin-1")) for _, a in abcs)))
    notes.append("translator: dispatch encode arms (x86_64) %s default %s; avx2 loop `i+32 %s l` encoded=set1(K%s); "
                 "sse2 loop `i+16 %s l` encoded=set1(K%s)" % (
                     " ".join("%s->%s" % t for t in dispatch[0]) or "-", dispatch[1],
                     "<" if kernels["avx2"]["strict"] else "<=", "-1" if kernels["avx2"]["init_minus_one"] else "",
                     "<" if kernels["sse2"]["strict"] else "<=", "-1" if kernels["sse2"]["init_minus_one"] else ""))
    return dict(ok=not errors, errors=errors, notes=notes)


if __name__ == "__main__":
    import json
    print(json.dumps(translate(), indent=1))
