"""Translator for the `tfm` group (properties C12, C13).

Re-reads /repo/lightmotif-tfmpvalue/src/lib.rs (working tree; VERIF_REPO override) and writes
coq/tfm/GenTfm.v (only when changed): the numeric constants and loop bounds of the TFM-PVALUE code that the
hand-written model (TfmModel.v) fixes in its text --

  * approximate_pvalue / approximate_score: `decay`, initial `granularity`, `target` of the two iterators, the
    granularity of the `recompute(..)` call of approximate_score;
  * recompute: the bound of `assert!(granularity < ..)`, the first row of the error_max loop (`for i in 1..M`),
    the column range `0..K - 1` of the integer matrix;
  * lookup_pvalue: the margin of `(scaled +/- error_max +/- 1.0).floor()`, the initial value of `sum`, the number
    of `.min(1.0)` clip sites;
  * lookup_score: the initial value of `sum`, the loop guard `riter > 0`, the comparison of `sum >= pvalue`;
  * ScoresIterator::next / approximate_score: the `+ 0.5).ceil()` of the window margin and the `decay - 1.0` slack.

C12Gen.v proves `gen_* = the constant of the model` by computation (theorem C12_source_constants), so an edited
constant breaks an obligation even before the replay sees it.  White space, comments and the order of the struct
fields do not matter.  A source that cannot be read makes translate() return ok=False (a broken obligation); nothing
is guessed and nothing crashes.
"""
import os
import re

REPO = os.environ.get("VERIF_REPO", "/repo").rstrip("/") or "/repo"   # same override as vlib/common.py
VERIF = os.path.dirname(os.path.dirname(os.path.abspath(__file__)))
SRC_REL = os.path.join("lightmotif-tfmpvalue", "src", "lib.rs")
OUT = os.path.join(VERIF, "coq", "tfm", "GenTfm.v")


class ParseError(Exception):
    pass


def strip_comments(src):
    src = re.sub(r"/\*.*?\*/", "", src, flags=re.S)
    return re.sub(r"//[^\n]*", "", src)


def block_at(src, start):
    i = src.index("{", start)
    depth = 0
    for j in range(i, len(src)):
        if src[j] == "{":
            depth += 1
        elif src[j] == "}":
            depth -= 1
            if depth == 0:
                return src[i + 1:j]
    raise ParseError("unbalanced braces")


def fn_body(src, name):
    m = re.search(r"\bfn\s+%s\s*(<[^>]*>)?\s*\(" % re.escape(name), src)
    if not m:
        raise ParseError("fn %s not found" % name)
    return block_at(src, m.end())


def impl_fn_body(src, impl_pat, name):
    m = re.search(impl_pat, src)
    if not m:
        raise ParseError("impl %s not found" % impl_pat)
    body = block_at(src, m.end() - 1)
    return fn_body(body, name)


FLOAT = r"([0-9]+(?:\.[0-9]*)?(?:[eE][-+]?[0-9]+)?)"


def dec_to_q(lit):
    """decimal literal -> (numerator, denominator) exactly"""
    m = re.fullmatch(r"([0-9]+)(?:\.([0-9]*))?(?:[eE]([-+]?[0-9]+))?", lit)
    if not m:
        raise ParseError("not a decimal literal: %r" % lit)
    ip, fp, ex = m.group(1), m.group(2) or "", int(m.group(3) or 0)
    num = int(ip + fp)
    den = 10 ** len(fp)
    if ex >= 0:
        num *= 10 ** ex
    else:
        den *= 10 ** (-ex)
    return num, den


def one(pattern, text, what):
    ms = re.findall(pattern, text)
    if len(ms) != 1:
        raise ParseError("%s: expected exactly one match of /%s/, found %d" % (what, pattern, len(ms)))
    return ms[0]


def field(body, struct, name):
    m = re.search(r"\b%s\s*\{" % struct, body)
    if not m:
        raise ParseError("struct literal %s not found" % struct)
    lit = block_at(body, m.end() - 1)
    return one(r"\b%s\s*:\s*%s\s*[,}]?" % (name, FLOAT), lit + ",", "%s.%s" % (struct, name))


def read(src):
    src = strip_comments(src)
    out = {}
    apv = fn_body(src, "approximate_pvalue")
    asc = fn_body(src, "approximate_score")
    for f in ("decay", "granularity", "target"):
        out["pv_" + f] = field(apv, "PvaluesIterator", f)
        out["sc_" + f] = field(asc, "ScoresIterator", f)
    out["sc_recompute"] = one(r"self\s*\.\s*recompute\s*\(\s*%s\s*\)" % FLOAT, asc, "approximate_score recompute(..)")
    out["sc_w0_half"] = one(r"error_max\s*\+\s*%s\s*\)\s*\.\s*ceil\s*\(\s*\)" % FLOAT, asc, "approximate_score window margin")
    rec = fn_body(src, "recompute")
    out["rec_bound"] = one(r"assert!\s*\(\s*granularity\s*<\s*%s\s*\)" % FLOAT, rec, "recompute assert")
    out["rec_emax_first"] = one(r"for\s+i\s+in\s+([0-9]+)\s*\.\.\s*M\s*\{\s*let\s+max_e", rec, "recompute error_max loop")
    cols = re.findall(r"for\s+j\s+in\s+0\s*\.\.\s*K\s*-\s*([0-9]+)", rec)
    if not cols or len(set(cols)) != 1:
        raise ParseError("recompute column loops: %r" % (cols,))
    out["rec_cols_minus"] = cols[0]
    lp = fn_body(src, "lookup_pvalue")
    out["lp_margin_hi"] = one(r"scaled\s*\+\s*self\s*\.\s*error_max\s*\+\s*%s\s*\)\s*\.\s*floor" % FLOAT, lp, "lookup_pvalue max")
    out["lp_margin_lo"] = one(r"scaled\s*-\s*self\s*\.\s*error_max\s*-\s*%s\s*\)\s*\.\s*floor" % FLOAT, lp, "lookup_pvalue min")
    out["lp_sum0"] = one(r"let\s+mut\s+sum\s*=\s*%s\s*;" % FLOAT, lp, "lookup_pvalue sum")
    clips = re.findall(r"\.\s*min\s*\(\s*%s\s*\)" % FLOAT, lp)
    if len(set(clips)) > 1:
        raise ParseError("lookup_pvalue clip sites with different bounds: %r" % (clips,))
    out["lp_clip_sites"] = str(len(clips))
    out["lp_clip"] = clips[0] if clips else "1.0"
    ls = fn_body(src, "lookup_score")
    out["ls_sum0"] = one(r"let\s+mut\s+sum\s*=\s*%s\s*;" % FLOAT, ls, "lookup_score sum")
    out["ls_guard"] = one(r"while\s+riter\s*(>=|>)\s*0\s*\{", ls, "lookup_score loop guard")
    out["ls_break"] = one(r"if\s+sum\s*(>=|>)\s*pvalue\s*\{\s*break", ls, "lookup_score break test")
    out["ls_after"] = one(r"if\s+sum\s*(>=|>)\s*pvalue\s*\{\s*alpha_e", ls, "lookup_score test after the loop")
    nxt = impl_fn_body(src, r"impl\s*<[^{]*>\s*Iterator\s+for\s+ScoresIterator[^{]*\{", "next")
    halves = re.findall(r"error_max\s*\+\s*%s\s*\)\s*\.\s*ceil\s*\(\s*\)" % FLOAT, nxt)
    if len(halves) != 2 or len(set(halves)) != 1:
        raise ParseError("ScoresIterator::next window margins: %r" % (halves,))
    out["sn_half"] = halves[0]
    out["sn_slack"] = one(r"self\s*\.\s*decay\s*-\s*%s\s*\)\s*\*" % FLOAT, nxt, "ScoresIterator::next slack")
    return out


Q_KEYS = ["pv_decay", "pv_granularity", "pv_target", "sc_decay", "sc_granularity", "sc_target", "sc_recompute",
          "sc_w0_half", "rec_bound", "lp_margin_hi", "lp_margin_lo", "lp_sum0", "lp_clip", "ls_sum0", "sn_half", "sn_slack"]
N_KEYS = ["rec_emax_first", "rec_cols_minus", "lp_clip_sites"]
B_KEYS = {"ls_guard": ">", "ls_break": ">=", "ls_after": ">"}   # gen_* := true iff the operator is the strict one `>`


def render(vals):
    lines = ["(* GENERATED by translate/tfm_const.py from lightmotif-tfmpvalue/src/lib.rs -- do not edit. *)",
             "From Coq Require Import ZArith QArith List.", "Open Scope Q_scope.", ""]
    for k in Q_KEYS:
        n, d = dec_to_q(vals[k])
        lines.append("Definition gen_%s : Q := %d # %d.   (* %s *)" % (k, n, d, vals[k]))
    for k in N_KEYS:
        lines.append("Definition gen_%s : nat := %d%%nat." % (k, int(vals[k])))
    for k in B_KEYS:
        lines.append("Definition gen_%s_strict : bool := %s.   (* `%s` *)" % (k, "true" if vals[k] == ">" else "false", vals[k]))
    return "\n".join(lines) + "\n"


def translate():
    path = os.path.join(REPO, SRC_REL)
    try:
        with open(path) as f:
            src = f.read()
        vals = read(src)
        text = render(vals)
    except (OSError, ParseError, ValueError, IndexError) as e:
        return dict(ok=False, errors=["tfm_const: cannot parse %s: %s" % (SRC_REL, e)], notes=[])
    old = None
    if os.path.exists(OUT):
        with open(OUT) as f:
            old = f.read()
    if old != text:
        with open(OUT, "w") as f:
            f.write(text)
    return dict(ok=True, notes=["[tfm] translate/tfm_const.py: %d constants of lib.rs -> coq/tfm/GenTfm.v%s"
                                % (len(Q_KEYS) + len(N_KEYS) + len(B_KEYS), "" if old == text else " (rewritten)")])


if __name__ == "__main__":
    r = translate()
    print(r)
    if r["ok"]:
        print(open(OUT).read())
