"""Source-derived footprints for property C06 (group `footprint`).

A small interpreter of the Rust subset the unsafe kernels of lightmotif are written in
(lightmotif/src/pli/platform/{avx2,sse2}.rs).  It re-reads the kernels from /repo's working
tree on every run and *executes their control flow and pointer arithmetic* on abstract
pointers (buffer, byte offset, element size) for concrete parameter tuples: loops, `if`s,
`let`/assignment of pointers and indices, `.add(n)`, casts, and the memory intrinsics
(load/loadu/store/storeu/stream/gather/load1) — everything else (register arithmetic, safe
indexing, iterators) is ignored.  The result is the list of vector/raw-pointer accesses

        (buffer, byte offset, width, r|w, required alignment)

the kernel performs for these parameters *according to the source text*.  The OCaml driver
(`driver srcfp`) compares it with the access list of the hand-written Coq footprint model
(FpModel.v, extracted) for the same kernel and parameters (as sets, restricted to accesses of
width >= 4: the model also lists the byte accesses of the safe scalar loops), and runs the
extracted, proved-sound checker `all_ok` on the source-derived list.

So the transcription "source -> FpModel.v" is re-validated on every run on a parameter grid,
and a change of the pointer arithmetic that AddressSanitizer cannot see (it stays inside an
allocation) still shows up as a difference, with the first differing access.

Buffers: 0 = source / sequence matrix / scores read by max, 1 = destination, 2 = scoring
matrix, 3 = the kernel's stack array.  A statement that touches pointers or memory intrinsics
and cannot be interpreted raises Unsupported (reported as a broken tie, never a crash).
"""
import os
import re
import sys

from translate.footprint_src import REPO, SRC, neutralise, find_function

B_SRC, B_DST, B_PSSM, B_LOC = 0, 1, 2, 3


class Unsupported(Exception):
    pass


class KernelPanic(Exception):
    pass


class KernelReturn(Exception):
    pass


class KernelEntered(Exception):
    """Raised when a safe wrapper reaches the call of its unsafe kernel."""
    pass


# ------------------------------------------------------------------ abstract values

SIZES = {"u8": 1, "i8": 1, "u16": 2, "i16": 2, "u32": 4, "i32": 4, "f32": 4, "__m256i": 32, "__m128i": 16,
         "__m256": 32, "__m128": 16, "uint8x16_t": 16, "uint32x4_t": 16, "float32x4_t": 16}


class Ptr:
    def __init__(self, buf, off, esz):
        self.buf, self.off, self.esz = buf, off, esz

    def add(self, n):
        return Ptr(self.buf, self.off + int(n) * self.esz, self.esz)

    def sub(self, n):
        return Ptr(self.buf, self.off - int(n) * self.esz, self.esz)

    def offset(self, n):
        return self.add(n)

    def cast(self, ty):
        if ty == "_":
            return self
        if ty not in SIZES:
            raise Unsupported("cast to *%s" % ty)
        return Ptr(self.buf, self.off, SIZES[ty])


class Opaque:
    """A value the interpreter does not track (vector registers, iterators, ...)."""

    def __getattr__(self, name):
        raise Unsupported("use of untracked value .%s" % name)


OPAQUE = Opaque()


class Row:
    def __init__(self, m, i):
        self.m, self.i = m, i

    def as_ptr(self):
        return Ptr(self.m.buf, self.i * self.m.stride_ * self.m.esz, self.m.esz)

    as_mut_ptr = as_ptr


class Matrix:
    def __init__(self, buf, rows, stride, esz, cols=32):
        self.buf, self.rows_, self.stride_, self.esz, self.cols = buf, rows, stride, esz, cols

    def rows(self):
        return self.rows_

    def stride(self):
        return self.stride_

    def columns(self):
        return self.cols

    def resize(self, n):
        self.rows_ = int(n)

    def as_ref(self):
        return self

    def __getitem__(self, i):
        if isinstance(i, int):
            if not (0 <= i < self.rows_):
                raise KernelPanic("row index %d out of %d" % (i, self.rows_))   # checked index
            return Row(self, i)
        raise Unsupported("matrix index")


class Slice:
    def __init__(self, buf, n, esz):
        self.buf, self.n, self.esz = buf, n, esz

    def len(self):
        return self.n

    def as_ptr(self):
        return Ptr(self.buf, 0, self.esz)

    as_mut_ptr = as_ptr

    def tail(self, k):
        if k > self.n:
            raise KernelPanic("slice start out of range")
        s = Slice(self.buf, self.n - k, self.esz)
        s.base = getattr(self, "base", 0) + k * self.esz
        return s


class LocalArray(Slice):
    def __init__(self, n, esz):
        Slice.__init__(self, B_LOC, n, esz)
        self.base = 0

    def as_ptr(self):
        return Ptr(B_LOC, self.base, self.esz)

    as_mut_ptr = as_ptr

    def tail(self, k):
        if k > self.n:
            raise KernelPanic("slice start out of range")
        a = LocalArray(self.n - k, self.esz)
        a.base = self.base + k * self.esz
        return a


class RRange:
    def __init__(self, a, b):
        self.start, self.end = a, b

    def clone(self):
        return self

    def __iter__(self):
        return iter(range(self.start, self.end))

    def is_empty(self):
        return self.end <= self.start

    def len(self):
        return max(0, self.end - self.start)


class Striped:
    def __init__(self, matrix, length, wrap):
        self.m, self.length, self.wrap_ = matrix, length, wrap

    def matrix(self):
        return self.m

    def len(self):
        return self.length

    def wrap(self):
        return self.wrap_

    def as_ref(self):
        return self


class Scores:
    def __init__(self, matrix, max_index=0):
        self.m, self.mi = matrix, max_index

    def matrix(self):
        return self.m

    matrix_mut = matrix

    def is_empty(self):
        return self.m.rows_ == 0

    def max_index(self):
        return self.mi

    def resize(self, rows, *_):
        self.m.resize(rows)

    def as_ref(self):
        return self


# intrinsic -> (is_write, width, alignment)
MEM = {
    "_mm256_load_si256": (False, 32, 32), "_mm256_loadu_si256": (False, 32, 1), "_mm256_lddqu_si256": (False, 32, 1),
    "_mm256_load_ps": (False, 32, 32), "_mm256_loadu_ps": (False, 32, 1),
    "_mm256_store_si256": (True, 32, 32), "_mm256_storeu_si256": (True, 32, 1),
    "_mm256_store_ps": (True, 32, 32), "_mm256_storeu_ps": (True, 32, 1),
    "_mm256_stream_si256": (True, 32, 32), "_mm256_stream_ps": (True, 32, 32),
    "_mm_load_si128": (False, 16, 16), "_mm_loadu_si128": (False, 16, 1), "_mm_lddqu_si128": (False, 16, 1),
    "_mm_load_ps": (False, 16, 16), "_mm_loadu_ps": (False, 16, 1),
    "_mm_store_si128": (True, 16, 16), "_mm_storeu_si128": (True, 16, 1),
    "_mm_store_ps": (True, 16, 16), "_mm_storeu_ps": (True, 16, 1),
    "_mm_stream_si128": (True, 16, 16), "_mm_stream_ps": (True, 16, 16),
    "_mm_load1_ps": (False, 4, 4), "_mm_load_ps1": (False, 4, 4), "_mm_load_ss": (False, 4, 1),
    # NEON (neon.rs): vld1/vst1 need the alignment of the element type only
    "vld1q_u8": (False, 16, 1), "vst1q_u8": (True, 16, 1),
    "vld1q_u8_x4": (False, 64, 1), "vst1q_u8_x4": (True, 64, 1),
    "vld1q_f32": (False, 16, 4), "vst1q_f32": (True, 16, 4),
    "vld1q_f32_x4": (False, 64, 4), "vst1q_f32_x4": (True, 64, 4),
    "vld1q_dup_f32": (False, 4, 4), "vld1q_u32": (False, 16, 4), "vst1q_u32": (True, 16, 4),
}
GATHER = {"_mm256_i32gather_ps": 4, "_mm256_i32gather_epi32": 4}
MEM_RX = re.compile(r"\b(_mm\d*_(?:load|loadu|lddqu|store|storeu|stream|i32gather|i64gather|load1|maskload|maskstore)\w*"
                    r"|v(?:ld|st)[1-4]q?_\w+)\s*\(")
# register arithmetic (no memory): x86 `_mm*`, NEON `v...q_...` and the NEON tuple constructors
REG_RX = re.compile(r"_mm\d*_\w+\s*\(|\bv[a-z]+[0-9]*q?_[a-z0-9_]+\s*\(|\b(?:u?int|float)\d+x\d+(?:x\d+)?_t\s*\(")
POINTERISH = re.compile(r"\.add\(|\.sub\(|\.offset\(|as_ptr\(|as_mut_ptr\(|\*mut |\*const ")


# ------------------------------------------------------------------ parsing into a statement tree

def parse_block(code, i):
    """code[i] is just after an opening `{`; returns (nodes, index after the closing `}`).
    node = ('stmt', text) | ('block', header, nodes)"""
    nodes = []
    cur = []
    depth = 0
    n = len(code)
    while i < n:
        c = code[i]
        if c in "([":
            depth += 1
        elif c in ")]":
            depth -= 1
        if c == ";" and depth == 0:
            t = norm("".join(cur))
            if t:
                nodes.append(("stmt", t))
            cur = []
        elif c == "{" and depth == 0:
            header = norm("".join(cur))
            cur = []
            inner, i = parse_block(code, i + 1)
            nodes.append(("block", header, inner))
            continue
        elif c == "}" and depth == 0:
            t = norm("".join(cur))
            if t:
                nodes.append(("stmt", t))      # trailing expression
            return nodes, i + 1
        else:
            cur.append(c)
        i += 1
    raise Unsupported("unbalanced braces")


def norm(s):
    s = re.sub(r"\s+", " ", s).strip()
    while s.startswith("#["):
        k = s.find("]")
        s = s[k + 1:].strip()
    return s


def has_memory(nodes):
    for nd in nodes:
        if nd[0] == "stmt":
            if MEM_RX.search(nd[1]) or POINTERISH.search(nd[1]):
                return True
        else:
            if MEM_RX.search(nd[1]) or POINTERISH.search(nd[1]) or has_memory(nd[2]):
                return True
    return False


# ------------------------------------------------------------------ expressions

def split_args(s):
    out, cur, depth = [], [], 0
    for c in s:
        if c in "([{<" and not (c == "<"):
            depth += 1
        elif c in ")]}":
            depth -= 1
        if c == "," and depth == 0:
            out.append("".join(cur).strip())
            cur = []
        else:
            cur.append(c)
    if "".join(cur).strip():
        out.append("".join(cur).strip())
    return out


def call_args(text, start):
    """text[start] == '(' : returns (inside, index after the matching ')')"""
    depth = 0
    for i in range(start, len(text)):
        if text[i] == "(":
            depth += 1
        elif text[i] == ")":
            depth -= 1
            if depth == 0:
                return text[start + 1:i], i + 1
    raise Unsupported("unbalanced parentheses in `%s`" % text)


EXPR_CACHE = {}
MEM_CACHE = {}
STMT_CACHE = {}
GLOBALS = {"__builtins__": {"range": range, "len": len, "int": int}}


class Interp:
    def __init__(self, consts, env):
        self.consts = consts      # textual constants: K, C, ...
        self.env = env
        self.accs = []

    # Rust expression -> Python expression
    def tr(self, e):
        c = self.consts
        e = e.strip()
        e = e.replace("<Avx2 as Backend>::Lanes::USIZE", "32").replace("<Sse2 as Backend>::Lanes::USIZE", "16")
        e = e.replace("<Neon as Backend>::Lanes::USIZE", "16")
        e = re.sub(r"(?:std::mem::)?size_of::<\s*(\w+)\s*>\(\)", lambda m: str(SIZES[m.group(1)]) if m.group(1) in SIZES else "UNSUPPORTED_SIZE", e)
        e = e.replace("<A as Alphabet>::K::I32", str(c["K"])).replace("<A as Alphabet>::K::USIZE", str(c["K"]))
        e = e.replace("A::K::USIZE", str(c["K"])).replace("A::K::I32", str(c["K"]))
        e = e.replace("C::Quotient::USIZE", str(c.get("C", 32) // 16)).replace("C::USIZE", str(c.get("C", 32)))
        e = e.replace("u32::MAX as usize", "4294967295").replace("u16::MAX as usize", "65535")
        e = e.replace("u32::MAX", "4294967295").replace("u16::MAX", "65535")
        e = e.replace("std::mem::take(striped).into_matrix()", "striped_matrix")
        e = re.sub(r"&\s*\*\s*\(", "(", e)
        e = re.sub(r"\s+as\s+\*\s*(?:const|mut)\s+([\w_]+)", r".cast('\1')", e)
        e = re.sub(r"\s+as\s+(?:_|usize|isize|u8|i8|u16|i16|u32|i32|u64|i64)\b", "", e)
        e = re.sub(r"\[\s*([\w]+)\s*\.\.\s*\]", r".tail(\1)", e)
        e = re.sub(r"(?<!/)/(?!/)", "//", e)       # usize division
        e = e.replace("&&", " and ").replace("||", " or ")
        e = re.sub(r"&mut\s+", "", e)
        e = re.sub(r"(?<![\w\)])&(?=\w)", "", e)
        return e

    def ev(self, e):
        key = (e, self.consts["K"], self.consts.get("C", 32))
        ent = EXPR_CACHE.get(key)
        if ent is None:
            py = self.tr(e)
            try:
                ent = (py, compile(py, "<rust>", "eval"))
            except SyntaxError as ex:
                ent = (py, None)
            EXPR_CACHE[key] = ent
        py, codeobj = ent
        if codeobj is None:
            raise Unsupported("cannot translate `%s` (as `%s`)" % (e, py))
        try:
            return eval(codeobj, GLOBALS, self.env)
        except (KernelPanic, Unsupported):
            raise
        except Exception as ex:
            raise Unsupported("cannot evaluate `%s` (as `%s`): %s" % (e, py, ex))

    def try_ev(self, e):
        try:
            return self.ev(e)
        except Unsupported:
            return None

    # memory intrinsics inside an expression (innermost first is irrelevant: each is recorded once)
    def record_mem(self, text):
        found = MEM_CACHE.get(text)
        if found is None:
            found = []
            for m in MEM_RX.finditer(text):
                inside, _ = call_args(text, m.end() - 1)
                found.append((m.group(1), split_args(inside)))
            MEM_CACHE[text] = found
        for (name, args) in found:
            if name in MEM:
                w, width, al = MEM[name]
                p = self.ev(args[0])
                if not isinstance(p, Ptr):
                    raise Unsupported("pointer argument of %s is not a tracked pointer: %s" % (name, args[0]))
                self.accs.append((p.buf, p.off, width, "w" if w else "r", al))
            elif name in GATHER:
                p = self.ev(args[0])
                scale = int(self.ev(args[2]))
                if not isinstance(p, Ptr):
                    raise Unsupported("base of %s is not a tracked pointer" % name)
                # lanes are symbol codes < K (type invariant): every index below K
                for x in range(self.consts["K"]):
                    self.accs.append((p.buf, p.off + x * scale, GATHER[name], "r", 1))
            else:
                raise Unsupported("memory intrinsic %s is not modelled" % name)

    # ---------------------------------------------------------------- statements
    def run(self, nodes):
        k = 0
        while k < len(nodes):
            nd = nodes[k]
            if nd[0] == "stmt":
                self.stmt(nd[1])
                k += 1
                continue
            header, body = nd[1], nd[2]
            if header.startswith("if ") or header.startswith("else if ") or header == "else":
                # gather the whole chain
                chain = []
                while k < len(nodes) and nodes[k][0] == "block" and (
                        nodes[k][1].startswith("if ") or nodes[k][1].startswith("else")):
                    if chain and nodes[k][1].startswith("if "):
                        break
                    chain.append(nodes[k])
                    k += 1
                self.if_chain(chain)
                continue
            k += 1
            if header in ("unsafe", ""):
                self.run(body)
            elif header.startswith("for "):
                self.for_loop(header, body)
            elif header.startswith("while "):
                self.while_loop(header, body)
            elif header.startswith("macro_rules!") or re.match(r"^\(\s*epi\d+", header) or header.startswith("=>"):
                pass
            else:
                if has_memory(body) or MEM_RX.search(header):
                    raise Unsupported("block `%s {` with memory operations" % header)

    def if_chain(self, chain):
        for (_, header, body) in chain:
            if header == "else":
                self.run(body)
                return
            cond = header[len("else if "):] if header.startswith("else if ") else header[len("if "):]
            if REG_RX.search(cond) or ".iter()" in cond:
                # data-dependent condition (error flag): both outcomes allowed; the body may only be safe code
                if has_memory(body):
                    raise Unsupported("data-dependent `if %s` guards memory operations" % cond)
                continue
            v = self.try_ev(cond)
            if v is None:
                if has_memory(body):
                    raise Unsupported("cannot evaluate `if %s` guarding memory operations" % cond)
                continue
            if v:
                self.run(body)
                return

    def for_loop(self, header, body):
        m = re.match(r"^for\s+(.+?)\s+in\s+(.+)$", header)
        if not m:
            raise Unsupported("for header `%s`" % header)
        var, rng = m.group(1), m.group(2)
        it = self.iterable(rng)
        if it is None or not re.match(r"^\w+$", var):
            if has_memory(body):
                raise Unsupported("cannot interpret `%s` whose body has memory operations" % header)
            return
        for v in it:
            if var != "_":
                self.env[var] = v
            self.run(body)

    def iterable(self, rng):
        """`a..b`, `(a..b).map(|v| e)`, or an expression evaluating to a tracked range; None when untracked."""
        rng = rng.strip()
        mm = re.match(r"^\((.+)\)\.map\(\|\s*(\w+)\s*\|\s*(.+)\)$", rng)
        if mm:
            inner = self.iterable(mm.group(1))
            if inner is None:
                return None
            out = []
            for v in inner:
                saved = self.env.get(mm.group(2))
                self.env[mm.group(2)] = v
                r = self.try_ev(mm.group(3))
                if saved is None:
                    self.env.pop(mm.group(2), None)
                else:
                    self.env[mm.group(2)] = saved
                if r is None:
                    return None
                out.append(r)
            return out
        depth = 0
        for k in range(len(rng) - 1):
            c = rng[k]
            if c in "([":
                depth += 1
            elif c in ")]":
                depth -= 1
            elif c == "." and rng[k + 1] == "." and depth == 0:
                lo, hi = self.try_ev(rng[:k]), self.try_ev(rng[k + 2:].lstrip("="))
                if not isinstance(lo, int) or not isinstance(hi, int):
                    return None
                return range(lo, hi + (1 if rng[k + 2:k + 3] == "=" else 0))
        v = self.try_ev(rng)
        return v if isinstance(v, (RRange, range, list)) else None

    def while_loop(self, header, body):
        cond = header[len("while "):]
        fuel = 100000
        while True:
            v = self.ev(cond)
            if not v:
                return
            self.run(body)
            fuel -= 1
            if fuel == 0:
                raise Unsupported("while loop does not terminate: " + cond)

    @staticmethod
    def classify(s):
        """Statement text -> plan tuple (computed once per distinct statement)."""
        m = re.match(r"^(?:return\s+)?(\w+)(?:::<[^>]*>)?\(.*\)$", s)
        if m and m.group(1) in KERNEL_FNS:
            return ("enter", m.group(1))
        if s.startswith("return"):
            return ("return",)
        if s.startswith("panic!"):
            return ("panic", s[:60])
        if re.match(r"^(debug_)?assert(_eq|_ne)?!", s) or s.startswith("unpack!") or s.startswith("use ") \
                or s.startswith("_mm_sfence"):
            return ("skip",)
        m = re.match(r"^const\s+(\w+)\s*:\s*[\w:<> ]+=\s*(.+)$", s)
        if m:
            return ("const", m.group(1), m.group(2))
        m = re.match(r"^let\s+(?:mut\s+)?(\w+)\s*(?::\s*([^=]+?))?\s*=\s*(.+)$", s)
        if m:
            name, ty, rhs = m.group(1), m.group(2), m.group(3)
            has_mem = bool(MEM_RX.search(rhs))
            am = re.match(r"^\[\s*(\w+)\s*;\s*(\w+)\s*\]$", ty or "")
            if am:
                return ("array", name, rhs, has_mem, int(am.group(2), 0), SIZES[am.group(1)])
            gm = re.match(r"^GenericArray::<\s*(\w+)\s*,\s*C\s*>::default\(\)$", rhs)
            if gm:
                return ("garray", name, SIZES[gm.group(1)])
            opaque = has_mem or (bool(REG_RX.search(rhs)) and not POINTERISH.search(rhs))
            return ("let", name, rhs, has_mem, opaque, bool(POINTERISH.search(rhs)), s)
        m = re.match(r"^(\w+)\s*(\+=|-=|=)\s*(.+)$", s)
        if m:
            name, op, rhs = m.groups()
            has_mem = bool(MEM_RX.search(rhs))
            opaque = has_mem or (bool(REG_RX.search(rhs)) and not POINTERISH.search(rhs))
            return ("assign", name, op, rhs, has_mem, opaque, bool(POINTERISH.search(rhs)), s)
        m = re.match(r"^(?:return\s+)?(\w+)(?:::<[^>]*>)?\(.*\)$", s)
        if m and m.group(1) in KERNEL_FNS:
            return ("enter", m.group(1))
        if MEM_RX.search(s):
            return ("mem", s)
        m = re.match(r"^(\w+)\.(resize|reserve)\((.*)\)$", s)
        if m:
            return ("resize", m.group(1), m.group(2), m.group(3), s)
        if re.match(r"^\*?\w+(\[[^\]]*\])+\s*=", s) or s.startswith("*"):
            return ("skip",)        # safe indexing / assignment through a reference
        if POINTERISH.search(s) and not re.match(r"^(Some|None|Ok|x\.)", s):
            return ("error", "statement with pointer operations not interpreted: `%s`" % s)
        return ("skip",)            # expression statements of safe code (Some(..), None, iterator chains, ...)

    def stmt(self, s):
        plan = STMT_CACHE.get(s)
        if plan is None:
            plan = STMT_CACHE[s] = self.classify(s)
        kind = plan[0]
        if kind == "skip":
            return
        if kind == "mem":
            self.record_mem(plan[1])
        elif kind == "let":
            _, name, rhs, has_mem, opaque, ptrish, text = plan
            if has_mem:
                self.record_mem(rhs)
            if opaque:
                self.env[name] = OPAQUE
                return
            v = self.try_ev(rhs)
            if v is None:
                if ptrish:
                    raise Unsupported("cannot evaluate pointer expression `%s`" % text)
                v = OPAQUE
            self.env[name] = v
        elif kind == "assign":
            _, name, op, rhs, has_mem, opaque, ptrish, text = plan
            if has_mem:
                self.record_mem(rhs)
            if opaque:
                self.env[name] = OPAQUE
                return
            v = self.try_ev(rhs)
            if v is None:
                cur = self.env.get(name)
                if ptrish or isinstance(cur, Ptr) or (isinstance(cur, int) and not isinstance(cur, bool)):
                    raise Unsupported("cannot evaluate `%s`" % text)
                self.env[name] = OPAQUE
                return
            if op == "=":
                self.env[name] = v
            elif op == "+=":
                self.env[name] = self.env[name] + v
            else:
                self.env[name] = self.env[name] - v
        elif kind == "return":
            raise KernelReturn()
        elif kind == "panic":
            raise KernelPanic(plan[1])
        elif kind == "const":
            self.env[plan[1]] = self.ev(plan[2])
        elif kind == "array":
            _, name, rhs, has_mem, n, esz = plan
            if has_mem:
                self.record_mem(rhs)
            self.env[name] = LocalArray(n, esz)
        elif kind == "garray":
            self.env[plan[1]] = LocalArray(self.consts.get("C", 32), plan[2])
        elif kind == "enter":
            raise KernelEntered(plan[1])
        elif kind == "resize":
            _, name, meth, arg, text = plan
            if isinstance(self.env.get(name), (Matrix, Scores)):
                if meth == "resize":
                    self.env[name].resize(self.ev(split_args(arg)[0]))
            elif POINTERISH.search(text):
                raise Unsupported("statement with pointer operations not interpreted: `%s`" % text)
        elif kind == "error":
            raise Unsupported(plan[1])


# ------------------------------------------------------------------ kernels

def load_kernel(path_rel, name, repo=None):
    code = neutralise(open(os.path.join(repo or REPO, SRC, path_rel)).read())
    sig, b0, b1 = find_function(code, name, 0)
    nodes, _ = parse_block(code, b0 + 1)
    return nodes


def derive(kernel, p, repo=None, cache={}):
    """Access list of `kernel` for the parameter dict p, derived from the source text."""
    f, fn = KERNELS[kernel][0], KERNELS[kernel][1]
    key = (repo or REPO, f, fn)
    if key not in cache:
        cache[key] = load_kernel(f, fn, repo)
    consts = {"K": p.get("K", 5), "C": p.get("C", 32)}
    env = KERNELS[kernel][2](p)
    it = Interp(consts, env)
    try:
        it.run(cache[key])
    except KernelReturn:
        pass
    return it.accs


def env_encode(p):
    return {"seq": Slice(B_SRC, p["L"], 1), "dst": Slice(B_DST, p["L"], 1)}


def env_score(es):
    def mk(p):
        C = p.get("C", 32)
        return {
            "pssm": Matrix(B_PSSM, p["M"], p["pst"], es, p["K"]),
            "seq": Striped(Matrix(B_SRC, p["SR"], p["sst"], 1, C), p["L"], p["wrap"]),
            "rows": RRange(p["a"], p["b"]),
            "scores": Scores(Matrix(B_DST, p["b"] - p["a"], p["dst"], es, C)),
        }
    return mk


def env_max(es):
    def mk(p):
        return {"scores": Scores(Matrix(B_SRC, p["rows"], p["st"], es, p.get("C", 32)), p.get("maxidx", 0))}
    return mk


def env_stripe(p):
    return {"seq": Slice(B_SRC, p["L"], 1), "striped_matrix": Matrix(B_DST, p.get("rows0", 0), p["ost"], 1, 32)}


KERNELS = {
    "encode_into_avx2": ("pli/platform/avx2.rs", "encode_into_avx2", env_encode),
    "encode_into_sse2": ("pli/platform/sse2.rs", "encode_into_sse2", env_encode),
    "score_f32_avx2_permute": ("pli/platform/avx2.rs", "score_f32_avx2_permute", env_score(4)),
    "score_f32_avx2_gather": ("pli/platform/avx2.rs", "score_f32_avx2_gather", env_score(4)),
    "score_u8_avx2_shuffle": ("pli/platform/avx2.rs", "score_u8_avx2_shuffle", env_score(1)),
    "score_sse2": ("pli/platform/sse2.rs", "score_sse2", env_score(4)),
    "argmax_f32_avx2": ("pli/platform/avx2.rs", "argmax_f32_avx2", env_max(4)),
    "max_f32_avx2": ("pli/platform/avx2.rs", "max_f32_avx2", env_max(4)),
    "argmax_u8_avx2": ("pli/platform/avx2.rs", "argmax_u8_avx2", env_max(1)),
    "max_u8_avx2": ("pli/platform/avx2.rs", "max_u8_avx2", env_max(1)),
    "argmax_sse2": ("pli/platform/sse2.rs", "argmax_sse2", env_max(4)),
    "stripe_avx2": ("pli/platform/avx2.rs", "stripe_avx2", env_stripe),
    # NEON: never executed on this host — interpreted from the text like the others
    "encode_into_neon": ("pli/platform/neon.rs", "encode_into_neon", env_encode),
    "score_f32_neon": ("pli/platform/neon.rs", "score_f32_neon", env_score(4)),
    "score_u8_neon": ("pli/platform/neon.rs", "score_u8_neon", env_score(1)),
}


KERNEL_FNS = set(v[1] for v in KERNELS.values())

# safe wrappers whose guards are interpreted from the source (the NEON ones have no dynamic tie)
WRAPPERS = {
    "score_f32_neon": ("pli/platform/neon.rs", "score_f32_rows_into", env_score(4)),
    "score_u8_neon": ("pli/platform/neon.rs", "score_u8_rows_into", env_score(1)),
}


def wrapper_outcome(kernel, p, repo=None, cache={}):
    """What the safe wrapper in front of `kernel` does for the parameters p according to its source:
    2 = reaches the kernel call, 1 = returns early, 0 = panics."""
    f, fn, mkenv = WRAPPERS[kernel]
    key = (repo or REPO, f, fn)
    if key not in cache:
        cache[key] = load_kernel(f, fn, repo)
    env = mkenv(p)
    env["scores"] = Scores(Matrix(B_DST, 0, p["dst"], env["scores"].m.esz, p.get("C", 32)))
    it = Interp({"K": p.get("K", 5), "C": p.get("C", 32)}, env)
    try:
        it.run(cache[key])
    except KernelEntered:
        return 2
    except KernelReturn:
        return 1
    except KernelPanic:
        return 0
    raise Unsupported("wrapper %s ends without calling its kernel" % fn)


# ------------------------------------------------------------------ parameter grid

def stride(es, C):
    """DenseMatrix<T, C> stride in elements on x86_64 (rows are 32-byte aligned)."""
    return (es * C + 31) // 32 * 32 // es


def stride16(es, C):
    """DenseMatrix<T, C> stride in elements on Arm (rows are 16-byte aligned)."""
    return (es * C + 15) // 16 * 16 // es


def grid(tier="quick"):
    cases = []
    Ls = [0, 1, 15, 16, 17, 31, 32, 33, 47, 48, 63, 64, 65, 100, 127, 128, 129]
    if tier != "quick":
        Ls += list(range(130, 200, 7)) + [255, 256, 257, 511, 512, 1000]
    for L in Ls:
        cases.append(("encode_into_avx2", dict(L=L, K=5)))
        cases.append(("encode_into_sse2", dict(L=L, K=21)))
    sL = [0, 1, 31, 32, 33, 992, 993, 1000, 1023, 1024, 1025, 1055, 1056, 2017, 2047, 2048, 2049, 2080, 3071, 3105]
    if tier != "quick":
        sL += [991, 1016, 1057, 2050, 2111, 2112, 2113, 3072, 3073, 4095, 4096, 4097, 4200]
    for L in sL:
        cases.append(("stripe_avx2", dict(L=L, ost=32)))
    # scoring: (K, L, M, a, b) with SR = rows of the sequence + wrap rows, wrap = M - 1 (configured)
    sc = [(5, 64, 1, 0, 2), (5, 64, 3, 0, 2), (5, 64, 3, 1, 2), (5, 100, 5, 0, 4), (5, 100, 5, 3, 4),
          (5, 1000, 15, 0, 32), (5, 1000, 15, 30, 32), (5, 1000, 70, 5, 20), (5, 2049, 8, 64, 65)]
    if tier != "quick":
        sc += [(5, 4200, 30, 0, 132), (5, 993, 32, 0, 32), (5, 320, 10, 9, 10)]
    for (K, L, M, a, b) in sc:
        for C in (16, 32, 48):
            R = (L + C - 1) // C
            bb = min(b, R) if C == 32 else min(b * 32 // C + 1, R)
            aa = min(a, bb - 1) if bb > 0 else 0
            wrap = M - 1
            base = dict(L=L, M=M, a=aa, b=bb, SR=R + wrap, wrap=wrap, C=C, sst=stride(1, C))
            for KK in (5, 21):
                cases.append(("score_sse2", dict(base, K=KK, pst=stride(4, KK), dst=stride(4, C))))
            if C == 32:
                cases.append(("score_f32_avx2_permute", dict(base, K=5, pst=stride(4, 5), dst=32)))
                cases.append(("score_f32_avx2_gather", dict(base, K=21, pst=stride(4, 21), dst=32)))
                cases.append(("score_f32_avx2_gather", dict(base, K=5, pst=stride(4, 5), dst=32)))
                cases.append(("score_u8_avx2_shuffle", dict(base, K=5, pst=stride(1, 5), dst=32)))
    # NEON: Arm layout (rows 16-byte aligned).  `unranged=0`: the range ends inside the matrix;
    # `unranged=1`: the range reaches into the look-ahead rows with wrap >= M - 1, L >= M: the calls that the
    # NEON wrappers let through before commit 9cd9b52 (finding F26, witness 64 symbols / C=16 / M=3 / rows 0..6)
    # and must now refuse (wrapper outcome 0 in the source and in the model)
    for L in Ls:
        cases.append(("encode_into_neon", dict(L=L, K=5)))
    for (K, L, M, a, b) in sc[:6]:
        for C in (16, 32):
            R = (L + C - 1) // C
            wrap = M - 1
            bb = max(1, min(b, R))
            aa = min(a, bb - 1)
            base = dict(L=L, M=M, SR=R + wrap, wrap=wrap, C=C, sst=stride16(1, C))
            for (lo, hi, unr) in ((aa, bb, 0), (0, R + wrap, 1 if M > 1 else 0)):
                cases.append(("score_f32_neon", dict(base, a=lo, b=hi, unranged=unr, K=K, pst=stride16(4, K), dst=stride16(4, C))))
                cases.append(("score_f32_neon", dict(base, a=lo, b=hi, unranged=unr, K=21, pst=stride16(4, 21), dst=stride16(4, C))))
                cases.append(("score_u8_neon", dict(base, a=lo, b=hi, unranged=unr, K=K, pst=stride16(1, K), dst=stride16(1, C))))
    # guards of the NEON wrappers: wrap too small (panic), motif longer than the sequence / empty and inverted
    # ranges (early return).  (M = 0 is left out: `pssm.rows() - 1` underflows in usize, which this interpreter,
    # computing in unbounded integers, does not model; the Coq wrapper has Panic 2 for it.)
    for (L, M, wrap, lo, hi) in ((64, 3, 1, 0, 2), (64, 3, 0, 0, 2), (2, 3, 2, 0, 1), (64, 3, 2, 2, 2), (64, 3, 2, 3, 1),
                                 (64, 1, 0, 0, 4)):
        R = (L + 15) // 16
        base = dict(L=L, M=M, SR=R + wrap, wrap=wrap, C=16, sst=16, a=lo, b=hi, unranged=0, K=5)
        cases.append(("score_f32_neon", dict(base, pst=8, dst=16)))
        cases.append(("score_u8_neon", dict(base, pst=16, dst=16)))
    for rows in (1, 2, 3, 7, 32, 33, 100):
        cases.append(("argmax_f32_avx2", dict(rows=rows, st=32, maxidx=rows * 32)))
        cases.append(("max_f32_avx2", dict(rows=rows, st=32)))
        cases.append(("argmax_u8_avx2", dict(rows=rows, st=32)))
        cases.append(("max_u8_avx2", dict(rows=rows, st=32)))
        for C in (16, 32, 48):
            cases.append(("argmax_sse2", dict(rows=rows, st=stride(4, C), C=C, maxidx=rows * C)))
    return cases


def fmt(i, kernel, p, accs):
    accs = sorted(set(accs))      # compared as a set
    ps = " ".join("%s=%d" % (k, v) for k, v in sorted(p.items()))
    return "s%d kernel=%s %s accs=%s" % (i, kernel, ps, ",".join("%d:%d:%d:%s:%d" % a for a in accs) or "-")


def lines(tier="quick", repo=None):
    """(lines, errors): one line per grid case; a kernel that cannot be interpreted gives an error string."""
    out, errors = [], []
    bad = set()
    for i, (kernel, p) in enumerate(grid(tier)):
        if kernel in bad:
            continue
        try:
            if kernel in WRAPPERS:
                p = dict(p, entered=wrapper_outcome(kernel, p, repo))
            # (a call the wrapper does not let through has no footprint)
            accs = derive(kernel, p, repo) if p.get("entered", 2) == 2 else []
        except KernelPanic as e:
            errors.append("%s %s: kernel panics for in-contract parameters: %s" % (kernel, p, e))
            continue
        except (Unsupported, OSError, KeyError, ValueError) as e:
            errors.append("%s: source can no longer be interpreted: %s" % (kernel, e))
            bad.add(kernel)
            continue
        out.append(fmt(i, kernel, p, accs))
    return out, errors


if __name__ == "__main__":
    tier = sys.argv[1] if len(sys.argv) > 1 else "quick"
    ls, errs = lines(tier)
    for l in ls:
        print(l if len(l) < 400 else l[:400] + "...")
    for e in errs:
        print("ERROR", e)
