"""Translator for property C17 (group `pyglue`).

Re-extracts, from the repository's working tree on every run, the data-like parts of the
Python glue whose exact content the glue model relies on:

  lightmotif-py/lightmotif/lib.rs, io.rs
    * every `Py<Class>::new_err("message")` (also pyfile.rs): which exception class goes with which message;
    * every `#[pyo3(signature = (...))]` with the function it decorates: parameter names,
      the position of `*`, the default values (threshold = 0.0, block_size = 256, base = 2.0,
      method = "meme", format = "jaspar", protein = false, pseudocount/background/name = None);
    * the string arms of the `match method` of ScoringMatrix.pvalue / .score and of the
      `match format` of Loader.__init__ (with their `if protein` guards), in source order;
  lightmotif/src/abc.rs
    * the alphabet strings returned by `as_str()` for Dna and Protein.

and writes coq/pyglue/GenPySig.v (only if changed).  The theorem `py_signatures_tied` of
coq/pyglue/C17.v states that the constants used by the model are these.  Nothing here is
trusted for the property; what is trusted is that the regular expressions read the Rust
source the way rustc/PyO3 do.  A source that can no longer be parsed gives
dict(ok=False, errors=[...]) (a broken obligation) and leaves the previous file in place.
"""
import os
import re
import struct

REPO = os.environ.get("VERIF_REPO", "/repo").rstrip("/") or "/repo"   # same override as vlib/common.py
VERIF = os.path.dirname(os.path.dirname(os.path.abspath(__file__)))
OUT = os.path.join(VERIF, "coq", "pyglue", "GenPySig.v")


class ParseError(Exception):
    pass


def zs(text):
    return "[" + "; ".join(str(b) for b in text.encode("utf-8")) + "]"


def f32bits(lit):
    return struct.unpack("<I", struct.pack("<f", float(lit)))[0]


def signatures(src):
    """list of (impl context, fn name, [(param, default or None) ...], index of '*' or None)"""
    out = []
    impl = None
    pending = None
    for line in src.splitlines():
        m = re.match(r"^impl(?:<[^>]*>)?\s+(?:[\w:<>]+\s+for\s+)?(\w+)", line)
        if m:
            impl = m.group(1)
        m = re.search(r"#\[pyo3\(signature\s*=\s*\((.*)\)\)\]", line)
        if m:
            pending = m.group(1)
            continue
        m = re.match(r"^\s*(?:pub\s+)?(?:unsafe\s+)?fn\s+(\w+)", line)
        if m and pending is not None:
            params, star = [], None
            for k, part in enumerate(x.strip() for x in pending.split(",")):
                if part == "*":
                    star = len(params)
                    continue
                if "=" in part:
                    name, default = (y.strip() for y in part.split("=", 1))
                else:
                    name, default = part, None
                params.append((name, default))
            ctx = impl if re.match(r"^\s+", line) else None
            out.append((ctx, m.group(1), params, star))
            pending = None
    return out


def find_sig(sigs, ctx, fn):
    hits = [s for s in sigs if s[1] == fn and (ctx is None or s[0] == ctx)]
    if len(hits) != 1:
        raise ParseError("expected exactly one #[pyo3(signature)] for %s::%s, found %d" % (ctx, fn, len(hits)))
    return hits[0]


def default_of(sig, param):
    for name, d in sig[2]:
        if name == param:
            if d is None:
                raise ParseError("%s::%s: parameter %s has no default" % (sig[0], sig[1], param))
            return d
    raise ParseError("%s::%s: no parameter %s" % (sig[0], sig[1], param))


def fn_body(src, header_re):
    m = re.search(header_re, src)
    if not m:
        raise ParseError("function not found: " + header_re)
    i = src.index("{", m.end())
    depth, j = 0, i
    while j < len(src):
        if src[j] == "{":
            depth += 1
        elif src[j] == "}":
            depth -= 1
            if depth == 0:
                return src[i:j + 1]
        j += 1
    raise ParseError("unbalanced braces after " + header_re)


def string_arms(body, scrutinee):
    m = re.search(r"match\s+%s\s*\{" % re.escape(scrutinee), body)
    if not m:
        raise ParseError("no `match %s`" % scrutinee)
    arms = []
    depth = 0
    i = m.end()
    start = i
    # top-level arms only
    seg = []
    while i < len(body):
        c = body[i]
        if c == "{" or c == "(":
            depth += 1
        elif c == "}" or c == ")":
            if depth == 0:
                break
            depth -= 1
        if depth == 0:
            seg.append((i, c))
        i += 1
    text = body[start:i]
    # arms begin at depth 0 with a string literal pattern
    depth = 0
    k = 0
    while k < len(text):
        c = text[k]
        if c in "{(":
            depth += 1
        elif c in "})":
            depth -= 1
        elif depth == 0 and c == '"':
            m2 = re.match(r'"([^"]*)"\s*(if\s+(\w+)\s*)?=>', text[k:])
            if m2:
                if arms:
                    arms[-1] = arms[-1][:2] + (text[arms[-1][2]:k],)
                arms.append((m2.group(1), m2.group(3), k + m2.end()))
                k += m2.end()
                continue
            # skip the literal
            e = text.index('"', k + 1)
            k = e
        k += 1
    if arms:
        arms[-1] = arms[-1][:2] + (text[arms[-1][2]:],)
    return arms


def arm_target(body):
    """what an arm of `match format` does"""
    m = re.search(r"lightmotif_io::(\w+)::read(?:::<_,\s*(\w+)>)?\(", body)
    if m:
        alpha = m.group(2) or "Dna"
        if alpha not in ("Dna", "Protein"):
            raise ParseError("unknown alphabet in loader arm: " + alpha)
        return "Some (%s, %s)" % (zs(m.group(1)), "true" if alpha == "Protein" else "false")
    if re.search(r"return\s+Err\(\s*PyValueError", body):
        return "None"
    raise ParseError("loader arm not understood: " + body[:80])


def exc_sites(src):
    """(message, exception class) of every `Py<Class>::new_err(...)` in source order; the message is the first
    string literal inside the call (up to the first `{` of a format string), "" when the argument is not a literal"""
    out = []
    for m in re.finditer(r"\bPy(\w+?)(?:Error|Exception)?::new_err\(", src):
        cls = re.match(r"Py(\w+)::new_err", src[m.start():]).group(1)
        # the argument text up to the matching parenthesis
        depth, j = 1, m.end()
        while j < len(src) and depth:
            if src[j] == "(":
                depth += 1
            elif src[j] == ")":
                depth -= 1
            j += 1
        arg = src[m.end():j - 1]
        lit = re.search(r'"((?:[^"\\]|\\.)*)"', arg)
        msg = lit.group(1) if lit else ""
        msg = msg.split("{")[0].strip().rstrip(":").strip()
        out.append((msg, cls))
    return out


def translate():
    errors, notes = [], []
    try:
        lib = open(os.path.join(REPO, "lightmotif-py/lightmotif/lib.rs")).read()
        io = open(os.path.join(REPO, "lightmotif-py/lightmotif/io.rs")).read()
        abc = open(os.path.join(REPO, "lightmotif/src/abc.rs")).read()
        pyfile = open(os.path.join(REPO, "lightmotif-py/lightmotif/pyfile.rs")).read()
        sites = exc_sites(lib) + exc_sites(io) + exc_sites(pyfile)
        if len(sites) < 20:
            raise ParseError("only %d `Py...::new_err` sites found in lib.rs / io.rs / pyfile.rs" % len(sites))
        for msg, cls in sites:
            if not re.match(r"^\w+$", cls):
                raise ParseError("exception class not understood: " + cls)
        sl, si = signatures(lib), signatures(io)
        scanner = find_sig(sl, "Scanner", "__init__")
        scan = find_sig(sl, None, "scan")
        log_odds = find_sig(sl, "WeightMatrix", "log_odds")
        pvalue = find_sig(sl, "ScoringMatrix", "pvalue")
        score = find_sig(sl, "ScoringMatrix", "score")
        normalize = find_sig(sl, "CountMatrix", "normalize")
        count_init = find_sig(sl, "CountMatrix", "__init__")
        scoring_init = find_sig(sl, "ScoringMatrix", "__init__")
        create = find_sig(sl, None, "create")
        stripe = find_sig(sl, None, "stripe")
        encoded = find_sig(sl, "EncodedSequence", "__init__")
        loader = find_sig(si, "Loader", "__init__")
        load = find_sig(si, None, "load")

        def strlit(x):
            m = re.match(r'^"([^"]*)"$', x)
            if not m:
                raise ParseError("not a string literal: " + x)
            return m.group(1)

        def boollit(x):
            if x not in ("true", "false"):
                raise ParseError("not a bool literal: " + x)
            return x

        def is_none(x):
            return "true" if x == "None" else "false"

        dna = re.search(r'impl Alphabet for Dna\b.*?fn as_str\(\)\s*->\s*&\'static str\s*\{\s*"(\w+)"', abc, re.S)
        prot = re.search(r'impl Alphabet for Protein\b.*?fn as_str\(\)\s*->\s*&\'static str\s*\{\s*"(\w+)"', abc, re.S)
        if not dna or not prot:
            raise ParseError("alphabet strings not found in abc.rs")
        pv_arms = string_arms(fn_body(lib, r"pub fn pvalue\(slf: Bound<'_, Self>, score: f64, method: &str\)"), "method")
        sc_arms = string_arms(fn_body(lib, r"pub fn score\(slf: Bound<'_, Self>, pvalue: f64, method: &str\)"), "method")
        ld_body = fn_body(io, r"pub fn __init__\(\s*file: Bound<PyAny>,\s*format: &str,\s*protein: bool,\s*\)")
        ld_arms = string_arms(ld_body[ld_body.index("let reader"):], "format")
        protein_defaults = [boollit(default_of(s, "protein")) for s in (count_init, scoring_init, create, stripe, loader, load, encoded)]
        lines = [
            "(* GENERATED by translate/pyglue_sig.py from lightmotif-py/lightmotif/{lib.rs,io.rs} and",
            "   lightmotif/src/abc.rs - do not edit; regenerated (write-if-changed) on every check of C17 *)",
            "From Coq Require Import ZArith List.",
            "Import ListNotations.",
            "Open Scope Z_scope.",
            "",
            "Definition gen_dna_symbols : list Z := %s." % zs(dna.group(1)),
            "Definition gen_protein_symbols : list Z := %s." % zs(prot.group(1)),
            "(* Scanner.__init__(pssm, sequence, threshold, block_size) and scan(pssm, sequence, *, threshold, block_size) *)",
            "Definition gen_scanner_params : list (list Z) := [%s]." % "; ".join(zs(n) for n, _ in scanner[2]),
            "Definition gen_scanner_threshold : Z := %d.   (* f32 bits of %s *)" % (f32bits(default_of(scanner, "threshold")), default_of(scanner, "threshold")),
            "Definition gen_scanner_block_size : Z := %d." % int(default_of(scanner, "block_size")),
            "Definition gen_scan_params : list (list Z) := [%s]." % "; ".join(zs(n) for n, _ in scan[2]),
            "Definition gen_scan_threshold : Z := %d." % f32bits(default_of(scan, "threshold")),
            "Definition gen_scan_block_size : Z := %d." % int(default_of(scan, "block_size")),
            "(* WeightMatrix.log_odds(background=None, base=2.0) *)",
            "Definition gen_log_odds_params : list (list Z) := [%s]." % "; ".join(zs(n) for n, _ in log_odds[2]),
            "Definition gen_log_odds_background_none : bool := %s." % is_none(default_of(log_odds, "background")),
            "Definition gen_log_odds_base : Z := %d.   (* f32 bits of %s *)" % (f32bits(default_of(log_odds, "base")), default_of(log_odds, "base")),
            "(* ScoringMatrix.pvalue(score, method) / score(pvalue, method) *)",
            "Definition gen_pvalue_method : list Z := %s." % zs(strlit(default_of(pvalue, "method"))),
            "Definition gen_score_method : list Z := %s." % zs(strlit(default_of(score, "method"))),
            "Definition gen_pvalue_arms : list (list Z) := [%s]." % "; ".join(zs(a) for a, _, _ in pv_arms),
            "Definition gen_score_arms : list (list Z) := [%s]." % "; ".join(zs(a) for a, _, _ in sc_arms),
            "(* load / Loader(file, format, *, protein): default format, arms of `match format` (true = `if protein`) *)",
            "Definition gen_load_format : list Z := %s." % zs(strlit(default_of(load, "format"))),
            "Definition gen_loader_format : list Z := %s." % zs(strlit(default_of(loader, "format"))),
            "(* (format string, guarded by `if protein`, what the arm does: None = return Err(ValueError),",
            "   Some (reader module of lightmotif_io, reads the Protein alphabet)) *)",
            "Definition gen_loader_arms : list (list Z * bool * option (list Z * bool)) := [%s]." % "; ".join(
                "(%s, %s, %s)" % (zs(a), "true" if g == "protein" else "false", arm_target(b)) for a, g, b in ld_arms),
            "(* protein = false everywhere; pseudocount / name default to None *)",
            "Definition gen_protein_defaults : list bool := [%s]." % "; ".join(protein_defaults),
            "Definition gen_normalize_pseudocount_none : bool := %s." % is_none(default_of(normalize, "pseudocount")),
            "Definition gen_scoring_init_background_none : bool := %s." % is_none(default_of(scoring_init, "background")),
            "Definition gen_create_name_none : bool := %s." % is_none(default_of(create, "name")),
            "(* EncodedSequence(sequence, protein=false): `protein` may be given by position (no `*`) *)",
            "Definition gen_encoded_params : list (list Z) := [%s]." % "; ".join(zs(n) for n, _ in encoded[2]),
            "Definition gen_encoded_keyword_only : bool := %s." % ("false" if encoded[3] is None else "true"),
            "(* every `Py<Class>::new_err(\"message ...\")` of lib.rs, io.rs, pyfile.rs in source order: (message up to the",
            "   first `{`, class) *)",
            "Definition gen_exc_sites : list (list Z * list Z) := [%s]." % "; ".join("(%s, %s)" % (zs(m_), zs(c_)) for m_, c_ in sites),
            "",
        ]
        for g in (a for a, gd, _ in ld_arms if gd not in (None, "protein")):
            raise ParseError("unexpected guard in match format: " + str(g))
        text = "\n".join(lines)
        from vlib import common as C
        if C.write_if_changed(OUT, text):
            notes.append("translate/pyglue_sig.py: coq/pyglue/GenPySig.v rewritten")
    except (ParseError, OSError, ValueError) as e:
        errors.append("pyglue_sig: %s" % (e,))
    return dict(ok=not errors, errors=errors, notes=notes)


if __name__ == "__main__":
    import sys
    sys.path.insert(0, VERIF)
    print(translate())
    print(open(OUT).read())
