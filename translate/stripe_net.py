"""Translator for property C04: /repo source -> coq/stripe/GenStripeNet.v.

Reads, from the working tree of /repo,
  * lightmotif/src/pli/platform/avx2.rs, function `stripe_avx2`:
      - the arms of the local macro `unpack!` (which pair of intrinsics each
        kind expands to, with the immediate of permute2x128),
      - inside the block loop (text between `while i +` and `out = out.add`):
        the 32 vector loads (register, multiplier of src_stride) in order, the
        sequence of `unpack!(kind, ra, rb)` invocations, the 32 stores
        (multiplier of out_stride, register) in order;
  * lightmotif/src/pli/dispatch.rs: the arm -> kernel table of
    `impl Stripe for Pipeline<A, Dispatch>`.
and writes them as plain data (lists of constructors) for the Coq development.
The semantics of the intrinsics is in coq/stripe/NetModel.v; that the translated
network transposes is re-proved from this file on every run
(NetProofs.transpose_net_correct).

Anything that does not have the expected shape (an unknown statement in the
loop body, a macro arm that is not `let t = $a; $a = F(t,$b..); $b = G(t,$b..);`,
loads/unpacks/stores interleaved, ...) makes `translate()` return ok=False: the
check then treats the network obligation as broken (it does not crash) and keeps
the previously generated file for the correspondence run.
"""
import os
import re
import sys

VERIF = os.path.dirname(os.path.dirname(os.path.abspath(__file__)))
REPO = os.environ.get("VERIF_REPO", "/repo").rstrip("/") or "/repo"   # same override as vlib/common.py
AVX2 = os.path.join(REPO, "lightmotif/src/pli/platform/avx2.rs")
DISPATCH = os.path.join(REPO, "lightmotif/src/pli/dispatch.rs")
OUT = os.path.join(VERIF, "coq", "stripe", "GenStripeNet.v")


class ParseError(Exception):
    pass


def _strip_comments(src):
    src = re.sub(r"/\*.*?\*/", " ", src, flags=re.S)
    src = re.sub(r"//[^\n]*", " ", src)
    return src


def _num(tok):
    tok = tok.strip().replace("_", "")
    return int(tok, 16) if tok.lower().startswith("0x") else int(tok)


def _function_body(src, name):
    m = re.search(r"\bfn\s+%s\b" % re.escape(name), src)
    if not m:
        raise ParseError("function %s not found" % name)
    i = src.index("{", src.index(")", m.end()))
    # the where-clause may precede the body: find the first '{' that opens the body
    # (generic bounds contain no braces)
    depth = 0
    j = i
    while j < len(src):
        if src[j] == "{":
            depth += 1
        elif src[j] == "}":
            depth -= 1
            if depth == 0:
                return src[i + 1:j]
        j += 1
    raise ParseError("unbalanced braces in %s" % name)


INTRINSICS = {
    "_mm256_unpacklo_epi8": ("IUnpackLo", 8), "_mm256_unpackhi_epi8": ("IUnpackHi", 8),
    "_mm256_unpacklo_epi16": ("IUnpackLo", 16), "_mm256_unpackhi_epi16": ("IUnpackHi", 16),
    "_mm256_unpacklo_epi32": ("IUnpackLo", 32), "_mm256_unpackhi_epi32": ("IUnpackHi", 32),
    "_mm256_unpacklo_epi64": ("IUnpackLo", 64), "_mm256_unpackhi_epi64": ("IUnpackHi", 64),
    "_mm256_permute2x128_si256": ("IPerm2x128", None),
}


def _parse_call(expr, what):
    m = re.fullmatch(r"\s*(\w+)\s*\(\s*t\s*,\s*\$b\s*(?:,\s*([0-9xXa-fA-F_]+)\s*)?\)\s*", expr)
    if not m:
        raise ParseError("macro arm %s: right-hand side %r is not F(t, $b[, imm])" % (what, expr.strip()))
    f, imm = m.group(1), m.group(2)
    if f not in INTRINSICS:
        raise ParseError("macro arm %s: unknown intrinsic %s" % (what, f))
    ctor, w = INTRINSICS[f]
    if w is None:
        if imm is None:
            raise ParseError("macro arm %s: %s without immediate" % (what, f))
        return "%s %d" % (ctor, _num(imm))
    if imm is not None:
        raise ParseError("macro arm %s: unexpected immediate for %s" % (what, f))
    return "%s %d" % (ctor, w)


def parse_macro(body):
    m = re.search(r"macro_rules!\s*unpack\s*\{", body)
    if not m:
        raise ParseError("macro unpack! not found in stripe_avx2")
    i = m.end() - 1
    depth = 0
    j = i
    while j < len(body):
        if body[j] == "{":
            depth += 1
        elif body[j] == "}":
            depth -= 1
            if depth == 0:
                break
        j += 1
    text = body[i + 1:j]
    arms = {}
    for am in re.finditer(r"\(\s*(\w+)\s*,\s*\$a:ident\s*,\s*\$b:ident\s*\)\s*=>\s*\{\{(.*?)\}\}\s*;?", text, re.S):
        kind, stmts = am.group(1), am.group(2)
        parts = [p.strip() for p in stmts.split(";") if p.strip()]
        if len(parts) != 3 or not re.fullmatch(r"let\s+t\s*=\s*\$a", parts[0]):
            raise ParseError("macro arm %s does not have the shape `let t = $a; $a = ..; $b = ..;`" % kind)
        ma = re.fullmatch(r"\$a\s*=(.*)", parts[1], re.S)
        mb = re.fullmatch(r"\$b\s*=(.*)", parts[2], re.S)
        if not ma or not mb:
            raise ParseError("macro arm %s: assignments are not `$a = ..; $b = ..;`" % kind)
        arms[kind] = (_parse_call(ma.group(1), kind + "/$a"), _parse_call(mb.group(1), kind + "/$b"))
    rest = re.sub(r"\(\s*(\w+)\s*,\s*\$a:ident\s*,\s*\$b:ident\s*\)\s*=>\s*\{\{(.*?)\}\}\s*;?", "", text, flags=re.S)
    if rest.strip():
        raise ParseError("unrecognised text in macro unpack!: %r" % rest.strip()[:80])
    if not arms:
        raise ParseError("macro unpack! has no arms")
    return arms, body[:m.start()] + body[j + 1:]


LOAD_RE = re.compile(
    r"let\s+mut\s+(\w+)\s*=\s*_mm256_loadu_si256\s*\(\s*src\s*\.\s*add\s*\(\s*([0-9xXa-fA-F_]+)\s*\*\s*src_stride\s*\)\s*as\s*_\s*\)\s*;")
UNPACK_RE = re.compile(r"unpack!\s*\(\s*(\w+)\s*,\s*(\w+)\s*,\s*(\w+)\s*\)\s*;")
STORE_RE = re.compile(
    r"(_mm256_stream_si256|_mm256_store_si256|_mm256_storeu_si256)\s*\(\s*out\s*\.\s*add\s*\(\s*([0-9xXa-fA-F_]+)\s*\*\s*out_stride\s*\)\s*as\s*_\s*,\s*(\w+)\s*\)\s*;")


def parse_block(body):
    m = re.search(r"while\s+i\s*\+", body)
    if not m:
        raise ParseError("block loop `while i + ...` not found")
    e = body.find("out = out.add", m.end())
    if e < 0:
        raise ParseError("end of the block loop body (`out = out.add`) not found")
    seg = body[m.start():e]
    b = seg.find("{")
    if b < 0:
        raise ParseError("block loop has no body")
    cond, inner = seg[:b], seg[b + 1:]
    loads = [(x.start(), x.group(1), _num(x.group(2))) for x in LOAD_RE.finditer(inner)]
    unpacks = [(x.start(), x.group(1), x.group(2), x.group(3)) for x in UNPACK_RE.finditer(inner)]
    stores = [(x.start(), _num(x.group(2)), x.group(3)) for x in STORE_RE.finditer(inner)]
    rest = STORE_RE.sub("", UNPACK_RE.sub("", LOAD_RE.sub("", inner)))
    if rest.strip():
        raise ParseError("unrecognised statement in the block loop: %r" % rest.strip()[:100])
    if not loads or not stores:
        raise ParseError("no loads/stores found in the block loop")
    if unpacks and not (max(l[0] for l in loads) < min(u[0] for u in unpacks) and
                        max(u[0] for u in unpacks) < min(s[0] for s in stores)):
        raise ParseError("loads, unpack! invocations and stores are interleaved")
    if max(l[0] for l in loads) > min(s[0] for s in stores):
        raise ParseError("a load follows a store")
    regs = {}
    for _, name, _k in loads:
        if name in regs:
            raise ParseError("register %s loaded twice" % name)
        regs[name] = len(regs)
    for _, kind, a, b2 in unpacks:
        for r in (a, b2):
            if r not in regs:
                raise ParseError("unpack! uses undeclared register %s" % r)
    for _, _k, r in stores:
        if r not in regs:
            raise ParseError("store of undeclared register %s" % r)
    return dict(cond=" ".join(cond.split()),
                loads=[(regs[n], k) for _, n, k in loads],
                unpacks=[(kind, regs[a], regs[b2]) for _, kind, a, b2 in unpacks],
                stores=[(k, regs[r]) for _, k, r in stores],
                nregs=len(regs))


def parse_dispatch(src):
    m = re.search(r"impl\s*<\s*A\s*:\s*Alphabet\s*>\s*Stripe\s*<[^{]*?for\s+Pipeline\s*<\s*A\s*,\s*Dispatch\s*>\s*\{", src, re.S)
    if not m:
        raise ParseError("impl Stripe for Pipeline<A, Dispatch> not found")
    i = m.end() - 1
    depth = 0
    j = i
    while j < len(src):
        if src[j] == "{":
            depth += 1
        elif src[j] == "}":
            depth -= 1
            if depth == 0:
                break
        j += 1
    text = src[i:j]
    mm = re.search(r"match\s+self\s*\.\s*backend\s*\{(.*)\}", text, re.S)
    if not mm:
        raise ParseError("`match self.backend` not found in the dispatching stripe_into")
    arms_txt = mm.group(1)
    table = {}
    default = None
    for am in re.finditer(r"(Dispatch::(\w+)|_)\s*=>\s*(<\s*(\w+)\s+as\s+Stripe|(\w+)\s*::\s*stripe_into)", arms_txt):
        target = am.group(4) or am.group(5)
        if target not in ("Generic", "Avx2"):
            raise ParseError("dispatch arm targets unknown kernel %s" % target)
        if am.group(1) == "_":
            default = target
        else:
            table[am.group(2)] = target
    out = {}
    for arm in ("Generic", "Sse2", "Avx2"):
        if arm in table:
            out[arm] = table[arm]
        elif default is not None:
            out[arm] = default
        else:
            raise ParseError("dispatch arm %s has no kernel" % arm)
    return out


def render(arms, blk, disp):
    L = []
    L.append("(* GENERATED by translate/stripe_net.py from /repo/lightmotif/src/pli/platform/avx2.rs")
    L.append("   (stripe_avx2) and pli/dispatch.rs -- do not edit; regenerated on every check. *)")
    L.append("From Coq Require Import List.")
    L.append("From LMStripe Require Import NetModel.")
    L.append("Import ListNotations.")
    L.append("")
    L.append("(* block loop condition as written (informative only): %s *)" % blk["cond"].replace("*)", "* )"))
    L.append("")
    L.append("(* (register, K) for `let mut r = _mm256_loadu_si256(src.add(K * src_stride))`, in order *)")
    L.append("Definition net_loads : list (nat * nat) :=")
    L.append("  [" + "; ".join("(%d, %d)" % p for p in blk["loads"]) + "].")
    L.append("")
    L.append("(* the unpack! invocations after macro expansion, in order *)")
    L.append("Definition net_ops : list nop :=")
    items = []
    for kind, a, b in blk["unpacks"]:
        if kind not in arms:
            raise ParseError("unpack! kind %s has no macro arm" % kind)
        f1, f2 = arms[kind]
        items.append("NPair (%s) (%s) %d %d" % (f1, f2, a, b))
    L.append("  [" + ";\n   ".join(items) + "].")
    L.append("")
    L.append("(* (K, register) for `_mm256_stream_si256(out.add(K * out_stride), r)`, in order *)")
    L.append("Definition net_stores : list (nat * nat) :=")
    L.append("  [" + "; ".join("(%d, %d)" % p for p in blk["stores"]) + "].")
    L.append("")
    L.append("(* Pipeline<A, Dispatch>::stripe_into: kernel run by each arm *)")
    L.append("Definition disp_stripe (a : arm) : kernel :=")
    L.append("  match a with")
    for arm, c in (("Generic", "AGeneric"), ("Sse2", "ASse2"), ("Avx2", "AAvx2")):
        L.append("  | %s => K%s" % (c, disp[arm]))
    L.append("  end.")
    L.append("")
    return "\n".join(L)


def translate(write=True):
    notes, errors = [], []
    try:
        src = _strip_comments(open(AVX2).read())
        body = _function_body(src, "stripe_avx2")
        arms, body2 = parse_macro(body)
        blk = parse_block(body2)
        disp = parse_dispatch(_strip_comments(open(DISPATCH).read()))
        text = render(arms, blk, disp)
    except (ParseError, OSError, ValueError) as e:
        errors.append("stripe_net: cannot parse the source: %s" % e)
        if not os.path.exists(OUT):
            errors.append("no previously generated GenStripeNet.v")
        return dict(ok=False, notes=notes, errors=errors)
    changed = False
    if write:
        try:
            old = open(OUT).read()
        except OSError:
            old = None
        if old != text:
            with open(OUT, "w") as f:
                f.write(text)
            changed = True
    notes.append("stripe_net: %d loads, %d unpack ops, %d stores, dispatch %s%s" % (
        len(blk["loads"]), len(blk["unpacks"]), len(blk["stores"]),
        ",".join("%s->%s" % kv for kv in sorted(disp.items())), " (regenerated)" if changed else ""))
    return dict(ok=True, notes=notes, errors=errors)


if __name__ == "__main__":
    r = translate()
    print(r)
    sys.exit(0 if r["ok"] else 1)
