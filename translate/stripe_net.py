"""Translator for property C04: /repo source -> coq/stripe/GenStripeNet.v.

Reads, from the working tree of /repo,
  * lightmotif/src/pli/platform/avx2.rs, function `stripe_avx2`:
      - the arms of the local macro `unpack!` (which pair of intrinsics each
        kind expands to, with the immediate of permute2x128),
      - inside the block loop (text between `while i +` and `out = out.add`):
        the 32 vector loads (register, multiplier of src_stride) in order, the
        sequence of `unpack!(kind, ra, rb)` invocations, the 32 stores
        (multiplier of out_stride, register) in order;
  * lightmotif/src/pli/dispatch.rs: the arm -> kernel table of
    `impl Stripe for Pipeline<A, Dispatch>`.
and writes them as plain data (lists of constructors) for the Coq development.
The semantics of the intrinsics is in coq/stripe/NetModel.v; that the translated
network transposes is re-proved from this file on every run
(NetProofs.transpose_net_correct).

Anything that does not have the expected shape (an unknown statement in the
loop body, a macro arm that is not `let t = $a; $a = F(t,$b..); $b = G(t,$b..);`,
loads/unpacks/stores interleaved, ...) makes `translate()` return ok=False: the
check then treats the network obligation as broken (it does not crash) and keeps
the previously generated file for the correspondence run.
"""
import os
import re
import sys

VERIF = os.path.dirname(os.path.dirname(os.path.abspath(__file__)))
REPO = os.environ.get("VERIF_REPO", "/repo").rstrip("/") or "/repo"   # same override as vlib/common.py
AVX2 = os.path.join(REPO, "lightmotif/src/pli/platform/avx2.rs")
DISPATCH = os.path.join(REPO, "lightmotif/src/pli/dispatch.rs")
OUT = os.path.join(VERIF, "coq", "stripe", "GenStripeNet.v")


class ParseError(Exception):
    pass


def _strip_comments(src):
    src = re.sub(r"/\*.*?\*/", " ", src, flags=re.S)
    src = re.sub(r"//[^\n]*", " ", src)
    return src


def _num(tok):
    tok = tok.strip().replace("_", "")
    return int(tok, 16) if tok.lower().startswith("0x") else int(tok)


def _function_body(src, name):
    m = re.search(r"\bfn\s+%s\b" % re.escape(name), src)
    if not m:
        raise ParseError("function %s not found" % name)
    i = src.index("{", src.index(")", m.end()))
    # the where-clause may precede the body: find the first '{' that opens the body
    # (generic bounds contain no braces)
    depth = 0
    j = i
    while j < len(src):
        if src[j] == "{":
            depth += 1
        elif src[j] == "}":
            depth -= 1
            if depth == 0:
                return src[i + 1:j]
        j += 1
    raise ParseError("unbalanced braces in %s" % name)


INTRINSICS = {
    "_mm256_unpacklo_epi8": ("IUnpackLo", 8), "_mm256_unpackhi_epi8": ("IUnpackHi", 8),
    "_mm256_unpacklo_epi16": ("IUnpackLo", 16), "_mm256_unpackhi_epi16": ("IUnpackHi", 16),
    "_mm256_unpacklo_epi32": ("IUnpackLo", 32), "_mm256_unpackhi_epi32": ("IUnpackHi", 32),
    "_mm256_unpacklo_epi64": ("IUnpackLo", 64), "_mm256_unpackhi_epi64": ("IUnpackHi", 64),
    "_mm256_permute2x128_si256": ("IPerm2x128", None),
}


def _parse_call(expr, what):
    m = re.fullmatch(r"\s*(\w+)\s*\(\s*t\s*,\s*\$b\s*(?:,\s*([0-9xXa-fA-F_]+)\s*)?\)\s*", expr)
    if not m:
        raise ParseError("macro arm %s: right-hand side %r is not F(t, $b[, imm])" % (what, expr.strip()))
    f, imm = m.group(1), m.group(2)
    if f not in INTRINSICS:
        raise ParseError("macro arm %s: unknown intrinsic %s" % (what, f))
    ctor, w = INTRINSICS[f]
    if w is None:
        if imm is None:
            raise ParseError("macro arm %s: %s without immediate" % (what, f))
        return "%s %d" % (ctor, _num(imm))
    if imm is not None:
        raise ParseError("macro arm %s: unexpected immediate for %s" % (what, f))
    return "%s %d" % (ctor, w)


def parse_macro(body):
    m = re.search(r"macro_rules!\s*unpack\s*\{", body)
    if not m:
        raise ParseError("macro unpack! not found in stripe_avx2")
    i = m.end() - 1
    depth = 0
    j = i
    while j < len(body):
        if body[j] == "{":
            depth += 1
        elif body[j] == "}":
            depth -= 1
            if depth == 0:
                break
        j += 1
    text = body[i + 1:j]
    arms = {}
    for am in re.finditer(r"\(\s*(\w+)\s*,\s*\$a:ident\s*,\s*\$b:ident\s*\)\s*=>\s*\{\{(.*?)\}\}\s*;?", text, re.S):
        kind, stmts = am.group(1), am.group(2)
        parts = [p.strip() for p in stmts.split(";") if p.strip()]
        if len(parts) != 3 or not re.fullmatch(r"let\s+t\s*=\s*\$a", parts[0]):
            raise ParseError("macro arm %s does not have the shape `let t = $a; $a = ..; $b = ..;`" % kind)
        ma = re.fullmatch(r"\$a\s*=(.*)", parts[1], re.S)
        mb = re.fullmatch(r"\$b\s*=(.*)", parts[2], re.S)
        if not ma or not mb:
            raise ParseError("macro arm %s: assignments are not `$a = ..; $b = ..;`" % kind)
        arms[kind] = (_parse_call(ma.group(1), kind + "/$a"), _parse_call(mb.group(1), kind + "/$b"))
    rest = re.sub(r"\(\s*(\w+)\s*,\s*\$a:ident\s*,\s*\$b:ident\s*\)\s*=>\s*\{\{(.*?)\}\}\s*;?", "", text, flags=re.S)
    if rest.strip():
        raise ParseError("unrecognised text in macro unpack!: %r" % rest.strip()[:80])
    if not arms:
        raise ParseError("macro unpack! has no arms")
    return arms, body[:m.start()] + body[j + 1:]


LOAD_RE = re.compile(
    r"let\s+mut\s+(\w+)\s*=\s*_mm256_loadu_si256\s*\(\s*src\s*\.\s*add\s*\(\s*([0-9xXa-fA-F_]+)\s*\*\s*src_stride\s*\)\s*as\s*_\s*\)\s*;")
UNPACK_RE = re.compile(r"unpack!\s*\(\s*(\w+)\s*,\s*(\w+)\s*,\s*(\w+)\s*\)\s*;")
STORE_RE = re.compile(
    r"(_mm256_stream_si256|_mm256_store_si256|_mm256_storeu_si256)\s*\(\s*out\s*\.\s*add\s*\(\s*([0-9xXa-fA-F_]+)\s*\*\s*out_stride\s*\)\s*as\s*_\s*,\s*(\w+)\s*\)\s*;")


def parse_block(body):
    m = re.search(r"while\s+i\s*\+", body)
    if not m:
        raise ParseError("block loop `while i + ...` not found")
    e = body.find("out = out.add", m.end())
    if e < 0:
        raise ParseError("end of the block loop body (`out = out.add`) not found")
    seg = body[m.start():e]
    b = seg.find("{")
    if b < 0:
        raise ParseError("block loop has no body")
    cond, inner = seg[:b], seg[b + 1:]
    loads = [(x.start(), x.group(1), _num(x.group(2))) for x in LOAD_RE.finditer(inner)]
    unpacks = [(x.start(), x.group(1), x.group(2), x.group(3)) for x in UNPACK_RE.finditer(inner)]
    stores = [(x.start(), _num(x.group(2)), x.group(3)) for x in STORE_RE.finditer(inner)]
    rest = STORE_RE.sub("", UNPACK_RE.sub("", LOAD_RE.sub("", inner)))
    if rest.strip():
        raise ParseError("unrecognised statement in the block loop: %r" % rest.strip()[:100])
    if not loads or not stores:
        raise ParseError("no loads/stores found in the block loop")
    if unpacks and not (max(l[0] for l in loads) < min(u[0] for u in unpacks) and
                        max(u[0] for u in unpacks) < min(s[0] for s in stores)):
        raise ParseError("loads, unpack! invocations and stores are interleaved")
    if max(l[0] for l in loads) > min(s[0] for s in stores):
        raise ParseError("a load follows a store")
    regs = {}
    for _, name, _k in loads:
        if name in regs:
            raise ParseError("register %s loaded twice" % name)
        regs[name] = len(regs)
    for _, kind, a, b2 in unpacks:
        for r in (a, b2):
            if r not in regs:
                raise ParseError("unpack! uses undeclared register %s" % r)
    for _, _k, r in stores:
        if r not in regs:
            raise ParseError("store of undeclared register %s" % r)
    return dict(cond=" ".join(cond.split()),
                loads=[(regs[n], k) for _, n, k in loads],
                unpacks=[(kind, regs[a], regs[b2]) for _, kind, a, b2 in unpacks],
                stores=[(k, regs[r]) for _, k, r in stores],
                nregs=len(regs))



# ---- the block loop condition and its per-iteration steps ---------------------

LANES_RE = re.compile(r"<\s*Avx2\s+as\s+Backend\s*>\s*::\s*Lanes\s*::\s*USIZE")
SIZEOF_RE = re.compile(r"(?:std\s*::\s*)?(?:mem\s*::\s*)?size_of\s*::\s*<\s*__m256i\s*>\s*\(\s*\)")
LEN_RE = re.compile(r"\b(?:s|seq)\s*\.\s*len\s*\(\s*\)")


def _constants(text):
    """constants of the AVX2 backend: 32 lanes, 32-byte vectors"""
    text = LANES_RE.sub("32", text)
    text = SIZEOF_RE.sub("32", text)
    text = LEN_RE.sub("length", text)
    return text


def _tokens(text):
    toks = []
    i = 0
    while i < len(text):
        c = text[i]
        if c.isspace():
            i += 1
        elif text.startswith("&&", i) or text.startswith("<=", i) or text.startswith(">=", i):
            toks.append(text[i:i + 2])
            i += 2
        elif c in "+*()<>%/":
            toks.append(c)
            i += 1
        elif c.isdigit():
            m = re.match(r"0[xX][0-9a-fA-F_]+|[0-9][0-9_]*", text[i:])
            toks.append(("num", _num(re.sub(r"(usize|u64|u32)$", "", m.group(0)))))
            i += len(m.group(0))
        elif c.isalpha() or c == "_":
            m = re.match(r"\w+", text[i:])
            toks.append(("id", m.group(0)))
            i += len(m.group(0))
        else:
            raise ParseError("block loop condition: unexpected character %r in %r" % (c, text.strip()[:120]))
    return toks


ROWS_RE = re.compile(r"\bmatrix\s*\.\s*rows\s*\(\s*\)")
COLS_RE = re.compile(r"\bmatrix\s*\.\s*columns\s*\(\s*\)")


class _Expr(object):
    """expressions over the given variables with + * (and / % by src_stride only),
    comparisons and && -> Coq text.  No subtraction (usize underflow is not modelled)."""

    def __init__(self, text, variables, what):
        text = _constants(text)
        text = ROWS_RE.sub("rows", text)
        text = COLS_RE.sub("columns", text)
        self.toks = _tokens(text)
        self.pos = 0
        self.vars = variables
        self.what = what

    def peek(self):
        return self.toks[self.pos] if self.pos < len(self.toks) else None

    def take(self):
        t = self.peek()
        self.pos += 1
        return t

    def atom(self):
        t = self.take()
        if isinstance(t, tuple) and t[0] == "num":
            return str(t[1])
        if isinstance(t, tuple) and t[0] == "id":
            if t[1] not in self.vars:
                raise ParseError("%s mentions unknown variable %s" % (self.what, t[1]))
            return t[1]
        if t == "(":
            e = self.summ()
            if self.take() != ")":
                raise ParseError("%s: missing )" % self.what)
            return e
        raise ParseError("%s: unexpected token %r" % (self.what, t))

    def prod(self):
        e = self.atom()
        while self.peek() in ("*", "/", "%"):
            op = self.take()
            r = self.atom()
            if op == "*":
                e = "(%s * %s)" % (e, r)
            else:
                if r != "src_stride":
                    raise ParseError("%s: division by something else than src_stride" % self.what)
                e = "(%s %s %s)" % (e, "/" if op == "/" else "mod", r)
        return e

    def summ(self):
        e = self.prod()
        while self.peek() == "+":
            self.take()
            e = "(%s + %s)" % (e, self.prod())
        return e

    def cmp_(self):
        a = self.summ()
        op = self.take()
        b = self.summ()
        if op == "<=":
            return "(%s <=? %s)" % (a, b)
        if op == "<":
            return "(%s <? %s)" % (a, b)
        if op == ">=":
            return "(%s <=? %s)" % (b, a)
        if op == ">":
            return "(%s <? %s)" % (b, a)
        raise ParseError("%s: comparison expected, got %r" % (self.what, op))

    def cond(self):
        e = self.cmp_()
        while self.peek() == "&&":
            self.take()
            e = "%s && %s" % (e, self.cmp_())
        self.end()
        return e

    def value(self):
        e = self.summ()
        self.end()
        return e

    def end(self):
        if self.peek() is not None:
            raise ParseError("%s: trailing tokens %r" % (self.what, self.toks[self.pos:]))


def cond_to_coq(cond_text):
    """`while A <= B && C <= D` over i, src_stride, length -> a Coq boolean expression"""
    return _Expr(re.sub(r"^\s*while\b", "", cond_text), ("i", "src_stride", "length"), "block loop condition").cond()


TAIL_VARS = ("i", "j", "src_stride", "length", "rows")
FILL_VARS = ("k", "src_stride", "length", "rows", "columns")
TAIL_RE = re.compile(
    r"while\s+(?P<cond>[^{]+)\{\s*for\s+j\s+in\s+0\s*\.\.\s*(?P<cols>[0-9xXa-fA-F_]+)\s*\{\s*"
    r"if\s+(?P<guard>[^{]+)\{\s*matrix\s*\[(?P<row>[^\]]+)\]\s*\[(?P<col>[^\]]+)\]\s*=\s*s\s*\[(?P<src>[^\]]+)\]\s*;\s*\}\s*\}\s*"
    r"i\s*\+=\s*(?P<step>[0-9xXa-fA-F_]+)\s*;\s*\}")
FILL_RE = re.compile(
    r"for\s+k\s+in\s+(?P<lo>[^{]+?)\.\.(?P<hi>[^{.]+(?:\.\s*\w+\s*\(\s*\)[^{.]*)*)\{\s*"
    r"matrix\s*\[(?P<row>[^\]]+)\]\s*\[(?P<col>[^\]]+)\]\s*=\s*A\s*::\s*Symbol\s*::\s*default\s*\(\s*\)\s*;\s*\}")


def parse_tail_fill(body):
    """the scalar loop over the remaining rows and the wildcard fill that follow the block loop"""
    k = body.find("_mm_sfence")
    if k < 0:
        raise ParseError("_mm_sfence() not found after the block loop")
    rest = body[k:]
    mt = TAIL_RE.search(rest)
    if not mt:
        raise ParseError("scalar tail loop `while .. { for j in 0..N { if .. { matrix[..][..] = s[..]; } } i += K; }` not found")
    mf = FILL_RE.search(rest, mt.end())
    if not mf:
        raise ParseError("wildcard fill loop `for k in A..B { matrix[..][..] = A::Symbol::default(); }` not found")
    between = rest[mt.end():mf.start()]
    if between.strip():
        raise ParseError("unrecognised statement between the tail loop and the fill loop: %r" % between.strip()[:80])
    t = dict(
        cond=_Expr(mt.group("cond"), ("i", "src_stride", "length", "rows"), "tail loop condition").cond(),
        cols=_num(mt.group("cols")),
        guard=_Expr(mt.group("guard"), TAIL_VARS, "tail loop guard").cond(),
        row=_Expr(mt.group("row"), TAIL_VARS, "tail loop row index").value(),
        col=_Expr(mt.group("col"), TAIL_VARS, "tail loop column index").value(),
        src=_Expr(mt.group("src"), TAIL_VARS, "tail loop source index").value(),
        step=_num(mt.group("step")))
    f = dict(
        lo=_Expr(mf.group("lo"), FILL_VARS, "fill loop start").value(),
        hi=_Expr(mf.group("hi"), FILL_VARS, "fill loop end").value(),
        row=_Expr(mf.group("row"), FILL_VARS, "fill loop row index").value(),
        col=_Expr(mf.group("col"), FILL_VARS, "fill loop column index").value())
    return t, f


STEP_OUT_RE = re.compile(r"out\s*=\s*out\s*\.\s*add\s*\(\s*([0-9xXa-fA-F_]+)\s*\*\s*out_stride\s*\)\s*;")
STEP_SRC_RE = re.compile(r"src\s*=\s*src\s*\.\s*add\s*\(\s*([0-9xXa-fA-F_]+)\s*\)\s*;")
STEP_I_RE = re.compile(r"i\s*\+=\s*([0-9xXa-fA-F_]+)\s*;")


def parse_steps(body):
    """the three statements that end a block-loop iteration"""
    m = re.search(r"while\s+i\s*\+", body)
    e = body.find("out = out.add", m.end()) if m else -1
    if e < 0:
        raise ParseError("end of the block loop body (`out = out.add`) not found")
    close = body.find("}", e)
    if close < 0:
        raise ParseError("block loop is not closed")
    tail = _constants(body[e:close])
    mo, ms, mi = STEP_OUT_RE.search(tail), STEP_SRC_RE.search(tail), STEP_I_RE.search(tail)
    if not (mo and ms and mi):
        raise ParseError("block loop does not end with `out = out.add(K * out_stride); src = src.add(K); i += K;`")
    rest = STEP_I_RE.sub("", STEP_SRC_RE.sub("", STEP_OUT_RE.sub("", tail)))
    if rest.strip():
        raise ParseError("unrecognised statement at the end of the block loop: %r" % rest.strip()[:100])
    return dict(out=_num(mo.group(1)), src=_num(ms.group(1)), i=_num(mi.group(1)))


def parse_dispatch(src):
    m = re.search(r"impl\s*<\s*A\s*:\s*Alphabet\s*>\s*Stripe\s*<[^{]*?for\s+Pipeline\s*<\s*A\s*,\s*Dispatch\s*>\s*\{", src, re.S)
    if not m:
        raise ParseError("impl Stripe for Pipeline<A, Dispatch> not found")
    i = m.end() - 1
    depth = 0
    j = i
    while j < len(src):
        if src[j] == "{":
            depth += 1
        elif src[j] == "}":
            depth -= 1
            if depth == 0:
                break
        j += 1
    text = src[i:j]
    mm = re.search(r"match\s+self\s*\.\s*backend\s*\{(.*)\}", text, re.S)
    if not mm:
        raise ParseError("`match self.backend` not found in the dispatching stripe_into")
    arms_txt = mm.group(1)
    # every arm, with the cfg attribute that guards it (x86 / arm / none)
    found = []
    for am in re.finditer(r"((?:#\s*\[\s*cfg\s*\((?:[^\[\]]*)\)\s*\]\s*)?)(Dispatch::(\w+)|_)\s*=>\s*(<\s*(\w+)\s+as\s+Stripe|(\w+)\s*::\s*stripe_into)", arms_txt):
        cfg = am.group(1)
        if not cfg.strip():
            where = ("x86", "arm")
        elif "x86" in cfg and "arm" not in cfg and "aarch64" not in cfg:
            where = ("x86",)
        elif ("arm" in cfg or "aarch64" in cfg) and "x86" not in cfg:
            where = ("arm",)
        else:
            raise ParseError("dispatch arm with an unrecognised cfg attribute %r" % cfg.strip())
        target = am.group(5) or am.group(6)
        found.append((where, am.group(3) if am.group(2) != "_" else None, target))
    out = {}
    for target_arch, variants in (("x86", ("Generic", "Sse2", "Avx2")), ("arm", ("Generic", "Neon"))):
        table, default = {}, None
        for where, variant, target in found:
            if target_arch not in where:
                continue
            if target not in ("Generic", "Avx2"):
                raise ParseError("dispatch arm targets unknown kernel %s" % target)
            if target == "Avx2" and target_arch == "arm":
                raise ParseError("the AVX2 kernel is named by an arm that exists on arm targets")
            if variant is None:
                default = target
            elif variant in variants:
                table[variant] = target
            else:
                raise ParseError("dispatch arm %s does not exist on %s targets" % (variant, target_arch))
        res = {}
        for arm in variants:
            if arm in table:
                res[arm] = table[arm]
            elif default is not None:
                res[arm] = default
            else:
                raise ParseError("dispatch arm %s has no kernel on %s" % (arm, target_arch))
        out[target_arch] = res
    return out


LANES_IMPL_RE = re.compile(r"((?:#\s*\[\s*cfg\s*\((?:[^\[\]]*)\)\s*\]\s*))type\s+Lanes\s*=\s*<\s*(\w+)\s+as\s+Backend\s*>\s*::\s*Lanes\s*;")


def parse_lanes(dispatch_src, platform_dir):
    """<Dispatch as Backend>::Lanes on x86 and on arm targets, resolved through the platform files"""
    m = re.search(r"impl\s+Backend\s+for\s+Dispatch\s*\{(.*?)\n\}", dispatch_src, re.S)
    if not m:
        raise ParseError("impl Backend for Dispatch not found")
    res = {}
    for lm in LANES_IMPL_RE.finditer(m.group(1)):
        cfg, backend = lm.group(1), lm.group(2)
        arch = "x86" if "x86" in cfg and "not" not in cfg else ("arm" if ("arm" in cfg or "aarch64" in cfg) and "not" not in cfg else None)
        if arch is None:
            continue
        f = os.path.join(platform_dir, backend.lower() + ".rs")
        pm = re.search(r"impl\s+Backend\s+for\s+%s\s*\{[^}]*?type\s+Lanes\s*=\s*U(\d+)\s*;" % backend, _strip_comments(open(f).read()), re.S)
        if not pm:
            raise ParseError("Lanes of backend %s not found in %s" % (backend, f))
        res[arch] = int(pm.group(1))
    if "x86" not in res or "arm" not in res:
        raise ParseError("Lanes of the dispatcher on x86 / arm not found")
    return res


def render(arms, blk, disp):
    L = []
    L.append("(* GENERATED by translate/stripe_net.py from /repo/lightmotif/src/pli/platform/avx2.rs")
    L.append("   (stripe_avx2) and pli/dispatch.rs -- do not edit; regenerated on every check. *)")
    L.append("From Coq Require Import List Arith Bool.")
    L.append("From LMStripe Require Import NetModel.")
    L.append("Import ListNotations.")
    L.append("")
    L.append("(* block loop condition as written: %s *)" % blk["cond"].replace("*)", "* )"))
    L.append("Definition blk_cond (i src_stride length : nat) : bool :=")
    L.append("  %s." % blk["cond_coq"])
    L.append("")
    L.append("(* end of an iteration: out = out.add(K * out_stride); src = src.add(K); i += K *)")
    L.append("Definition blk_out_step : nat := %d." % blk["steps"]["out"])
    L.append("Definition blk_src_step : nat := %d." % blk["steps"]["src"])
    L.append("Definition blk_i_step : nat := %d." % blk["steps"]["i"])
    L.append("")
    t, f = blk["tail"], blk["fill"]
    L.append("(* scalar loop over the remaining rows: while <cond> { for j in 0..<cols> { if <guard> {")
    L.append("   matrix[<row>][<col>] = s[<src>] } } i += <step> }   (rows = matrix.rows(), length = s.len()) *)")
    tv = "(i j src_stride length rows : nat)"
    L.append("Definition tail_cond %s : bool := %s." % (tv, t["cond"]))
    L.append("Definition tail_cols : nat := %d." % t["cols"])
    L.append("Definition tail_guard %s : bool := %s." % (tv, t["guard"]))
    L.append("Definition tail_row %s : nat := %s." % (tv, t["row"]))
    L.append("Definition tail_col %s : nat := %s." % (tv, t["col"]))
    L.append("Definition tail_src %s : nat := %s." % (tv, t["src"]))
    L.append("Definition tail_i_step : nat := %d." % t["step"])
    L.append("")
    L.append("(* wildcard fill: for k in <lo>..<hi> { matrix[<row>][<col>] = default }  (columns = matrix.columns()) *)")
    fv = "(k src_stride length rows columns : nat)"
    L.append("Definition fill_lo %s : nat := %s." % (fv, f["lo"]))
    L.append("Definition fill_hi %s : nat := %s." % (fv, f["hi"]))
    L.append("Definition fill_row %s : nat := %s." % (fv, f["row"]))
    L.append("Definition fill_col %s : nat := %s." % (fv, f["col"]))
    L.append("")
    L.append("(* (register, K) for `let mut r = _mm256_loadu_si256(src.add(K * src_stride))`, in order *)")
    L.append("Definition net_loads : list (nat * nat) :=")
    L.append("  [" + "; ".join("(%d, %d)" % p for p in blk["loads"]) + "].")
    L.append("")
    L.append("(* the unpack! invocations after macro expansion, in order *)")
    L.append("Definition net_ops : list nop :=")
    items = []
    for kind, a, b in blk["unpacks"]:
        if kind not in arms:
            raise ParseError("unpack! kind %s has no macro arm" % kind)
        f1, f2 = arms[kind]
        items.append("NPair (%s) (%s) %d %d" % (f1, f2, a, b))
    L.append("  [" + ";\n   ".join(items) + "].")
    L.append("")
    L.append("(* (K, register) for `_mm256_stream_si256(out.add(K * out_stride), r)`, in order *)")
    L.append("Definition net_stores : list (nat * nat) :=")
    L.append("  [" + "; ".join("(%d, %d)" % p for p in blk["stores"]) + "].")
    L.append("")
    L.append("(* Pipeline<A, Dispatch>::stripe_into: kernel run by each arm *)")
    L.append("Definition disp_stripe (a : arm) : kernel :=")
    L.append("  match a with")
    for arm, c in (("Generic", "AGeneric"), ("Sse2", "ASse2"), ("Avx2", "AAvx2")):
        L.append("  | %s => K%s" % (c, disp["x86"][arm]))
    L.append("  end.")
    L.append("")
    L.append("(* the same match compiled for arm / aarch64 (Dispatch = Generic | Neon) *)")
    L.append("Definition disp_stripe_arm (a : arm_neon) : kernel :=")
    L.append("  match a with")
    for arm, c in (("Generic", "NGeneric"), ("Neon", "NNeon")):
        L.append("  | %s => K%s" % (c, disp["arm"][arm]))
    L.append("  end.")
    L.append("")
    L.append("(* <Dispatch as Backend>::Lanes = the column count of the dispatching pipeline *)")
    L.append("Definition disp_lanes_x86 : nat := %d." % disp["lanes"]["x86"])
    L.append("Definition disp_lanes_arm : nat := %d." % disp["lanes"]["arm"])
    L.append("")
    return "\n".join(L)


def translate(write=True):
    notes, errors = [], []
    try:
        src = _strip_comments(open(AVX2).read())
        body = _function_body(src, "stripe_avx2")
        arms, body2 = parse_macro(body)
        blk = parse_block(body2)
        blk["cond_coq"] = cond_to_coq(blk["cond"])
        blk["steps"] = parse_steps(body2)
        blk["tail"], blk["fill"] = parse_tail_fill(body2)
        dsrc = _strip_comments(open(DISPATCH).read())
        disp = parse_dispatch(dsrc)
        disp["lanes"] = parse_lanes(dsrc, os.path.join(REPO, "lightmotif/src/pli/platform"))
        text = render(arms, blk, disp)
    except (ParseError, OSError, ValueError) as e:
        errors.append("stripe_net: cannot parse the source: %s" % e)
        if not os.path.exists(OUT):
            errors.append("no previously generated GenStripeNet.v")
        return dict(ok=False, notes=notes, errors=errors)
    changed = False
    if write:
        try:
            old = open(OUT).read()
        except OSError:
            old = None
        if old != text:
            with open(OUT, "w") as f:
                f.write(text)
            changed = True
    notes.append("stripe_net: %d loads, %d unpack ops, %d stores, loop condition %s, steps %s, dispatch %s%s" % (
        len(blk["loads"]), len(blk["unpacks"]), len(blk["stores"]), blk["cond_coq"],
        "/".join(str(blk["steps"][k]) for k in ("out", "src", "i")),
        ",".join("%s->%s" % kv for kv in sorted(disp["x86"].items())) + " arm:" + ",".join("%s->%s" % kv for kv in sorted(disp["arm"].items())) + " lanes %d/%d" % (disp["lanes"]["x86"], disp["lanes"]["arm"]), " (regenerated)" if changed else ""))
    return dict(ok=True, notes=notes, errors=errors)


if __name__ == "__main__":
    r = translate()
    print(r)
    sys.exit(0 if r["ok"] else 1)
