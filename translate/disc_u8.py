"""Translator for property C08: /repo source -> coq/disc/GenDiscU8.v.

The two SIMD kernels that score with 8-bit cells have the same shape: for every output row a
register of zeros, then for every row of the discrete matrix one register of sequence symbols is
loaded, 16 bytes of the matrix row are loaded, a byte-table lookup gives the cells of the symbols
and they are ADDED to the running sum, which is stored when the motif loop ends.  What a change
can get wrong -- which addition (saturating / wrapping), which lookup, operand order, where the
store happens, loop bounds, the guards of the safe wrapper, which arm of the dispatcher runs
which kernel -- is read from the source and written as data for the model of DiscU8Kernel.v:

  * lightmotif/src/pli/platform/avx2.rs  `score_u8_avx2_shuffle`, `Avx2::score_u8_rows_into_shuffle`
  * lightmotif/src/pli/platform/neon.rs  `score_u8_neon`, `Neon::score_u8_rows_into`
    (not compiled on an x86 host, so tied by this translator and the proofs only)
  * lightmotif/src/pli/dispatch.rs       `impl Score<u8, Dna, _> for Pipeline<Dna, Dispatch>`
  * lightmotif/src/pli/mod.rs            the `Score<u8, ..>` impls of Pipeline<_, Generic | Sse2 | Avx2 | Neon>

Statements of the motif loop become a list of register operations in source order (registers are
numbered by first appearance); the wrapper becomes the list of its guards in source order.  The
proofs of DiscU8Proofs.v start from `gen_* = <expected value>` by reflexivity: any difference
(e.g. `vaddq_u8` for `vqaddq_u8`) breaks them, and the extracted model that the driver runs is
built from the same generated file.

Anything that does not have the expected statement shape makes `run()` return ok=False: the
obligation is then broken (no crash) and the previous file is kept.
"""
import os
import re
import sys

VERIF = os.path.dirname(os.path.dirname(os.path.abspath(__file__)))
REPO = os.environ.get("VERIF_REPO", "/repo").rstrip("/") or "/repo"   # same override as vlib/common.py
AVX2 = os.path.join(REPO, "lightmotif/src/pli/platform/avx2.rs")
NEON = os.path.join(REPO, "lightmotif/src/pli/platform/neon.rs")
DISPATCH = os.path.join(REPO, "lightmotif/src/pli/dispatch.rs")
PLIMOD = os.path.join(REPO, "lightmotif/src/pli/mod.rs")
OUT = os.path.join(VERIF, "coq", "disc", "GenDiscU8.v")


class ParseError(Exception):
    pass


def _strip_comments(src):
    src = re.sub(r"/\*.*?\*/", " ", src, flags=re.S)
    return re.sub(r"//[^\n]*", "", src)


def _block(src, start):
    """src[start] == '{': returns (inner text, index after the closing brace)."""
    assert src[start] == "{"
    depth = 0
    j = start
    while j < len(src):
        if src[j] == "{":
            depth += 1
        elif src[j] == "}":
            depth -= 1
            if depth == 0:
                return src[start + 1:j], j + 1
        j += 1
    raise ParseError("unbalanced braces")


def _function_body(src, name):
    m = re.search(r"\bfn\s+%s\b" % re.escape(name), src)
    if not m:
        raise ParseError("function %s not found" % name)
    # the body is the first brace after the signature that is not inside the `where` clause:
    # signatures here contain no braces, so it is the first `{`
    i = src.index("{", m.end())
    return _block(src, i)[0]


def _ws(rx):
    """turn a readable pattern into a whitespace-tolerant regex: a space means `\\s*`"""
    return rx.replace(" ", r"\s*")


# intrinsic -> operation.  {T} {X} {A} {B} are register names.
ISA = {
    "avx2": dict(
        fn="score_u8_avx2_shuffle",
        blocked=False,
        lanes=32,
        row_loop=_ws(r"for\s+i\s+in\s+rows \{"),
        rowptr=_ws(r"let\s+mut\s+rowptr = data \[ 0 \] \. as_mut_ptr \( \) as \*mut\s+i8 ;"),
        seqptr=_ws(r"let\s+mut\s+seqptr = seq \. matrix \( \) \[ i \] \. as_ptr \( \) ;"),
        init=_ws(r"let\s+mut\s+(\w+) = _mm256_setzero_si256 \( \) ;"),
        init_value=lambda m: 0,
        loadseq=_ws(r"_mm256_load_si256 \( seqptr\s+as \*const\s+__m256i \)"),
        loadtab=_ws(r"_mm256_broadcastsi128_si256 \( _mm_load_si128 \( & \* \( pssmptr\s+as \*const\s+__m128i \) \) \)"),
        loadtab_bcast=True,
        lookup={"_mm256_shuffle_epi8": "LShuffle256"},
        add={"_mm256_adds_epu8": "AddSat", "_mm256_add_epi8": "AddWrap"},
        store=_ws(r"(?:_mm256_stream_si256|_mm256_store_si256|_mm256_storeu_si256) \( rowptr\s+as \*mut\s+__m256i , (\w+) \) ;"),
    ),
    "neon": dict(
        fn="score_u8_neon",
        blocked=True,
        lanes=16,
        block_loop=_ws(r"for\s+offset\s+in \( 0 \.\. C :: Quotient :: USIZE \) \. map \( \| i \| i \* < Neon\s+as\s+Backend > :: Lanes :: USIZE \) \{"),
        row_loop=_ws(r"for\s+i\s+in\s+rows \. clone \( \) \{"),
        rowptr=_ws(r"let\s+mut\s+rowptr = data \[ 0 \] \. as_mut_ptr \( \) \. add \( offset \) ;"),
        seqptr=_ws(r"let\s+mut\s+seqptr = seq \. matrix \( \) \[ i \] \. as_ptr \( \) \. add \( offset \) ;"),
        init=_ws(r"let\s+mut\s+(\w+) = vdupq_n_u8 \( (\d+) \) ;"),
        init_value=lambda m: int(m.group(2)),
        loadseq=_ws(r"vld1q_u8 \( seqptr\s+as \*const\s+u8 \)"),
        loadtab=_ws(r"vld1q_u8 \( pssmptr\s+as \*const\s+u8 \)"),
        loadtab_bcast=False,
        lookup={"vqtbl1q_u8": "LTbl1"},
        add={"vqaddq_u8": "AddSat", "vaddq_u8": "AddWrap"},
        store=_ws(r"vst1q_u8 \( rowptr , (\w+) \) ;"),
    ),
}

MOTIF_LOOP = _ws(r"for\s+_\s+in 0 \.\. pssm \. rows \( \) \{")
PSSMPTR = _ws(r"let\s+mut\s+pssmptr = pssm \[ 0 \] \. as_ptr \( \) ;")
DATA = _ws(r"let\s+data = scores \. matrix_mut \( \) ;")
ADV_SEQ = _ws(r"seqptr = seqptr \. add \( seq \. matrix \( \) \. stride \( \) \) ;")
ADV_PSSM = _ws(r"pssmptr = pssmptr \. add \( pssm \. stride \( \) \) ;")
ADV_ROW = _ws(r"rowptr = rowptr \. add \( data \. stride \( \) \) ;")


def parse_kernel(src, isa):
    d = ISA[isa]
    name = d["fn"]
    body = _function_body(src, name)
    if not re.search(DATA, body):
        raise ParseError("%s: `let data = scores.matrix_mut()` not found" % name)
    outer = body
    if d["blocked"]:
        m = re.search(d["block_loop"], outer)
        if not m:
            raise ParseError("%s: column-block loop over C / 16 offsets not found" % name)
        outer, _ = _block(outer, m.end() - 1)
    elif re.search(r"\boffset\b", outer):
        raise ParseError("%s: unexpected column offset in a one-register-per-row kernel" % name)
    m = re.search(d["rowptr"], outer)
    if not m:
        raise ParseError("%s: rowptr initialisation not found" % name)
    m = re.search(d["row_loop"], outer)
    if not m:
        raise ParseError("%s: row loop not found" % name)
    rows_body, _ = _block(outer, m.end() - 1)
    m = re.search(MOTIF_LOOP, rows_body)
    if not m:
        raise ParseError("%s: motif loop `for _ in 0..pssm.rows()` not found" % name)
    head = rows_body[:m.start()]
    inner, after = _block(rows_body, m.end() - 1)
    tail = rows_body[after:]
    # head: accumulator reset, seqptr, pssmptr
    mi = re.search(d["init"], head)
    if not mi:
        raise ParseError("%s: accumulator reset not found before the motif loop" % name)
    acc_name = mi.group(1)
    init = d["init_value"](mi)
    if not re.search(d["seqptr"], head):
        raise ParseError("%s: seqptr = seq.matrix()[i] (+ offset) not found" % name)
    if not re.search(PSSMPTR, head):
        raise ParseError("%s: pssmptr = pssm[0] not found" % name)
    # tail: store of the accumulator, then the row pointer advance
    ms = re.search(d["store"], tail)
    if not ms:
        raise ParseError("%s: store of the accumulator after the motif loop not found" % name)
    ma = re.compile(ADV_ROW).search(tail, ms.end())
    if not ma:
        raise ParseError("%s: rowptr advance after the store not found" % name)
    if re.search(d["store"], inner) or re.search(d["store"], head):
        raise ParseError("%s: a store outside the tail of the row loop" % name)
    stored = ms.group(1)
    # inner statements in source order
    regs = {}

    def reg(n):
        if n not in regs:
            regs[n] = len(regs)
        return regs[n]

    reg(acc_name)          # the accumulator is defined before the loop: register 0
    ops = []
    saw_seq = saw_pssm = False
    for st in [s.strip() for s in inner.split(";")]:
        if not st:
            continue
        st = st + ";"
        if re.fullmatch(ADV_SEQ, st):
            saw_seq = True
            continue
        if re.fullmatch(ADV_PSSM, st):
            saw_pssm = True
            continue
        m = re.fullmatch(r"(?:let\s+(?:mut\s+)?)?(\w+)\s*=\s*(.*);", st, re.S)
        if not m:
            raise ParseError("%s: unexpected statement in the motif loop: %s" % (name, st))
        dst, expr = m.group(1), m.group(2).strip()
        if re.fullmatch(d["loadseq"], expr):
            ops.append("VLoadSeq %d" % reg(dst))
            continue
        if re.fullmatch(d["loadtab"], expr):
            ops.append("VLoadTable %d %s" % (reg(dst), "true" if d["loadtab_bcast"] else "false"))
            continue
        m2 = re.fullmatch(r"(\w+)\s*\(\s*(\w+)\s*,\s*(\w+)\s*\)", expr)
        if not m2:
            raise ParseError("%s: unexpected expression in the motif loop: %s" % (name, expr))
        fn, a, b = m2.groups()
        for r in (a, b):
            if r not in regs:
                raise ParseError("%s: register %s used before it is defined" % (name, r))
        if fn in d["lookup"]:
            ops.append("VLookup %s %d %d %d" % (d["lookup"][fn], reg(dst), regs[a], regs[b]))
        elif fn in d["add"]:
            ops.append("VAdd %s %d %d %d" % (d["add"][fn], reg(dst), regs[a], regs[b]))
        else:
            raise ParseError("%s: unknown intrinsic %s in the motif loop" % (name, fn))
    if not (saw_seq and saw_pssm):
        raise ParseError("%s: pointer advances of the motif loop not found" % name)
    if stored not in regs:
        raise ParseError("%s: the stored register %s is never computed" % (name, stored))
    if stored != acc_name:
        raise ParseError("%s: the stored register %s is not the one reset per position (%s)" % (name, stored, acc_name))
    return dict(lanes=d["lanes"], blocked=d["blocked"], init=init, acc=regs[stored], body=ops,
                regs=dict(regs))


# the steps of a safe wrapper (same shape in avx2.rs and neon.rs)
GUARDS = [
    ("GWrap", _ws(r"if\s+seq \. wrap \( \) < pssm \. rows \( \) - 1 \{ panic!")),
    ("GShort", _ws(r"if\s+seq \. len \( \) < pssm \. rows \( \) \|\| rows \. is_empty \( \) \{ scores \. resize \( 0 , 0 \) ; return ;")),
    ("GRange", _ws(r"if\s+rows \. end \+ pssm \. rows \( \) - 1 > seq \. matrix \( \) \. rows \( \) \{ panic!")),
    ("GResize", _ws(r"scores \. resize \( rows \. len \( \) , \( seq \. len \( \) \+ 1 \) \. saturating_sub \( pssm \. rows \( \) \) \) ;")),
]


def parse_wrapper(src, fn, kernel):
    body = _function_body(src, fn)
    mk = re.search(_ws(r"\b%s \( pssm , seq , rows , scores \)" % kernel), body)
    if not mk:
        raise ParseError("%s: call of %s(pssm, seq, rows, scores) not found" % (fn, kernel))
    found = []
    for gname, rx in GUARDS:
        ms = list(re.finditer(rx, body))
        if len(ms) > 1:
            raise ParseError("%s: step %s appears twice" % (fn, gname))
        if ms:
            if ms[0].start() > mk.start():
                raise ParseError("%s: step %s comes after the kernel call" % (fn, gname))
            found.append((ms[0].start(), gname))
    # any other `if`, `panic!` or `resize` before the kernel call is not modelled
    pre = body[:mk.start()]
    if len(re.findall(r"\bif\b", pre)) != sum(1 for _, g in found if g != "GResize"):
        raise ParseError("%s: an `if` before the kernel call that is not one of the modelled guards" % fn)
    if len(re.findall(r"\.\s*resize\s*\(", pre)) != sum(1 for _, g in found if g in ("GShort", "GResize")):
        raise ParseError("%s: a resize before the kernel call that is not modelled" % fn)
    return [g for _, g in sorted(found)]


def _impl_body(src, rx, what):
    m = re.search(rx, src, re.S)
    if not m:
        raise ParseError("%s not found" % what)
    return _block(src, m.end() - 1)[0]


U8_KERNELS = {"Avx2::score_u8_rows_into_shuffle": "UKAvx2Shuffle", "Neon::score_u8_rows_into": "UKNeon"}


def parse_dispatch(src):
    text = _impl_body(src, r"impl\s+Score\s*<\s*u8\s*,\s*Dna\s*,[^{]*?for\s+Pipeline\s*<\s*Dna\s*,\s*Dispatch\s*>\s*\{",
                      "impl Score<u8, Dna, ..> for Pipeline<Dna, Dispatch>")
    mm = re.search(r"match\s+self\s*\.\s*backend\s*\{(.*)\}", text, re.S)
    if not mm:
        raise ParseError("`match self.backend` not found in the dispatching u8 score_rows_into")
    arms = []
    for am in re.finditer(r"(?:#\[cfg\(any\(([^\]]*)\)\)\]\s*)?(Dispatch::(\w+)|_)\s*=>\s*"
                          r"(<\s*Generic\s+as\s+Score\s*<\s*u8\b[^;(]*?>\s*::\s*score_rows_into|(\w+\s*::\s*\w+))\s*\(",
                          mm.group(1), re.S):
        cfg = am.group(1)
        if cfg is None:
            host = None
        elif "x86" in cfg and "arm" not in cfg and "aarch64" not in cfg:
            host = "x86"
        elif ("arm" in cfg or "aarch64" in cfg) and "x86" not in cfg:
            host = "arm"
        else:
            raise ParseError("dispatch arm with an unexpected cfg: %s" % cfg.strip())
        if am.group(5):
            target = re.sub(r"\s+", "", am.group(5))
            if target not in U8_KERNELS:
                raise ParseError("u8 dispatch arm targets unknown function %s" % target)
            k = U8_KERNELS[target]
        else:
            k = "UKGeneric"
        arms.append((host, am.group(3), k))
    if not arms:
        raise ParseError("no arms found in the u8 dispatcher")

    def table_for(host, variants):
        table, default = {}, None
        for h, arm, k in arms:
            if h is not None and h != host:
                continue
            if arm is None:
                default = k
            elif arm in table:
                raise ParseError("u8 dispatch arm %s appears twice for %s hosts" % (arm, host))
            else:
                table[arm] = k
        out = {}
        for arm in variants:
            if arm in table:
                out[arm] = table[arm]
            elif default is not None:
                out[arm] = default
            else:
                raise ParseError("u8 dispatch arm %s has no kernel on %s hosts" % (arm, host))
        return out

    return table_for("x86", ("Generic", "Sse2", "Avx2")), table_for("arm", ("Generic", "Neon"))


def parse_pipelines(src):
    """which function the Score<u8, ..> impl of each static pipeline calls (empty impl = trait default)"""
    out = {}
    specs = [
        ("Generic", r"impl\s*<\s*T\s*:[^{]*?Score\s*<\s*T\s*,\s*A\s*,\s*C\s*>\s*for\s+Pipeline\s*<\s*A\s*,\s*Generic\s*>\s*\{"),
        ("Sse2", r"impl\s*<\s*A\s*,\s*C\s*>\s*Score\s*<\s*u8\s*,\s*A\s*,\s*C\s*>\s*for\s+Pipeline\s*<\s*A\s*,\s*Sse2\s*>[^{]*\{"),
        ("Avx2", r"impl\s+Score\s*<\s*u8\s*,\s*Dna\s*,[^{]*?for\s+Pipeline\s*<\s*Dna\s*,\s*Avx2\s*>\s*\{"),
        ("Neon", r"impl\s*<\s*C\s*>\s*Score\s*<\s*u8\s*,\s*Dna\s*,\s*C\s*>\s*for\s+Pipeline\s*<\s*Dna\s*,\s*Neon\s*>[^{]*\{"),
    ]
    for tag, rx in specs:
        body = _impl_body(src, rx, "Score<u8> impl of Pipeline<_, %s>" % tag)
        if not body.strip():
            out[tag] = "UKGeneric"
            continue
        if not re.search(r"\bfn\s+score_rows_into\b", body):
            raise ParseError("Score<u8> impl of Pipeline<_, %s> overrides something else than score_rows_into" % tag)
        fb = _function_body(body, "score_rows_into")
        m = re.fullmatch(r"\s*(\w+\s*::\s*\w+)\s*\(\s*pssm\s*,\s*seq\s*,\s*rows\s*,\s*scores\s*\)\s*;?\s*", fb)
        if not m:
            raise ParseError("Score<u8> impl of Pipeline<_, %s>: body is not a single delegation" % tag)
        target = re.sub(r"\s+", "", m.group(1))
        if target not in U8_KERNELS:
            raise ParseError("Score<u8> impl of Pipeline<_, %s> calls unknown function %s" % (tag, target))
        out[tag] = U8_KERNELS[target]
    return out


def _kernel_def(name, k, guards):
    return ["Definition %s : vkernel := {|" % name,
            "  vk_lanes := %d; vk_blocked := %s; vk_init := %d%%Z; vk_acc := %d;" % (
                k["lanes"], "true" if k["blocked"] else "false", k["init"], k["acc"]),
            "  vk_body := [" + "; ".join(k["body"]) + "];",
            "  vk_guards := [" + "; ".join(guards) + "] |}."]


def render(avx2, avx2_g, neon, neon_g, x86, arm, pipes):
    L = []
    L.append("(* GENERATED by translate/disc_u8.py from /repo/lightmotif/src/pli/platform/avx2.rs (score_u8_avx2_shuffle,")
    L.append("   Avx2::score_u8_rows_into_shuffle), neon.rs (score_u8_neon, Neon::score_u8_rows_into), pli/dispatch.rs and")
    L.append("   pli/mod.rs (Score<u8> impls) -- do not edit; regenerated on every check. *)")
    L.append("From Coq Require Import List ZArith.")
    L.append("From LMDisc Require Import DiscModel DiscU8Kernel.")
    L.append("Import ListNotations.")
    L.append("")
    L.append("(* registers: %s *)" % ", ".join("%s = %d" % (n, i) for n, i in sorted(avx2["regs"].items(), key=lambda p: p[1])))
    L += _kernel_def("gen_avx2_u8", avx2, avx2_g)
    L.append("")
    L.append("(* registers: %s *)" % ", ".join("%s = %d" % (n, i) for n, i in sorted(neon["regs"].items(), key=lambda p: p[1])))
    L += _kernel_def("gen_neon_u8", neon, neon_g)
    L.append("")
    L.append("(* `match self.backend` of Score<u8, Dna, _> for Pipeline<Dna, Dispatch>, arms compiled on x86 hosts *)")
    L.append("Definition gen_dispatch_u8_x86 (a : arm4) : u8_kernel_id :=")
    L.append("  match a with")
    L.append("  | D4Generic => %s | D4Sse2 => %s | D4Avx2 => %s" % (x86["Generic"], x86["Sse2"], x86["Avx2"]))
    L.append("  | D4Neon => %s   (* not a variant on x86 hosts: the value of the `_` arm *)" % x86["Generic"])
    L.append("  end.")
    L.append("")
    L.append("(* the same match, arms compiled on Arm hosts *)")
    L.append("Definition gen_dispatch_u8_arm (a : arm4) : u8_kernel_id :=")
    L.append("  match a with")
    L.append("  | D4Generic => %s | D4Neon => %s" % (arm["Generic"], arm["Neon"]))
    L.append("  | D4Sse2 | D4Avx2 => %s   (* not variants on Arm hosts *)" % arm["Generic"])
    L.append("  end.")
    L.append("")
    L.append("(* Score<u8, ..> of the static pipelines: Pipeline<_, Generic>, <_, Sse2>, <Dna, Avx2>, <Dna, Neon> *)")
    L.append("Definition gen_pipeline_u8 (a : arm4) : u8_kernel_id :=")
    L.append("  match a with")
    L.append("  | D4Generic => %s | D4Sse2 => %s | D4Avx2 => %s | D4Neon => %s" % (
        pipes["Generic"], pipes["Sse2"], pipes["Avx2"], pipes["Neon"]))
    L.append("  end.")
    L.append("")
    return "\n".join(L)


def run(write=True):
    notes, errors = [], []
    try:
        avx2_src = _strip_comments(open(AVX2).read())
        neon_src = _strip_comments(open(NEON).read())
        avx2 = parse_kernel(avx2_src, "avx2")
        neon = parse_kernel(neon_src, "neon")
        avx2_g = parse_wrapper(avx2_src, "score_u8_rows_into_shuffle", "score_u8_avx2_shuffle")
        neon_g = parse_wrapper(neon_src, "score_u8_rows_into", "score_u8_neon")
        x86, arm = parse_dispatch(_strip_comments(open(DISPATCH).read()))
        pipes = parse_pipelines(_strip_comments(open(PLIMOD).read()))
        text = render(avx2, avx2_g, neon, neon_g, x86, arm, pipes)
    except (ParseError, OSError, ValueError) as e:
        errors.append("disc_u8: cannot parse the source: %s" % e)
        if not os.path.exists(OUT):
            errors.append("no previously generated GenDiscU8.v")
        return dict(ok=False, notes=notes, errors=errors)
    changed = False
    if write:
        try:
            old = open(OUT).read()
        except OSError:
            old = None
        if old != text:
            with open(OUT, "w") as f:
                f.write(text)
            changed = True
    notes.append("disc_u8: avx2 body %s guards %s; neon body %s guards %s; dispatch x86 %s, arm %s; pipelines %s%s" % (
        avx2["body"], avx2_g, neon["body"], neon_g, x86, arm, pipes, " (regenerated)" if changed else ""))
    return dict(ok=True, notes=notes, errors=errors)


if __name__ == "__main__":
    r = run(write="--dry" not in sys.argv)
    print(r)
    sys.exit(0 if r["ok"] else 1)
