"""Translator for the model group `io` (properties C14/C15): coq/io/GenIoReader.v.

Re-reads, from /repo's working tree on every run, the statement skeleton of the three readers'
`Iterator::next` (lightmotif-io/src/{jaspar,jaspar16,uniprobe}/mod.rs) and the literals by which a
record header is recognised (jaspar/parse.rs and jaspar16/parse.rs, fn header):

  * JASPAR / JASPAR 2016 `next`: the body (comments and white space removed) must be the
    concatenation of the statements below, each recognised by a pattern; the codes, in source order,
    become `gen_jaspar_next_events` / `gen_jaspar16_next_events`, the delimiter byte given to
    `read_until` becomes `gen_jaspar_next_delim` / `gen_jaspar16_next_delim`:
       1  match self.bufread.read_until(b'<d>', &mut self.buffer) { Ok(n) => {
       2  let bytes = if n == 0 { &self.buffer[self.start..] } else { <plain or guarded slice> };
       3  let text = match std::str::from_utf8(bytes) { Ok(text) => text, Err(_) => return Some(Err(io InvalidData)) };
       4  if n == 0 && text.trim().is_empty() { return None; }
       5  let (rest, record) = match self::parse::record(text) { Err(e) => return Some(Err(Error::from(e))), Ok(..) => .. };
       6  self.start += bytes.len() - rest.len();          (16: the unrepaired `self.start += n + 1 - rest.len();`)
       7  if self.start > self.buffer.capacity() / 2 { let n = self.buffer.len(); self.buffer.copy_within(self.start.., 0);
            self.buffer.truncate(n - self.start); self.start = 0; }
       8  Some(Ok(record)) }
       9  Err(e) => Some(Err(Error::from(e))), }
    i.e. `start` is advanced only after a successful parse (errors are sticky), nothing is removed from
    the buffer on an error, the Err arm of read_until touches neither.  Anything left over after the
    recognised statements (a new statement, e.g. `self.buffer.clear()` in an error arm) is a parse error.
  * UniPROBE `next`: likewise, codes in `gen_uniprobe_next_events`:
       1 while !self.line {            2 match self.bufread.read_line(&mut self.buffer) {
       3 Err(e) => return Some(Err(Error::from(e)))        4 Ok(0) => return None       5 Ok(0) => break
       6 Ok(_) => { if !self.buffer.trim().is_empty() { self.line = true; } else { self.buffer.clear(); } }
       7 let id = match self::parse::id(&self.buffer) {    8 Ok((_, x)) => x.to_string()
       9 self.line = false;           10 self.buffer.clear();          11 loop {
      12 match self::parse::matrix_column::<A>(&self.buffer) {          13 Err(_e) => break
      14 Ok((_, column)) => { columns.push(column);                    15 let matrix = match self::parse::build_matrix::<A>(columns) {
      16 match FrequencyMatrix::<A>::new(matrix) {                      17 Err(e) => Some(Err(Error::from(e)))
      18 Ok(matrix) => Some(Ok(Record { id, matrix }))                  19 let mut columns = Vec::new();
      20 Ok(matrix) => matrix
  * fn header of jaspar/parse.rs and jaspar16/parse.rs: the string literals of `tag("..")` and
    `take_until("..")` -> gen_jaspar_header_tag / _until, gen_jaspar16_header_tag / _until (scalar values).

  * {jaspar,jaspar16,uniprobe}/parse.rs: `gen_io_parse_uses_streaming` (the word `streaming`, `Incomplete` or `Needed` occurs),
    `gen_io_parse_foreign_nom_paths` (nom paths outside bytes/character/number::complete, combinator, multi, sequence,
    branch, error, IResult, Err::Error/Failure; glob or grouped `use nom..` count) and, from error.rs,
    `gen_io_error_incomplete_is_panic` (the `nom::Err::Incomplete(_)` arm is unreachable!()/panic!()): the io model
    (IoNom.pres) has no Incomplete result because nom's `complete` parsers never return it; C15io.io_parsers_are_complete
    re-checks that premise (no streaming parser, or the arm no longer panics).

  * lightmotif/src/pwm/mod.rs `CountMatrix::new`: `gen_count_matrix_new_can_fail` (its body has an `Err(`, a `?` or a panic
    macro); the JASPAR record parsers call it through map_res and the model (IoJaspar.j_record / j16_record) takes it as
    never failing; C15io.count_matrix_new_is_total.

coq/io/C15io.v re-checks (theorem reader_skeleton_is_modelled) that these are the sequences and
literals the model IoJaspar.j_next_g / IoErr.j_next_e_g / IoErr.u_next_e was written for
(IoPoll.model_*).  Harmless reformatting (blanks, line breaks, comments, trailing commas, optional
braces around a single `return`) is tolerated.  A source that can no longer be parsed gives
dict(ok=False, errors=[...]) -- a broken obligation for the runner -- and leaves the previous file.
"""
import os
import re

from translate import encode_abc as E
from translate import io_abc

ParseError = E.ParseError
VERIF = E.VERIF


def _out():
    return os.environ.get("IO_READER_OUT") or os.path.join(VERIF, "coq", "io", "GenIoReader.v")


def _next_body(src, fname):
    m = re.search(r"\bimpl\s*<[^{};]*?>\s*Iterator\s+for\s+Reader\s*<[^{};]*>\s*\{", src)
    if not m:
        raise ParseError("%s: cannot find `impl Iterator for Reader`" % fname)
    blk, _ = E.block_after(src, m.end() - 1)
    body = E.find_fn(blk, "next", fname + " impl Iterator for Reader")
    if body is None:
        raise ParseError("%s: Reader::next has no body" % fname)
    return body


def _scan(nb, pats, what):
    """All matches of the patterns in the normalised body, in source order, not overlapping; what is
    left may only be punctuation."""
    found = []
    for code, rx in pats:
        for m in re.finditer(rx, nb):
            found.append((m.start(), m.end(), code, m))
    found.sort(key=lambda t: (t[0], -t[1]))
    out, pos, residue = [], 0, []
    for (a, b, code, m) in found:
        if a < pos:
            continue            # inside a longer statement already taken
        residue.append(nb[pos:a])
        out.append((code, m))
        pos = b
    residue.append(nb[pos:])
    rest = "".join(residue)
    left = re.sub(r"[{},;]", "", rest)
    if left:
        raise ParseError("%s: statement(s) outside the modelled skeleton: %r" % (what, left[:120]))
    return out


_ERR = r"Err\(e\)=>\{?returnSome\(Err\(Error::from\(e\)\)\);?\}?"

_J_PATS = [
    (1, r"matchself\.bufread\.read_until\((b'(?:\\.|[^'\\])+'|\d+(?:u8)?),&mutself\.buffer\)\{Ok\(n\)=>\{"),
    (2, r"letbytes=ifn==0\{&self\.buffer\[self\.start\.\.\]\}else\{&self\.buffer\[self\.start\.\.=self\.start\+n\]\};"),
    (2, r"letbytes=ifn==0\{&self\.buffer\[self\.start\.\.\]\}else\{matchself\.buffer\.get\(self\.start\.\.=self\.start\+n\)"
        r"\{Some\((\w+)\)=>\1,None=>&self\.buffer\[self\.start\.\.\],?\}\};"),
    (3, r"lettext=matchstd::str::from_utf8\(bytes\)\{Ok\(text\)=>text,Err\(_\w*\)=>\{?returnSome\(Err\(Error::from\("
        r"std::io::Error::new\(std::io::ErrorKind::InvalidData,\"[^\"]*\",?\),?\)\)\);?\}?,?\};"),
    (4, r"ifn==0&&text\.trim\(\)\.is_empty\(\)\{returnNone;?\};?"),
    (5, r"let\(rest,record\)=matchself::parse::record(?:::<A>)?\(text\)\{" + _ERR + r",?Ok\(\(rest,record\)\)=>\(rest,record\),?\};"),
    (5, r"let\(rest,record\)=matchself::parse::record(?:::<A>)?\(text\)\{Ok\(\(rest,record\)\)=>\(rest,record\)," + _ERR + r",?\};"),
    (6, r"self\.start\+=bytes\.len\(\)-rest\.len\(\);"),
    (16, r"self\.start\+=n\+1-rest\.len\(\);"),
    (7, r"ifself\.start>self\.buffer\.capacity\(\)/2\{letn=self\.buffer\.len\(\);self\.buffer\.copy_within\(self\.start\.\.,0\);"
        r"self\.buffer\.truncate\(n-self\.start\);self\.start=0;\}"),
    (8, r"Some\(Ok\(record\)\)\}"),
    (9, r"Err\(e\)=>Some\(Err\(Error::from\(e\)\)\),?\}$"),
]

_U_PATS = [
    (1, r"while!self\.line\{"),
    (2, r"matchself\.bufread\.read_line\(&mutself\.buffer\)\{"),
    (3, r"Err\(e\)=>\{?returnSome\(Err\(Error::from\(e\)\)\)"),
    (4, r"Ok\(0\)=>\{?returnNone"),
    (5, r"Ok\(0\)=>\{?break"),
    (6, r"Ok\(_\)=>\{if!self\.buffer\.trim\(\)\.is_empty\(\)\{self\.line=true;\}else\{self\.buffer\.clear\(\);\}\}"),
    (7, r"letid=matchself::parse::id\(&self\.buffer\)\{"),
    (8, r"Ok\(\(_,x\)\)=>x\.to_string\(\)"),
    (9, r"self\.line=false;"),
    (10, r"self\.buffer\.clear\(\);"),
    (11, r"loop\{"),
    (12, r"matchself::parse::matrix_column::<A>\(&self\.buffer\)\{"),
    (13, r"Err\(_\w*\)=>\{?break"),
    (14, r"Ok\(\(_,column\)\)=>\{columns\.push\(column\);"),
    (15, r"letmatrix=matchself::parse::build_matrix::<A>\(columns\)\{"),
    (16, r"matchFrequencyMatrix::<A>::new\(matrix\)\{"),
    (17, r"Err\(e\)=>Some\(Err\(Error::from\(e\)\)\)"),
    (18, r"Ok\(matrix\)=>Some\(Ok\(Record\{id,matrix,?\}\)\)"),
    (19, r"letmutcolumns=Vec::new\(\);"),
    (20, r"Ok\(matrix\)=>matrix(?![\w(])"),
]


def parse_jaspar_next(src, fname):
    nb = E.norm(_next_body(src, fname))
    ev = _scan(nb, _J_PATS, fname + " Reader::next")
    codes = [c for c, _ in ev]
    delims = [m.group(1) for c, m in ev if c == 1]
    if len(delims) != 1:
        raise ParseError("%s Reader::next: %d calls of read_until (model: one)" % (fname, len(delims)))
    return codes, E.byte_literal(delims[0])


def parse_uniprobe_next(src):
    nb = E.norm(_next_body(src, "uniprobe/mod.rs"))
    return [c for c, _ in _scan(nb, _U_PATS, "uniprobe/mod.rs Reader::next")]


def _chars(lit, what):
    """scalar values of a Rust string literal (the escapes \\n \\r \\t \\\\ \\0 \\' \\" \\xNN \\u{..})"""
    m = re.fullmatch(r'"((?:[^"\\]|\\.)*)"', lit.strip(), re.S)
    if not m:
        raise ParseError("%s: %r is not a string literal" % (what, lit))
    s, out, i = m.group(1), [], 0
    esc = {"n": 10, "r": 13, "t": 9, "\\": 92, "0": 0, "'": 39, '"': 34}
    while i < len(s):
        if s[i] != "\\":
            out.append(ord(s[i]))
            i += 1
            continue
        if i + 1 >= len(s):
            raise ParseError("%s: dangling escape in %r" % (what, lit))
        c = s[i + 1]
        if c in esc:
            out.append(esc[c])
            i += 2
        elif c == "x" and re.match(r"[0-7][0-9a-fA-F]", s[i + 2:i + 4]):
            out.append(int(s[i + 2:i + 4], 16))
            i += 4
        elif c == "u":
            mu = re.match(r"\{([0-9a-fA-F_]{1,8})\}", s[i + 2:])
            if not mu:
                raise ParseError("%s: unsupported escape in %r" % (what, lit))
            out.append(int(mu.group(1).replace("_", ""), 16))
            i += 2 + mu.end()
        else:
            raise ParseError("%s: unsupported escape in %r" % (what, lit))
    return out


def parse_header(src, fname):
    body = E.find_fn(src, "header", fname)
    if body is None:
        raise ParseError("%s: fn header has no body" % fname)
    tags = re.findall(r"\btag\s*\(\s*(\"(?:\\.|[^\"\\])*\")\s*\)", body)
    untils = re.findall(r"\btake_until\s*\(\s*(\"(?:\\.|[^\"\\])*\")\s*\)", body)
    if len(tags) != 1 or len(untils) != 1:
        raise ParseError("%s header(): expected one tag(\"..\") and one take_until(\"..\"), found %d and %d"
                         % (fname, len(tags), len(untils)))
    nb = E.norm(body)
    if not re.search(r"preceded\(tag\(\"[^\"]*\"\),nom::bytes::complete::take_while\(\|c:char\|!c\.is_ascii_whitespace\(\)\),?\)\(input\)\?;", nb):
        raise ParseError("%s header(): the identifier is not `preceded(tag(..), take_while(|c: char| !c.is_ascii_whitespace()))`" % fname)
    return _chars(tags[0], fname + " header() tag"), _chars(untils[0], fname + " header() take_until")


_NOM_OK = ("nom::bytes::complete", "nom::character::complete", "nom::number::complete", "nom::combinator", "nom::multi",
           "nom::sequence", "nom::branch", "nom::error", "nom::IResult", "nom::Err::Error", "nom::Err::Failure", "nom::Parser")


def parse_nom_use(src, fname):
    """(uses_streaming, foreign): does the file mention a streaming combinator / construct Incomplete itself;
    nom paths outside the modules whose parsers never return Err::Incomplete on &str input."""
    streaming = bool(re.search(r"\bstreaming\b|\bIncomplete\b|\bNeeded\b", src))
    foreign = []
    for m in re.finditer(r"\bnom(?:\s*::\s*\w+)+", src):
        path = re.sub(r"\s+", "", m.group(0))
        if not any(path == ok or path.startswith(ok + "::") for ok in _NOM_OK):
            foreign.append(path)
    # glob / grouped imports hide the module of the names they bring in
    for m in re.finditer(r"\buse\s+nom\b[^;]*;", src):
        if "*" in m.group(0) or "{" in m.group(0):
            foreign.append(re.sub(r"\s+", "", m.group(0)))
    return streaming, sorted(set(foreign))


def parse_error_incomplete(src):
    """error.rs, `impl From<nom::Err<..>> for Error`: is the Incomplete arm a panic (unreachable!/panic!/unimplemented!/todo!)?"""
    m = re.search(r"nom\s*::\s*Err\s*::\s*Incomplete\s*\([^)]*\)\s*=>\s*([^,]*),", src)
    if not m:
        raise ParseError("error.rs: no `nom::Err::Incomplete(_) => ..` arm in From<nom::Err<..>> for Error")
    return bool(re.match(r"\s*\{?\s*(unreachable|panic|unimplemented|todo)\s*!", m.group(1)))


def parse_count_matrix_new(src):
    """lightmotif/src/pwm/mod.rs, CountMatrix::new: can it return Err?  (map_res(matrix, CountMatrix::new) of the JASPAR
    parsers is modelled as never failing: the row-sum test is commented out in the pinned source.)"""
    m = re.search(r"\bimpl\s*<\s*A\s*:\s*Alphabet\s*>\s*CountMatrix\s*<\s*A\s*>\s*\{", src)
    if not m:
        raise ParseError("pwm/mod.rs: cannot find `impl<A: Alphabet> CountMatrix<A>`")
    blk, _ = E.block_after(src, m.end() - 1)
    body = E.find_fn(blk, "new", "pwm/mod.rs impl CountMatrix")
    if body is None:
        raise ParseError("pwm/mod.rs: CountMatrix::new has no body")
    nb = E.norm(body)
    return bool(re.search(r"\bErr\(|\?;|\?\)|panic!|unimplemented!|todo!|unreachable!", nb))


def _nats(l):
    return "[" + "; ".join(str(x) for x in l) + "]"


def _ns(l):
    return "[" + "; ".join("%d%%N" % x for x in l) + "]"


def emit(j, j16, u, hj, hj16, nomuse):
    o = []
    o.append("(* GENERATED by translate/io_reader.py from /repo/lightmotif-io/src/{jaspar,jaspar16,uniprobe}/mod.rs and")
    o.append("   {jaspar,jaspar16}/parse.rs on every run -- do not edit.  Statement codes: see translate/io_reader.py")
    o.append("   and IoPoll.model_jaspar_next_events / model_uniprobe_next_events. *)")
    o.append("From Coq Require Import List NArith.")
    o.append("Import ListNotations.")
    o.append("")
    o.append("(* Iterator::next of jaspar/mod.rs: delimiter byte of read_until, statements in source order *)")
    o.append("Definition gen_jaspar_next_delim : N := %d%%N." % j[1])
    o.append("Definition gen_jaspar_next_events : list nat := %s." % _nats(j[0]))
    o.append("(* Iterator::next of jaspar16/mod.rs *)")
    o.append("Definition gen_jaspar16_next_delim : N := %d%%N." % j16[1])
    o.append("Definition gen_jaspar16_next_events : list nat := %s." % _nats(j16[0]))
    o.append("(* Iterator::next of uniprobe/mod.rs *)")
    o.append("Definition gen_uniprobe_next_events : list nat := %s." % _nats(u))
    o.append("(* fn header of jaspar/parse.rs and jaspar16/parse.rs: tag(\"..\"), take_until(\"..\") as scalar values *)")
    o.append("Definition gen_jaspar_header_tag : list N := %s." % _ns(hj[0]))
    o.append("Definition gen_jaspar_header_until : list N := %s." % _ns(hj[1]))
    o.append("Definition gen_jaspar16_header_tag : list N := %s." % _ns(hj16[0]))
    o.append("Definition gen_jaspar16_header_until : list N := %s." % _ns(hj16[1]))
    o.append("(* {jaspar,jaspar16,uniprobe}/parse.rs: does any of them mention a `streaming` combinator, `Incomplete` or `Needed`;")
    o.append("   number of nom paths outside bytes/character/number::complete, combinator, multi, sequence, branch, error (glob and")
    o.append("   grouped imports count); error.rs: is the `nom::Err::Incomplete(_)` arm of From<nom::Err<..>> a panic (unreachable!()) *)")
    o.append("Definition gen_io_parse_uses_streaming : bool := %s." % ("true" if nomuse[0] else "false"))
    o.append("Definition gen_io_parse_foreign_nom_paths : nat := %d." % nomuse[1])
    o.append("Definition gen_io_error_incomplete_is_panic : bool := %s." % ("true" if nomuse[2] else "false"))
    o.append("(* lightmotif/src/pwm/mod.rs CountMatrix::new: does its body contain an Err(..) / `?` / panic macro (the JASPAR record")
    o.append("   parsers apply it through map_res; the model takes it as never failing) *)")
    o.append("Definition gen_count_matrix_new_can_fail : bool := %s." % ("true" if nomuse[3] else "false"))
    return "\n".join(o) + "\n"


def translate():
    notes = []
    out = _out()
    try:
        j = parse_jaspar_next(io_abc._read("lightmotif-io/src/jaspar/mod.rs"), "jaspar/mod.rs")
        j16 = parse_jaspar_next(io_abc._read("lightmotif-io/src/jaspar16/mod.rs"), "jaspar16/mod.rs")
        u = parse_uniprobe_next(io_abc._read("lightmotif-io/src/uniprobe/mod.rs"))
        hj = parse_header(io_abc._read("lightmotif-io/src/jaspar/parse.rs"), "jaspar/parse.rs")
        hj16 = parse_header(io_abc._read("lightmotif-io/src/jaspar16/parse.rs"), "jaspar16/parse.rs")
        streaming, foreign = False, []
        for f in ("jaspar", "jaspar16", "uniprobe"):
            st, fo = parse_nom_use(io_abc._read("lightmotif-io/src/%s/parse.rs" % f), f + "/parse.rs")
            streaming = streaming or st
            foreign += ["%s/parse.rs:%s" % (f, x) for x in fo]
        inc_panic = parse_error_incomplete(io_abc._read("lightmotif-io/src/error.rs"))
        cm_fail = parse_count_matrix_new(io_abc._read("lightmotif/src/pwm/mod.rs"))
    except (ParseError, OSError) as e:
        return dict(ok=False, errors=["cannot parse source: %s" % e], notes=notes)
    except Exception as e:  # never crash: an unexpected shape is a broken obligation
        return dict(ok=False, errors=["cannot parse source: %r" % (e,)], notes=notes)
    text = emit(j, j16, u, hj, hj16, (streaming, len(foreign), inc_panic, cm_fail))
    changed = False
    try:
        old = open(out).read()
    except OSError:
        old = None
    if old != text:
        os.makedirs(os.path.dirname(out), exist_ok=True)
        with open(out, "w") as f:
            f.write(text)
        changed = True
    notes.append("translator: GenIoReader.v %s (jaspar next %s delim %d; jaspar16 next %s delim %d; uniprobe next %s; "
                 "header tags %r/%r until %r/%r; parse.rs streaming/Incomplete mentioned: %s, foreign nom paths: %s, "
                 "error.rs Incomplete arm is a panic: %s; CountMatrix::new can fail: %s)" % (
                     "rewritten" if changed else "unchanged", j[0], j[1], j16[0], j16[1], u,
                     "".join(map(chr, hj[0])), "".join(map(chr, hj16[0])),
                     "".join(map(chr, hj[1])), "".join(map(chr, hj16[1])), streaming, foreign or "none", inc_panic, cm_fail))
    return dict(ok=True, errors=[], notes=notes)


def translate_all():
    """io_abc (alphabet tables, Reader::new constants, slice guard) and this one, for the SPECs."""
    a = io_abc.translate()
    b = translate()
    return dict(ok=a.get("ok", True) and b.get("ok", True),
                errors=list(a.get("errors", [])) + list(b.get("errors", [])),
                notes=list(a.get("notes", [])) + list(b.get("notes", [])))


if __name__ == "__main__":
    import json
    print(json.dumps(translate(), indent=1))
