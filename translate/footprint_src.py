"""Source tie for property C06 (group `footprint`).

The footprint model (coq/footprint/FpModel.v) was transcribed by hand from the pointer
arithmetic of the unsafe kernels and from the guards of their safe wrappers.  AddressSanitizer
ties it to the code dynamically, but only sees accesses that leave an allocation (or enter
capacity poisoned by the harness).  This translator ties the *text* the model was transcribed
from: on every run it re-reads /repo's working tree and

  1. extracts, for every function listed in FUNCTIONS (all unsafe kernels, their safe wrappers,
     the trait defaults they fall back to, the uninitialised / raveled constructors of dense.rs,
     StripedSequence::sample / configure_wrap), the sequence of *memory-relevant statements*:
     everything except pure register arithmetic (a `let`/assignment whose right-hand side is a
     non-memory `_mm*` intrinsic call), `unpack!` network steps, fences and attributes — i.e.
     loop headers, guards, asserts, panics, pointer definitions and advances, loads, stores,
     gathers, resizes, index expressions;
  2. compares them with the pinned statements of translate/footprint_pinned.json (the text the
     model corresponds to; regenerate with `python3 translate/footprint_src.py --pin` only
     after re-transcribing FpModel.v);
  3. checks that every `unsafe` (and `transmute`) token of the four crates — lightmotif/src,
     lightmotif-py/lightmotif, lightmotif-io/src, lightmotif-tfmpvalue/src — lies inside one of the
     listed functions (neon.rs included: its kernels do not compile on x86_64 and are tied by text and
     by the interpreter only; the PyO3 glue is tied by text only): new unsafe code is unmodelled.

A difference is a broken tie (reported by the runner as a broken obligation, which triggers the
wider sanitizer search), never a crash.  Harmless rewrites of these statements break the tie as
well (DESIGN.md 2.5): the answer is to re-transcribe and re-pin.
"""
import json
import os
import re
import sys

REPO = os.environ.get("VERIF_REPO", "/repo").rstrip("/") or "/repo"
VERIF = os.path.dirname(os.path.dirname(os.path.abspath(__file__)))
PIN = os.path.join(VERIF, "translate", "footprint_pinned.json")
PIN_ALT = os.path.join(VERIF, "translate", "footprint_pinned_alt.json")
SRC = "lightmotif/src"

# (file, function name, occurrence index among `fn <name>` in that file)
FUNCTIONS = [
    ("pli/platform/avx2.rs", "encode_into_avx2", 0),
    ("pli/platform/avx2.rs", "score_f32_avx2_permute", 0),
    ("pli/platform/avx2.rs", "score_f32_avx2_gather", 0),
    ("pli/platform/avx2.rs", "score_u8_avx2_shuffle", 0),
    ("pli/platform/avx2.rs", "argmax_f32_avx2", 0),
    ("pli/platform/avx2.rs", "max_f32_avx2", 0),
    ("pli/platform/avx2.rs", "argmax_u8_avx2", 0),
    ("pli/platform/avx2.rs", "max_u8_avx2", 0),
    ("pli/platform/avx2.rs", "stripe_avx2", 0),
    ("pli/platform/avx2.rs", "encode_into", 0),
    ("pli/platform/avx2.rs", "score_f32_rows_into_permute", 0),
    ("pli/platform/avx2.rs", "score_f32_rows_into_gather", 0),
    ("pli/platform/avx2.rs", "score_f32_rows_into", 0),
    ("pli/platform/avx2.rs", "score_u8_rows_into_shuffle", 0),
    ("pli/platform/avx2.rs", "argmax_f32", 0),
    ("pli/platform/avx2.rs", "max_f32", 0),
    ("pli/platform/avx2.rs", "argmax_u8", 0),
    ("pli/platform/avx2.rs", "max_u8", 0),
    ("pli/platform/avx2.rs", "stripe_into", 0),
    ("pli/platform/sse2.rs", "encode_into_sse2", 0),
    ("pli/platform/sse2.rs", "score_sse2", 0),
    ("pli/platform/sse2.rs", "argmax_sse2", 0),
    ("pli/platform/sse2.rs", "encode_into", 0),
    ("pli/platform/sse2.rs", "score_rows_into", 0),
    ("pli/platform/sse2.rs", "argmax", 0),
    ("pli/platform/neon.rs", "encode_into_neon", 0),
    ("pli/platform/neon.rs", "score_f32_neon", 0),
    ("pli/platform/neon.rs", "score_u8_neon", 0),
    ("pli/platform/neon.rs", "encode_into", 0),
    ("pli/platform/neon.rs", "score_f32_rows_into", 0),
    ("pli/platform/neon.rs", "score_u8_rows_into", 0),
    ("pli/mod.rs", "encode_raw", 0),
    ("pli/mod.rs", "encode_into", 0),       # trait default
    ("pli/mod.rs", "score_rows_into", 0),   # trait default
    ("pli/mod.rs", "score_into", 0),        # trait default
    ("pli/mod.rs", "stripe", 0),            # trait default
    ("pli/mod.rs", "stripe_into", 0),       # trait default
    ("dense.rs", "uninitialized", 0),
    ("dense.rs", "from_rows", 0),
    ("dense.rs", "stride", 0),
    ("dense.rs", "resize", 0),
    ("dense.rs", "ravel", 0),
    ("dense.rs", "ravel_mut", 0),
    ("dense.rs", "fill", 0),
    ("seq.rs", "sample", 1),           # StripedSequence::sample (0 is EncodedSequence::sample, safe code)
    ("seq.rs", "configure", 0),
    ("seq.rs", "configure_wrap", 0),
    ("scores.rs", "is_empty", 0),
]
# source roots of the four crates; a file name starting with one of the prefixes lives in that crate
CRATES = {"py/": "lightmotif-py/lightmotif", "io/": "lightmotif-io/src", "tfm/": "lightmotif-tfmpvalue/src"}


def src_path(repo, f):
    for pre, root in CRATES.items():
        if f.startswith(pre):
            return os.path.join(repo, root, f[len(pre):])
    return os.path.join(repo, SRC, f)


# lightmotif-py (PyO3 glue): functions addressed by (file, fn name, regex on the header of the enclosing `impl`;
# None = a free function).  Everything `unsafe` of the Python module is here: the raw pointers handed to Python
# through the buffer protocol (`as_ptr`, the five `__getbuffer__`, the constructors that compute the shape and
# strides a consumer walks the pointer with), the Scanner that keeps `&'static` references into two PyCells
# (`std::mem::transmute`; its keep-alive fields are pinned as the item `struct Scanner`), and the functions
# that call `configure` on a sequence other objects may point into.
PY_FUNCTIONS = [
    ("py/lib.rs", "as_ptr", r"^impl EncodedSequenceData\b"),
    ("py/lib.rs", "as_ptr", r"^impl StripedSequenceData\b"),
    ("py/lib.rs", "as_ptr", r"^impl ScoringMatrixData\b"),
    ("py/lib.rs", "__getbuffer__", r"^impl EncodedSequence\b"),
    ("py/lib.rs", "__getbuffer__", r"^impl StripedSequence\b"),
    ("py/lib.rs", "__getbuffer__", r"^impl ScoringMatrix\b"),
    ("py/lib.rs", "__getbuffer__", r"^impl ScoreDistribution\b"),
    ("py/lib.rs", "__getbuffer__", r"^impl StripedScores\b"),
    ("py/lib.rs", "from", r"^impl From<StripedSequenceData> for StripedSequence\b"),
    ("py/lib.rs", "from", r"^impl From<lightmotif::scores::StripedScores<f32>> for StripedScores\b"),
    ("py/lib.rs", "new", r"^impl ScoringMatrix\b"),
    ("py/lib.rs", "calculate", r"^impl ScoringMatrix\b"),
    ("py/lib.rs", "__init__", r"^impl Scanner\b"),
    ("py/lib.rs", "__next__", r"^impl Scanner\b"),
    ("py/lib.rs", "scan", None),
]

# other pinned items: (key, file, regex over the neutralised source)
SNIPPETS = [
    ("dense.rs::struct Row", "dense.rs", r"((?:#\[[^\]]*\]\s*)+)struct\s+Row\s*<[^{]*\{[^}]*\}"),
    ("seq.rs::DEFAULT_EXTRA_ROWS", "seq.rs", r"const\s+DEFAULT_EXTRA_ROWS\s*:\s*usize\s*=\s*\w+\s*;"),
    # the Python Scanner: the two `Py<..>` fields are what keeps the cells its `&'static` references point into alive
    ("py/lib.rs::struct Scanner", "py/lib.rs", r"((?:#\[[^\]]*\]\s*)*)pub\s+struct\s+Scanner\s*\{[^}]*\}"),
    ("py/lib.rs::struct StripedSequence", "py/lib.rs", r"pub\s+struct\s+StripedSequence\s*\{[^}]*\}"),
    ("py/lib.rs::struct StripedScores", "py/lib.rs", r"pub\s+struct\s+StripedScores\s*\{[^}]*\}"),
    ("py/lib.rs::struct ScoringMatrix", "py/lib.rs", r"pub\s+struct\s+ScoringMatrix\s*\{[^}]*\}"),
]
# files scanned for `unsafe` tokens
SCAN_SKIP = ()

MEM_INTRINSIC = re.compile(
    r"_mm\d*_(?:mask_?)?(?:load|loadu|lddqu|store|storeu|stream|maskload|maskstore|i32gather|i64gather|"
    r"load1|loadl|loadh|storel|storeh|broadcast_s[sd])\w*\s*\(|\bv(?:ld|st)[1-4]q?_\w+\s*\(")
ANY_INTRINSIC = re.compile(r"_mm\d*_\w+\s*\(|\bv[a-z]+[0-9]*q?_[a-z0-9_]+\s*\(|\b(?:u?int|float)\d+x\d+(?:x\d+)?_t\s*\(")
POINTERISH = re.compile(r"\.add\(|\.sub\(|\.offset\(|as_ptr\(|as_mut_ptr\(|from_raw_parts|set_len|get_unchecked|"
                        r"\*mut |\*const |\[[^\]]*\]\s*=|stride|resize|reserve|copy_from_slice")


class ParseError(Exception):
    pass


def neutralise(src):
    """Blank out comments and the contents of string/char literals (same length, newlines kept),
    so that brace matching and statement splitting see code only."""
    out = list(src)
    i, n = 0, len(src)

    def blank(a, b):
        for k in range(a, b):
            if out[k] != "\n":
                out[k] = " "
    while i < n:
        if src.startswith("//", i):
            j = src.find("\n", i)
            j = n if j < 0 else j
            blank(i, j)
            i = j
        elif src.startswith("/*", i):
            depth, j = 1, i + 2
            while j < n and depth:
                if src.startswith("/*", j):
                    depth, j = depth + 1, j + 2
                elif src.startswith("*/", j):
                    depth, j = depth - 1, j + 2
                else:
                    j += 1
            blank(i, j)
            i = j
        elif src[i] == '"':
            j = i + 1
            while j < n and src[j] != '"':
                j += 2 if src[j] == "\\" else 1
            blank(i + 1, min(j, n))
            i = j + 1
        elif src[i] == "'":
            # char literal ('x', '\n', '\'') or lifetime ('a): a literal closes within 4 chars
            m = re.match(r"'(?:\\.|[^\\'])'", src[i:i + 4])
            if m:
                blank(i + 1, i + m.end() - 1)
                i += m.end()
            else:
                i += 1
        else:
            i += 1
    return "".join(out)


def find_function(code, name, occurrence):
    """(start, end) offsets of the body `{ ... }` of the occurrence-th `fn name` in neutralised code."""
    hits = [m for m in re.finditer(r"\bfn\s+%s\b" % re.escape(name), code)]
    if occurrence >= len(hits):
        raise ParseError("function %s (occurrence %d) not found" % (name, occurrence))
    i = hits[occurrence].end()
    # the body starts at the first `{` at parenthesis/bracket depth 0 after the signature
    depth = 0
    while i < len(code):
        c = code[i]
        if c in "([":
            depth += 1
        elif c in ")]":
            depth -= 1
        elif c == ";" and depth == 0:
            raise ParseError("function %s has no body" % name)
        elif c == "{" and depth == 0:
            break
        i += 1
    start = i
    depth = 0
    while i < len(code):
        if code[i] == "{":
            depth += 1
        elif code[i] == "}":
            depth -= 1
            if depth == 0:
                return hits[occurrence].start(), start, i + 1
        i += 1
    raise ParseError("unbalanced braces in %s" % name)


IMPL_RX = re.compile(r"^impl\b[^{;]*\{", re.M)


def find_function_in_impl(code, name, impl_rx):
    """Like find_function, selecting the `fn name` whose enclosing top-level `impl` header matches impl_rx
    (None: the first `fn name` that is not inside any impl block, i.e. a free function)."""
    impls = [(m.start(), re.sub(r"\s+", " ", m.group(0)).strip()) for m in IMPL_RX.finditer(code)]
    hits = [m for m in re.finditer(r"\bfn\s+%s\b" % re.escape(name), code)]
    for k, h in enumerate(hits):
        before = [hdr for (pos, hdr) in impls if pos < h.start()]
        line_start = code.rfind("\n", 0, h.start()) + 1
        indented = code[line_start:h.start()].startswith((" ", "\t"))
        if impl_rx is None:
            if not indented:
                return find_function(code, name, k)
        elif before and indented and re.search(impl_rx, before[-1]):
            return find_function(code, name, k)
    raise ParseError("function %s in `%s` not found" % (name, impl_rx or "<free>"))


def statements(body):
    """Split a neutralised function body into statements at `;`, `{`, `}` (delimiter kept),
    whitespace normalised."""
    out = []
    cur = []
    depth = 0
    for c in body:
        if c in "([":
            depth += 1
        elif c in ")]":
            depth -= 1
        cur.append(c)
        if (c == ";" and depth == 0) or c in "{}":
            s = re.sub(r"\s+", " ", "".join(cur)).strip()
            if s:
                out.append(s)
            cur = []
            if c in "{}":
                depth = 0
    s = re.sub(r"\s+", " ", "".join(cur)).strip()
    if s:
        out.append(s)
    return out


def relevant(stmt):
    s = stmt
    if s in ("{", "}", "};", ";"):
        return False
    if s.startswith("#[") or s.startswith("use "):
        return False
    if s.startswith("unpack!") or s.startswith("_mm_sfence"):
        return False
    if s.startswith("macro_rules!") or re.match(r"^\(\s*epi\d+\s*,", s):
        return False
    if MEM_INTRINSIC.search(s):
        return True
    if ANY_INTRINSIC.search(s) and not POINTERISH.search(s):
        # pure register arithmetic: `let x = _mm256_add_ps(a, b);` / `s1 = _mm256_blendv_ps(..);`
        if re.match(r"^(let\s+(mut\s+)?[\w: <>]+=|[\w\[\]\.]+\s*=)\s*", s):
            return False
        # macro-expanded network steps `$a = _mm256_unpacklo_epi8(t, $b);`
        if re.match(r"^\$\w+\s*=", s):
            return False
    if re.match(r"^let t = \$a;$", s):
        return False
    return True


def extract(repo=None):
    repo = repo or REPO
    table = {}
    spans = {}
    cache = {}
    for (f, name, impl_rx) in PY_FUNCTIONS:
        if f not in cache:
            cache[f] = neutralise(open(src_path(repo, f)).read())
        code = cache[f]
        sig, b0, b1 = find_function_in_impl(code, name, impl_rx)
        header = re.sub(r"\s+", " ", code[sig:b0]).strip()
        stmts = [st for st in statements(code[b0:b1]) if relevant(st)]
        tag = re.sub(r"^\^|\\b$", "", impl_rx) if impl_rx else "fn"
        table["%s::%s::%s" % (f, tag, name)] = [header] + stmts
        spans.setdefault(f, []).append((code.rfind("\n", 0, sig) + 1, b1, name))
    for (f, name, occ) in FUNCTIONS:
        path = src_path(repo, f)
        if f not in cache:
            cache[f] = neutralise(open(path).read())
        code = cache[f]
        sig, b0, b1 = find_function(code, name, occ)
        header = re.sub(r"\s+", " ", code[sig:b0]).strip()
        stmts = [s for s in statements(code[b0:b1]) if relevant(s)]
        table["%s::%s#%d" % (f, name, occ)] = [header] + stmts
        # the span starts at the beginning of the declaration line (`pub unsafe fn ...`)
        spans.setdefault(f, []).append((code.rfind("\n", 0, sig) + 1, b1, name))
    for (key, f, rx) in SNIPPETS:
        if f not in cache:
            cache[f] = neutralise(open(src_path(repo, f)).read())
        m = re.search(rx, cache[f])
        if not m:
            raise ParseError("item %s not found" % key)
        table[key] = [re.sub(r"\s+", " ", m.group(0)).strip()]
    return table, spans, cache


def unsafe_outside(spans, cache, repo=None):
    """`unsafe` / `transmute` tokens of the four crates (lightmotif/src, lightmotif-py/lightmotif,
    lightmotif-io/src, lightmotif-tfmpvalue/src) that are not inside a listed function."""
    repo = repo or REPO
    bad = []
    roots = [("", os.path.join(repo, SRC))] + [(pre, os.path.join(repo, root)) for pre, root in CRATES.items()]
    for pre, root in roots:
        for d, _, files in os.walk(root):
            for fn in sorted(files):
                if not fn.endswith(".rs"):
                    continue
                rel = pre + os.path.relpath(os.path.join(d, fn), root)
                if rel in SCAN_SKIP:
                    continue
                code = cache.get(rel) or neutralise(open(os.path.join(d, fn)).read())
                for m in re.finditer(r"\bunsafe\b|\bmem::transmute\b|\btransmute\s*\(", code):
                    if not any(a <= m.start() < b for (a, b, _) in spans.get(rel, [])):
                        line = code.count("\n", 0, m.start()) + 1
                        bad.append("%s:%d" % (rel, line))
    return bad


def translate():
    notes = []
    try:
        table, spans, cache = extract()
        outside = unsafe_outside(spans, cache)
    except (ParseError, OSError) as e:
        return dict(ok=False, errors=["footprint source tie: cannot read the kernels: %s" % e], notes=notes)
    try:
        pinned = json.load(open(PIN))
    except (OSError, ValueError) as e:
        return dict(ok=False, errors=["footprint source tie: no pinned statements (%s)" % e], notes=notes)
    # optional translate/footprint_pinned_alt.json: statements of a repair that is about to be applied to /repo
    # (validated on a scratch worktree, model covering both forms) are accepted as well, so that the check stays
    # green across the commit; normally absent
    try:
        alt = json.load(open(PIN_ALT))
    except (OSError, ValueError):
        alt = {}
    errors = []
    for key in sorted(set(table) | set(pinned)):
        got, want = table.get(key), pinned.get(key)
        if got == want or (key in alt and got == alt[key]):
            continue
        if got is None or want is None:
            errors.append("%s: %s" % (key, "not pinned" if want is None else "no longer extracted"))
            continue
        k = 0
        while k < min(len(got), len(want)) and got[k] == want[k]:
            k += 1
        errors.append("memory-relevant statement %d of %s changed: model transcribed from `%s`, source now has `%s`" % (
            k, key, want[k] if k < len(want) else "<end>", got[k] if k < len(got) else "<end>"))
    if outside:
        errors.append("unsafe code outside the modelled functions: " + ", ".join(outside[:8]))
    n = sum(len(v) for v in table.values())
    notes.append("source tie: %d memory-relevant statements of %d functions compared with translate/footprint_pinned.json; "
                 "every `unsafe`/`transmute` token of the four crates lies inside them" % (n, len(table)))
    if errors:
        return dict(ok=False, errors=["footprint source tie: " + e for e in errors[:6]], notes=notes)
    return dict(ok=True, notes=notes)


if __name__ == "__main__":
    if "--pin" in sys.argv:
        table, spans, cache = extract("/repo")
        json.dump(table, open(PIN, "w"), indent=1, sort_keys=True)
        print("pinned %d functions, %d statements; unsafe outside: %s" % (
            len(table), sum(len(v) for v in table.values()), unsafe_outside(spans, cache, "/repo")))
    elif "--show" in sys.argv:
        table, _, _ = extract()
        for k, v in table.items():
            print("==", k)
            for s in v:
                print("   ", s)
    else:
        print(json.dumps(translate(), indent=1))
