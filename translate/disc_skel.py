"""Translator for property C08 (second one): statement skeleton of the discretisation in pwm/mod.rs
-> coq/disc/GenDiscSkel.v.

Functions read (lightmotif/src/pwm/mod.rs):
  * ScoringMatrix::to_discrete        offsets = per-row reduction (min_by / max_by) over `row[..A::K::USIZE - d]`,
                                      offset = sum of the offsets, factor expression, the cell loop (row range,
                                      column range), the cell expression, its rounding (`.ceil()` / `.floor()`) and
                                      the `as u8` cast, the struct literal
  * DiscreteMatrix::scale             expression, rounding, cast
  * DiscreteMatrix::unscale           expression
  * DiscreteMatrix::score_position    accumulator start, loop over `self.data.iter().enumerate()`, how the byte is
                                      accumulated (saturating_add / wrapping_add / +=), the index expression `pos + j`

The source is tokenised (comments and white space do not matter, nor does the line layout); every top-level
statement of each body must be one of the expected statements, in the expected order: an extra `if`, another loop
bound, another method is "cannot parse" (-> run() returns ok=False: a broken obligation, never a crash).  Float
expressions are parsed (precedence: method call / index > `as` > * / > + -) into the little expression type of
coq/disc/DiscSkel.v; semantically equal rewrites that keep the evaluation order (extra parentheses, line breaks,
renamed local variables of the closures) give the same output.
"""
import os
import re
import sys

VERIF = os.path.dirname(os.path.dirname(os.path.abspath(__file__)))
REPO = os.environ.get("VERIF_REPO", "/repo").rstrip("/") or "/repo"
PWM = os.path.join(REPO, "lightmotif/src/pwm/mod.rs")
OUT = os.path.join(VERIF, "coq", "disc", "GenDiscSkel.v")


class ParseError(Exception):
    pass


TOKEN = re.compile(r"\s*(?:(//[^\n]*|/\*.*?\*/)|(\"(?:[^\"\\\\]|\\\\.)*\"|[A-Za-z_][A-Za-z0-9_]*|\d+\.\d+|\d+|::|\.\.=|\.\.|->|=>|==|!=|<=|>=|&&|\|\||\+=|-=|\*=|/=|\S))",
                   re.S)


def tokenize(src):
    toks, i = [], 0
    n = len(src)
    while i < n:
        m = TOKEN.match(src, i)
        if not m:
            if src[i:].strip() == "":
                break
            raise ParseError("cannot tokenise near %r" % src[i:i + 30])
        i = m.end()
        if m.group(2) is not None:
            toks.append(m.group(2))
    return toks


def find_fn(toks, name, after=0):
    """index of the `{` opening the body of `fn name`, searching from `after`"""
    for i in range(after, len(toks) - 1):
        if toks[i] == "fn" and toks[i + 1] == name:
            j = i
            while toks[j] != "{":
                j += 1
                if j >= len(toks):
                    raise ParseError("body of fn %s not found" % name)
            return j
    raise ParseError("fn %s not found" % name)


def block(toks, i):
    """toks[i] == '{' -> (inner tokens, index after the closing brace)"""
    if toks[i] != "{":
        raise ParseError("expected `{`")
    depth = 0
    for j in range(i, len(toks)):
        if toks[j] == "{":
            depth += 1
        elif toks[j] == "}":
            depth -= 1
            if depth == 0:
                return toks[i + 1:j], j + 1
    raise ParseError("unbalanced braces")


def statements(toks):
    """split a body into top-level statements: `...;`, `for .. { .. }`, `if .. { .. }`, and the tail expression"""
    out, cur, depth = [], [], 0
    i = 0
    while i < len(toks):
        t = toks[i]
        if t in "([{":
            depth += 1
        elif t in ")]}":
            depth -= 1
        cur.append(t)
        if depth == 0 and t == ";":
            out.append(cur[:-1])
            cur = []
        elif depth == 0 and t == "}" and cur[0] in ("for", "if", "while", "loop", "match", "unsafe"):
            # a block statement ends with its closing brace (an `else` continues it)
            if i + 1 < len(toks) and toks[i + 1] == "else":
                pass
            else:
                out.append(cur)
                cur = []
        i += 1
    if cur:
        out.append(cur)
    return out


def J(toks):
    return " ".join(toks)


# ---------------------------------------------------------------- float expressions

class P:
    def __init__(self, toks):
        self.t, self.i = toks, 0

    def peek(self):
        return self.t[self.i] if self.i < len(self.t) else None

    def eat(self, x=None):
        if self.i >= len(self.t) or (x is not None and self.t[self.i] != x):
            raise ParseError("expected %r at %r" % (x, J(self.t[self.i:self.i + 6])))
        self.i += 1
        return self.t[self.i - 1]

    def primary(self):
        t = self.peek()
        if t == "(":
            self.eat("(")
            e = self.add()
            self.eat(")")
            return e
        if t is None or not re.match(r"[A-Za-z_]|\d", t):
            raise ParseError("unexpected token %r in an expression" % t)
        name = self.eat()
        while self.peek() == "::":
            self.eat()
            name += "::" + self.eat()
        return ("var", name)

    def postfix(self):
        e = self.primary()
        while True:
            t = self.peek()
            if t == "[":
                self.eat("[")
                idx = self.add()
                self.eat("]")
                e = ("index", e, idx)
            elif t == ".":
                self.eat(".")
                name = self.eat()
                if self.peek() == "(":
                    self.eat("(")
                    args = []
                    while self.peek() != ")":
                        args.append(self.add())
                        if self.peek() == ",":
                            self.eat(",")
                    self.eat(")")
                    e = ("call", e, name, args)
                else:
                    e = ("field", e, name)
            else:
                return e

    def cast(self):
        e = self.postfix()
        while self.peek() == "as":
            self.eat("as")
            e = ("as", e, self.eat())
        return e

    def mul(self):
        e = self.cast()
        while self.peek() in ("*", "/"):
            op = self.eat()
            e = ("bin", op, e, self.cast())
        return e

    def add(self):
        e = self.mul()
        while self.peek() in ("+", "-"):
            op = self.eat()
            e = ("bin", op, e, self.mul())
        return e


def parse_expr(toks):
    p = P(toks)
    e = p.add()
    if p.i != len(toks):
        raise ParseError("trailing tokens in expression: %s" % J(toks[p.i:]))
    return e


def show(e):
    k = e[0]
    if k == "var":
        return e[1]
    if k == "index":
        return "%s[%s]" % (show(e[1]), show(e[2]))
    if k == "field":
        return "%s.%s" % (show(e[1]), e[2])
    if k == "call":
        return "%s.%s(%s)" % (show(e[1]), e[2], ",".join(show(a) for a in e[3]))
    if k == "as":
        return "(%s as %s)" % (show(e[1]), e[2])
    return "(%s %s %s)" % (show(e[2]), e[1], show(e[3]))


def to_fexp(e, env):
    """AST -> Coq term of type fexp; env maps the printed form of a leaf to a variable of DiscSkel.fvar"""
    s = show(e)
    if s in env:
        return "EV %s" % env[s]
    # `255.0` / `(255 as f32)` written for `u8::MAX as f32`: the same constant
    if s in ("255.0", "(255 as f32)", "(255u8 as f32)") and "VU8Max" in env.values():
        return "EV VU8Max"
    k = e[0]
    if k == "bin":
        c = {"+": "EAdd", "-": "ESub", "*": "EMul", "/": "EDiv"}[e[1]]
        return "%s (%s) (%s)" % (c, to_fexp(e[2], env), to_fexp(e[3], env))
    if k == "call" and e[2] == "abs" and not e[3]:
        return "EAbs (%s)" % to_fexp(e[1], env)
    raise ParseError("expression %s is outside the modelled fragment (+ - * / abs over %s)" % (s, sorted(env)))


def rounded_byte(e):
    """`X.ceil() as u8` / `X.floor() as u8` -> (rounding, X)"""
    if e[0] == "as" and e[2] == "u8" and e[1][0] == "call" and e[1][2] in ("ceil", "floor") and not e[1][3]:
        return ("RCeil" if e[1][2] == "ceil" else "RFloor"), e[1][1]
    raise ParseError("expected `<expr>.ceil() as u8` or `<expr>.floor() as u8`, found %s" % show(e))


def expect(st, pattern, what):
    if J(st) != pattern:
        raise ParseError("%s: expected `%s`, found `%s`" % (what, pattern, J(st)))


# ---------------------------------------------------------------- the four functions

def parse_to_discrete(toks):
    body, _ = block(toks, find_fn(toks, "to_discrete"))
    sts = statements(body)
    if len(sts) != 8:
        raise ParseError("to_discrete: %d top-level statements instead of 8: %s" % (len(sts), [J(s)[:40] for s in sts]))
    expect(sts[0], "let max_score = self . max_score ( )", "to_discrete, statement 1")
    # offsets: per-row reduction over the row without its last d columns
    s = J(sts[1])
    m = re.fullmatch(r"let offsets = self \. matrix \( \) \. iter \( \) \. map \( \| (\w+) \| \{ \1 (\[ \.\. A :: K :: USIZE(?: - (\d+))? \] )?"
                     r"\. iter \( \) \. (min_by|max_by) \( \| (\w+) , (\w+) \| \5 \. partial_cmp \( \6 \) \. unwrap \( \) \) \. unwrap \( \) \} \) "
                     r"\. cloned \( \) \. collect :: < Vec < f32 > > \( \)", s)
    if not m:
        raise ParseError("to_discrete: offsets statement not recognised: %s" % s)
    drop = 0 if m.group(2) is None else int(m.group(3) or 0)
    if m.group(2) is None:
        raise ParseError("to_discrete: the offsets are reduced over the whole row (wildcard column included)")
    red = "RedMinBy" if m.group(4) == "min_by" else "RedMaxBy"
    expect(sts[2], "let offset = offsets . iter ( ) . sum :: < f32 > ( )", "to_discrete, statement 3")
    if sts[3][:3] != ["let", "factor", "="]:
        raise ParseError("to_discrete: `let factor = ..` expected, found %s" % J(sts[3]))
    factor = to_fexp(parse_expr(sts[3][3:]), {"max_score": "VMaxScore", "offset": "VOffset", "(u8::MAX as f32)": "VU8Max"})
    expect(sts[4], "let pssm = self . matrix ( )", "to_discrete, statement 5")
    expect(sts[5], "let mut data = DenseMatrix :: new ( self . len ( ) )", "to_discrete, statement 6")
    s = sts[6]
    head = "for i in 0 .. data . rows ( ) { for j in 0 .. data . columns ( ) { data [ i ] [ j ] ="
    if not J(s).startswith(head) or s[-3:] != [";", "}", "}"]:
        raise ParseError("to_discrete: cell loop `for i in 0..data.rows() { for j in 0..data.columns() { data[i][j] = ..; } }` "
                         "not recognised: %s" % J(s)[:160])
    n = len(head.split(" "))
    rnd, inner = rounded_byte(parse_expr(s[n:-3]))
    cell = to_fexp(inner, {"pssm[i][j]": "VCell", "offsets[i]": "VRowOffset", "factor": "VFactor"})
    tail = J(sts[7])
    m = re.fullmatch(r"DiscreteMatrix \{ ([\w , ]+?) ,? \}", tail)
    if not m or sorted(x.strip() for x in m.group(1).split(",")) != ["data", "factor", "offset", "offsets"]:
        raise ParseError("to_discrete: result literal not recognised: %s" % tail)
    return dict(red=red, drop=drop, factor=factor, cell=cell, rnd=rnd)


def parse_scale(toks, start):
    body, _ = block(toks, find_fn(toks, "scale", start))
    sts = statements(body)
    if len(sts) != 1:
        raise ParseError("scale: %d statements instead of 1" % len(sts))
    rnd, inner = rounded_byte(parse_expr(sts[0]))
    return dict(rnd=rnd, expr=to_fexp(inner, {"score": "VScore", "self.offset": "VOffset", "self.factor": "VFactor"}))


def parse_unscale(toks, start):
    body, _ = block(toks, find_fn(toks, "unscale", start))
    sts = statements(body)
    if len(sts) != 1:
        raise ParseError("unscale: %d statements instead of 1" % len(sts))
    return dict(expr=to_fexp(parse_expr(sts[0]), {"(score as f32)": "VByte", "self.offset": "VOffset", "self.factor": "VFactor"}))


def parse_score_position(toks, start):
    body, _ = block(toks, find_fn(toks, "score_position", start))
    sts = statements(body)
    if len(sts) != 4:
        raise ParseError("DiscreteMatrix::score_position: %d statements instead of 4" % len(sts))
    m = re.fullmatch(r"let mut score = (\d+)(?:u8)?", J(sts[0]).replace(" u8", "u8"))
    if not m:
        raise ParseError("score_position: accumulator start not recognised: %s" % J(sts[0]))
    start_v = int(m.group(1))
    expect(sts[1], "let s = seq . as_ref ( )", "score_position, statement 2")
    s = J(sts[2])
    head = "for ( j , row ) in self . data . iter ( ) . enumerate ( ) { "
    if not s.startswith(head) or not s.endswith(" ; }"):
        raise ParseError("score_position: loop not recognised: %s" % s)
    st = s[len(head):-4]
    idx = r"row \[ s \[ (pos \+ j|j \+ pos) \] \. as_index \( \) \]"
    acc = None
    for a, rx in (("AccSaturating", r"score = score \. saturating_add \( %s \)" % idx),
                  ("AccWrapping", r"score = score \. wrapping_add \( %s \)" % idx),
                  ("AccPlain", r"score \+= %s" % idx),
                  ("AccPlain", r"score = score \+ %s" % idx)):
        if re.fullmatch(rx, st):
            acc = a
    if acc is None:
        raise ParseError("score_position: accumulation statement not recognised: %s" % st)
    expect(sts[3], "score", "score_position, result")
    return dict(acc=acc, start=start_v)


def render(td, sc, un, sp):
    L = []
    L.append("(* GENERATED by translate/disc_skel.py from /repo/lightmotif/src/pwm/mod.rs (ScoringMatrix::to_discrete,")
    L.append("   DiscreteMatrix::{scale, unscale, score_position}) -- do not edit; regenerated on every check. *)")
    L.append("From Coq Require Import ZArith.")
    L.append("From LMDisc Require Import DiscSkel.")
    L.append("")
    L.append("(* offsets: `row[..A::K::USIZE - %d].iter().%s(partial_cmp .. unwrap)` *)" % (td["drop"], "min_by" if td["red"] == "RedMinBy" else "max_by"))
    L.append("Definition gen_td_off_red : red := %s." % td["red"])
    L.append("Definition gen_td_off_drop : nat := %d." % td["drop"])
    L.append("(* let factor = .. *)")
    L.append("Definition gen_td_factor : fexp := %s." % td["factor"])
    L.append("(* data[i][j] = (..).%s() as u8, for every row i and every column j *)" % ("ceil" if td["rnd"] == "RCeil" else "floor"))
    L.append("Definition gen_td_cell : fexp := %s." % td["cell"])
    L.append("Definition gen_td_cell_rnd : rnd := %s." % td["rnd"])
    L.append("(* DiscreteMatrix::scale *)")
    L.append("Definition gen_scale : fexp := %s." % sc["expr"])
    L.append("Definition gen_scale_rnd : rnd := %s." % sc["rnd"])
    L.append("(* DiscreteMatrix::unscale *)")
    L.append("Definition gen_unscale : fexp := %s." % un["expr"])
    L.append("(* DiscreteMatrix::score_position: `let mut score = %du8; for (j, row) in ..enumerate() { score (+)= row[s[pos + j].as_index()] }` *)" % sp["start"])
    L.append("Definition gen_sp_acc : acc := %s." % sp["acc"])
    L.append("Definition gen_sp_start : Z := %d%%Z." % sp["start"])
    L.append("")
    L.append("Definition gen_skel : skel := {|")
    L.append("  sk_off_red := gen_td_off_red; sk_off_drop := gen_td_off_drop; sk_factor := gen_td_factor;")
    L.append("  sk_cell := gen_td_cell; sk_cell_rnd := gen_td_cell_rnd; sk_scale := gen_scale; sk_scale_rnd := gen_scale_rnd;")
    L.append("  sk_unscale := gen_unscale; sk_sp_acc := gen_sp_acc; sk_sp_start := gen_sp_start |}.")
    L.append("")
    return "\n".join(L)


def run(write=True):
    notes, errors = [], []
    try:
        toks = tokenize(open(PWM).read())
        td = parse_to_discrete(toks)
        # the DiscreteMatrix impl block comes after ScoringMatrix's: search its functions from `impl .. DiscreteMatrix`
        start = None
        for i in range(len(toks) - 6):
            if toks[i] == "impl" and "DiscreteMatrix" in toks[i:i + 9] and "for" not in toks[i:i + 9] and "{" in toks[i:i + 12]:
                start = i
                break
        if start is None:
            raise ParseError("impl<A: Alphabet> DiscreteMatrix<A> not found")
        sp = parse_score_position(toks, start)
        sc = parse_scale(toks, start)
        un = parse_unscale(toks, start)
        text = render(td, sc, un, sp)
    except (ParseError, OSError, ValueError, IndexError, KeyError) as e:
        errors.append("disc_skel: cannot parse the source: %s" % e)
        if not os.path.exists(OUT):
            errors.append("no previously generated GenDiscSkel.v")
        return dict(ok=False, notes=notes, errors=errors)
    changed = False
    if write:
        try:
            old = open(OUT).read()
        except OSError:
            old = None
        if old != text:
            with open(OUT, "w") as f:
                f.write(text)
            changed = True
    notes.append("disc_skel: to_discrete %s; scale %s; unscale %s; score_position %s%s" % (td, sc, un, sp, " (regenerated)" if changed else ""))
    return dict(ok=True, notes=notes, errors=errors)


if __name__ == "__main__":
    if "--show" in sys.argv:
        toks = tokenize(open(PWM).read())
        print(render(parse_to_discrete(toks), parse_scale(toks, 0), parse_unscale(toks, 0), parse_score_position(toks, 0)))
        sys.exit(0)
    r = run(write="--dry" not in sys.argv)
    print(r)
    sys.exit(0 if r["ok"] else 1)
