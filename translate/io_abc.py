"""Translator for the model group `io` (properties C14/C15): tables of coq/io/GenIoAbc.v.

Re-extracts, from /repo's working tree on every run (reader: translate/encode_abc.py),

  lightmotif/src/abc.rs
    * for the alphabets Dna and Protein: `type K` and the arms of `from_ascii` of the
      symbol enum as (ASCII byte, discriminant of the variant) in source order
      (discriminant = what `as_index` returns: `*self as usize`, checked);
    * the arms of `Nucleotide::as_ascii` (for the JASPAR symbol array below).
  lightmotif-io/src/jaspar/parse.rs, fn matrix
    * the array `let symbols = &[Nucleotide::A, Nucleotide::C, Nucleotide::G, Nucleotide::T];`
      -> for each variant (as_ascii byte, discriminant), in array order = order of the four
      count lines; the array must be handed to `build_matrix(g, symbols)` with
      `g = GenericArray::from([a, c, g, t])`.
  lightmotif-io/src/jaspar/mod.rs and jaspar16/mod.rs, Reader::new
    * the constants U and S of
      `let start = reader.read_until(b'>', &mut buffer).unwrap_or(U).saturating_sub(S);`
      (any other shape is a parse error).
  lightmotif-io/src/uniprobe/parse.rs, fn matrix_column
    * whether the terminator (second argument of the outer `terminated(`) is `line_ending`
      (false) or `alt((line_ending, eof))` / `alt((line_ending, nom::combinator::eof))` (true);
      anything else is a parse error.

and writes coq/io/GenIoAbc.v (only if changed; path overridable with IO_ABC_OUT).  Nothing here
is trusted for the *property*: the theorems of coq/io are re-checked over whatever tables are
generated; what is trusted is that this parser reads the Rust source the way rustc does.

A source that can no longer be parsed gives dict(ok=False, errors=[...]) and leaves the previous
GenIoAbc.v in place.
"""
import os
import re

from translate import encode_abc as E

ParseError = E.ParseError
VERIF = E.VERIF


def _repo():
    return os.environ.get("VERIF_REPO", "/repo").rstrip("/") or "/repo"   # same override as encode_abc.py


def _out():
    return os.environ.get("IO_ABC_OUT") or os.path.join(VERIF, "coq", "io", "GenIoAbc.v")


def _read(rel):
    return E.strip_comments(open(os.path.join(_repo(), rel)).read())


def _usize_literal(tok, what):
    m = re.fullmatch(r"(0x[0-9a-fA-F_]+|0o[0-7_]+|0b[01_]+|[0-9][0-9_]*)(usize)?", tok.strip())
    if not m:
        raise ParseError("%s: %r is not an integer literal" % (what, tok))
    return int(m.group(1).replace("_", ""), 0)


# ------------------------------------------------------------------ jaspar/parse.rs

def parse_jaspar_symbols(src, dna):
    """(as_ascii byte, discriminant) of the elements of `symbols` in fn matrix."""
    errors = []
    body = E.find_fn(src, "matrix", "jaspar/parse.rs")
    if body is None:
        raise ParseError("jaspar/parse.rs: fn matrix has no body")
    ms = re.findall(r"\blet\s+symbols\s*(?::[^=;]*)?=\s*&\s*\[([^\]]*)\]\s*;", body)
    if len(ms) != 1:
        raise ParseError("jaspar/parse.rs matrix(): expected exactly one `let symbols = &[...];`, found %d" % len(ms))
    disc = dict(zip(dna["names"], dna["discr"]))
    ascii_of = {}
    for v, b in dna["as_ascii"]:
        if v in ascii_of:
            raise ParseError("%s::as_ascii: two arms for discriminant %d" % (dna["symbol"], v))
        ascii_of[v] = b
    out = []
    for it in E.split_top(ms[0]):
        it = it.strip()
        if not it:
            continue
        mm = re.fullmatch(r"(?:[\w:]*::)?(\w+)::(\w+)", it)
        if not mm:
            raise ParseError("jaspar/parse.rs matrix(): unsupported element %r of `symbols`" % it)
        if mm.group(1) != dna["symbol"]:
            raise ParseError("jaspar/parse.rs matrix(): element %r of `symbols` is not a %s (Dna::Symbol)"
                             % (it, dna["symbol"]))
        if mm.group(2) not in disc:
            raise ParseError("jaspar/parse.rs matrix(): unknown variant %s" % it)
        v = disc[mm.group(2)]
        if v not in ascii_of:
            raise ParseError("%s::as_ascii has no arm for %s" % (dna["symbol"], mm.group(2)))
        out.append((ascii_of[v], v))
    nb = E.norm(body)
    if len(out) != 4:
        errors.append("jaspar/parse.rs matrix(): `symbols` has %d elements (model: four count lines a, c, g, t)" % len(out))
    if nb.count("matrix_column(input)?;") != 4 or "letg=GenericArray::from([a,c,g,t]);" not in nb:
        errors.append("jaspar/parse.rs matrix(): not four matrix_column lines collected as GenericArray::from([a, c, g, t])")
    if "matchbuild_matrix(g,symbols){" not in nb:
        errors.append("jaspar/parse.rs matrix(): `build_matrix(g, symbols)` not found")
    return out, errors


# ------------------------------------------------------------------ jaspar*/mod.rs

def parse_reader_new(src, fname):
    """(U, S) of `let start = reader.read_until(b'>', &mut buffer).unwrap_or(U).saturating_sub(S);`"""
    m = re.search(r"\bimpl\s*<[^{};]*?>\s*Reader\s*<[^{};]*>\s*\{", src)
    if not m or re.search(r"\bfor\b", m.group(0)):
        raise ParseError("%s: cannot find the inherent impl of Reader" % fname)
    blk, _ = E.block_after(src, m.end() - 1)
    body = E.find_fn(blk, "new", fname + " impl Reader")
    if body is None:
        raise ParseError("%s: Reader::new has no body" % fname)
    nb = E.norm(body)
    if nb.count("read_until") != 1:
        raise ParseError("%s Reader::new: %d calls of read_until (model: one)" % (fname, nb.count("read_until")))
    mm = re.search(r"letstart=reader\.read_until\(b'>',&mutbuffer\)\.unwrap_or\(([^()]*)\)\.saturating_sub\(([^()]*)\);", nb)
    if not mm:
        raise ParseError("%s Reader::new: not `let start = reader.read_until(b'>', &mut buffer)"
                         ".unwrap_or(U).saturating_sub(S);`: %r" % (fname, body.strip()))
    if not nb.startswith("letmutbuffer=Vec::new();letstart="):
        raise ParseError("%s Reader::new: `buffer` is not a fresh Vec::new() before read_until" % fname)
    return (_usize_literal(mm.group(1), fname + " Reader::new unwrap_or"),
            _usize_literal(mm.group(2), fname + " Reader::new saturating_sub"))


def parse_reader_slice(src, fname):
    """Iterator::next: the record slice for n != 0 is `&self.buffer[self.start..=self.start + n]` (False) or the
    guarded `match self.buffer.get(self.start..=self.start + n) { Some(b) => b, None => &self.buffer[self.start..] }`
    (True); the n == 0 slice must be `&self.buffer[self.start..]`."""
    m = re.search(r"\bimpl\s*<[^{};]*?>\s*Iterator\s+for\s+Reader\s*<[^{};]*>\s*\{", src)
    if not m:
        raise ParseError("%s: cannot find `impl Iterator for Reader`" % fname)
    blk, _ = E.block_after(src, m.end() - 1)
    body = E.find_fn(blk, "next", fname + " impl Iterator for Reader")
    if body is None:
        raise ParseError("%s: Reader::next has no body" % fname)
    nb = E.norm(body)
    plain = "letbytes=ifn==0{&self.buffer[self.start..]}else{&self.buffer[self.start..=self.start+n]};"
    guard = re.compile(r"letbytes=ifn==0\{&self\.buffer\[self\.start\.\.\]\}else\{matchself\.buffer\.get\(self\.start\.\.=self\.start\+n\)"
                       r"\{Some\((\w+)\)=>\1,None=>&self\.buffer\[self\.start\.\.\],?\}\};")
    if plain in nb:
        return False
    if guard.search(nb):
        return True
    raise ParseError("%s Reader::next: the `let bytes = if n == 0 {..} else {..};` slice has neither of the two modelled shapes" % fname)


# ------------------------------------------------------------------ uniprobe/parse.rs

def parse_uniprobe_terminator(src):
    body = E.find_fn(src, "matrix_column", "uniprobe/parse.rs")
    if body is None:
        raise ParseError("uniprobe/parse.rs: fn matrix_column has no body")
    nb = E.norm(body)
    m = re.fullmatch(r"terminated\((.*)\)\(input\)", nb, re.S)
    if not m:
        raise ParseError("uniprobe/parse.rs matrix_column: body is not `terminated(..)(input)`: %r" % body.strip())
    args = [a for a in E.split_top(m.group(1)) if a != ""]
    if len(args) != 2:
        raise ParseError("uniprobe/parse.rs matrix_column: terminated( has %d arguments" % len(args))
    if args[1] == "line_ending":
        return False
    if re.fullmatch(r"(nom::branch::)?alt\(\(line_ending,(nom::combinator::)?eof\)\)", args[1]):
        return True
    raise ParseError("uniprobe/parse.rs matrix_column: unsupported terminator %r" % args[1])


# ------------------------------------------------------------------ output

def _pairs(l):
    return "[" + "; ".join("(%d%%N, %d)" % p for p in l) + "]"


def emit(dna, protein, jsyms, jnew, j16new, col_eof, jsym_text, guard):
    o = []
    o.append("(* GENERATED by translate/io_abc.py from /repo/lightmotif/src/abc.rs and")
    o.append("   /repo/lightmotif-io/src/{jaspar,jaspar16,uniprobe}/{mod,parse}.rs on every run -- do not edit. *)")
    o.append("From Coq Require Import List NArith.")
    o.append("Import ListNotations.")
    o.append("")
    o.append("(* abc.rs, alphabet Dna (symbol enum %s): K and the arms of from_ascii as" % dna["symbol"])
    o.append("   (ASCII byte, discriminant of the variant = as_index) in source order *)")
    o.append("Definition gen_dna_K : nat := %d." % dna["K"])
    o.append("Definition gen_dna_from_ascii : list (N * nat) :=")
    o.append("  %s." % _pairs(dna["from_ascii"]))
    o.append("")
    o.append("(* abc.rs, alphabet Protein (symbol enum %s) *)" % protein["symbol"])
    o.append("Definition gen_protein_K : nat := %d." % protein["K"])
    o.append("Definition gen_protein_from_ascii : list (N * nat) :=")
    o.append("  %s." % _pairs(protein["from_ascii"]))
    o.append("")
    o.append("(* jaspar/parse.rs matrix(): `let symbols = &[%s]`" % jsym_text)
    o.append("   as (as_ascii byte, as_index) of each variant, in array order = order of the four count lines *)")
    o.append("Definition gen_jaspar_symbols : list (N * nat) := %s." % _pairs(jsyms))
    o.append("")
    o.append("(* jaspar/mod.rs and jaspar16/mod.rs Reader::new: read_until(b'>', ..).unwrap_or(U).saturating_sub(S) *)")
    o.append("Definition gen_jaspar_new_unwrap_or : nat := %d." % jnew[0])
    o.append("Definition gen_jaspar_new_sub : nat := %d." % jnew[1])
    o.append("Definition gen_jaspar16_new_unwrap_or : nat := %d." % j16new[0])
    o.append("Definition gen_jaspar16_new_sub : nat := %d." % j16new[1])
    o.append("")
    o.append("(* jaspar/mod.rs and jaspar16/mod.rs Iterator::next, slice of the record when n != 0:")
    o.append("   `&self.buffer[self.start..=self.start + n]` (false) or, guarded,")
    o.append("   `match self.buffer.get(self.start..=self.start + n) { Some(b) => b, None => &self.buffer[self.start..] }` (true) *)")
    o.append("Definition gen_jaspar_slice_guard : bool := %s." % ("true" if guard else "false"))
    o.append("")
    o.append("(* uniprobe/parse.rs matrix_column: the terminator is `line_ending` (false) or")
    o.append("   `alt((line_ending, eof))` (true) *)")
    o.append("Definition gen_uniprobe_col_eof : bool := %s." % ("true" if col_eof else "false"))
    return "\n".join(o) + "\n"


def translate():
    errors, notes = [], []
    out = _out()
    try:
        src = _read("lightmotif/src/abc.rs")
        dna, errs = E.parse_alphabet(src, "Dna")
        errors += errs
        protein, errs = E.parse_alphabet(src, "Protein")
        errors += errs
        errors += E.check_trait_defaults(src)        # from_char = is_ascii + from_ascii (what p_symbol models)
        jp = _read("lightmotif-io/src/jaspar/parse.rs")
        jsyms, errs = parse_jaspar_symbols(jp, dna)
        errors += errs
        names = dict(zip(dna["discr"], dna["names"]))
        jsym_text = ", ".join("%s::%s" % (dna["symbol"], names[v]) for _, v in jsyms)
        jnew = parse_reader_new(_read("lightmotif-io/src/jaspar/mod.rs"), "jaspar/mod.rs")
        j16new = parse_reader_new(_read("lightmotif-io/src/jaspar16/mod.rs"), "jaspar16/mod.rs")
        col_eof = parse_uniprobe_terminator(_read("lightmotif-io/src/uniprobe/parse.rs"))
        g1 = parse_reader_slice(_read("lightmotif-io/src/jaspar/mod.rs"), "jaspar/mod.rs")
        g2 = parse_reader_slice(_read("lightmotif-io/src/jaspar16/mod.rs"), "jaspar16/mod.rs")
        if g1 != g2:
            raise ParseError("jaspar/mod.rs and jaspar16/mod.rs slice the record differently (the model shares one next())")
    except (ParseError, OSError) as e:
        return dict(ok=False, errors=["cannot parse source: %s" % e], notes=notes)
    text = emit(dna, protein, jsyms, jnew, j16new, col_eof, jsym_text, g1)
    changed = False
    try:
        old = open(out).read()
    except OSError:
        old = None
    if old != text:
        os.makedirs(os.path.dirname(out), exist_ok=True)
        with open(out, "w") as f:
            f.write(text)
        changed = True
    notes.append("translator: GenIoAbc.v %s (Dna K=%d from_ascii %s; Protein K=%d from_ascii %s; jaspar symbols %s; "
                 "jaspar new unwrap_or(%d).saturating_sub(%d); jaspar16 new unwrap_or(%d).saturating_sub(%d); "
                 "uniprobe column terminator %s; jaspar slice guard %s)" % (
                     "rewritten" if changed else "unchanged",
                     dna["K"], "".join(chr(b) for b, _ in dna["from_ascii"]),
                     protein["K"], "".join(chr(b) for b, _ in protein["from_ascii"]),
                     " ".join("%s=%d" % (chr(b), v) for b, v in jsyms),
                     jnew[0], jnew[1], j16new[0], j16new[1],
                     "alt((line_ending, eof))" if col_eof else "line_ending", g1))
    return dict(ok=not errors, errors=errors, notes=notes)


if __name__ == "__main__":
    import json
    print(json.dumps(translate(), indent=1))
