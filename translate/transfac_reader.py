"""Translator for the model group `transfac` (properties C14/C15): coq/transfac/GenReader.v.

Re-extracts, from /repo's working tree on every run, the small data-like facts of
lightmotif-io/src/transfac/reader.rs on which the reader model (TransfacReader.v / TransfacFault.v)
and its theorems depend:

  * how `last` is advanced after a line has been read, in the loop of `Reader::new`
    (`reader.last += n`) and in the loop of `Iterator::next` (`self.last += n`):
        X.last += n | X.last = X.last + n | X.last = n + X.last      -> false  (the code as it was)
        X.last = X.buffer.len()                                       -> true   (repair of finding F-T1)
    both loops must agree (the model has one flag, TransfacFault `fixed`); anything else is a
    parse error.  The flag selects the model the driver runs against the scripted (faulty)
    streams, and the theorems C15.reader_total_faults_current* are re-checked against it.
  * the string literals given to `starts_with(..)` in `new` (record terminator, version tag) and
    in `next` (terminator, twice), in source order; C15.gen_prefixes_are_modelled re-checks that
    they are the ones the model uses ("//", "VV").

and, from lightmotif/src/abc.rs (reader: translate/encode_abc.py) and transfac/parse.rs:

  * for the alphabets Dna and Protein: K and the arms of `from_ascii` of the symbol enum as
    (ASCII byte, discriminant = as_index) -- what `map_res(anychar, S::from_char)` of parse_alphabet
    accepts and the matrix column it selects (the trait default `from_char` must have the modelled body);
    C14.sym_index_is_generated / alpha_k_is_generated re-check the hand-written tables of
    TransfacParse.v (sym_index, alpha_k) against them;
  * the two-letter line codes accepted by `parse_tag` (the string patterns of its first match arm);
    C15.tags_are_generated re-checks TransfacParse.classify against them.

Harmless reformatting (blanks, line breaks, comments) is tolerated.  A source that can no longer
be parsed gives dict(ok=False, errors=[...]) -- reported by the runner as a broken obligation --
and leaves the previous GenReader.v in place.  Nothing here is trusted for the property: the
differential check runs the model selected by the flag against the implementation.
"""
import os
import re

from translate import encode_abc as E

ParseError = E.ParseError
VERIF = E.VERIF
REL = "lightmotif-io/src/transfac/reader.rs"


def _repo():
    return os.environ.get("VERIF_REPO", "/repo").rstrip("/") or "/repo"


def _out():
    return os.environ.get("TRANSFAC_READER_OUT") or os.path.join(VERIF, "coq", "transfac", "GenReader.v")


def _last_updates(body, var, what):
    """the assignments to <var>.last inside the `Ok(n) => {..}` arm of the read_line loop"""
    w = r"\s*"
    v = re.escape(var)
    out = []
    for m in re.finditer(r"\b%s%s\.%slast%s(\+=|=(?!=))%s([^;]*);" % (v, w, w, w, w), body):
        op, rhs = m.group(1), re.sub(r"\s+", "", m.group(2))
        out.append((op, rhs, m.start()))
    if not out:
        raise ParseError("%s: no assignment to %s.last" % (what, var))
    return out


def _classify(op, rhs, var, n, what):
    if op == "+=" and rhs == n:
        return False
    if op == "=" and rhs in ("%s.last+%s" % (var, n), "%s+%s.last" % (n, var)):
        return False
    if op == "=" and rhs == "%s.buffer.len()" % var:
        return True
    if op == "=" and rhs == "0":
        return None   # the reset after a record / the version header
    raise ParseError("%s: unmodelled update `%s.last %s %s`" % (what, var, op, rhs))


def _loop_flag(body, var, what):
    # the `match <var>.bufread.read_line(..) { .. }` block and the length bound by its Ok arm
    # (the name of the variable holding the reader is taken from the source)
    m = re.search(r"\bmatch\s+([A-Za-z_][A-Za-z0-9_]*)\s*\.\s*bufread\s*\.\s*read_line\s*\(", body)
    if not m:
        raise ParseError("%s: no `match <reader>.bufread.read_line(..)`" % what)
    var = m.group(1)
    brace = body.find("{", m.end())
    if brace < 0:
        raise ParseError("%s: read_line match without block" % what)
    block, _ = E.block_after(body, brace)
    ns = re.findall(r"\bOk\s*\(\s*([A-Za-z_][A-Za-z0-9_]*)\s*\)\s*=>", block)
    if len(ns) != 1:
        raise ParseError("%s: expected one `Ok(n) =>` arm of read_line, found %d" % (what, len(ns)))
    n = ns[0]
    flags = []
    for op, rhs, _ in _last_updates(body, var, what):
        c = _classify(op, rhs, var, n, what)
        if c is not None:
            flags.append(c)
    if len(flags) != 1:
        raise ParseError("%s: expected exactly one advance of %s.last, found %d" % (what, var, len(flags)))
    return flags[0]


def _prefixes(body, what):
    out = []
    for m in re.finditer(r"\.\s*starts_with\s*\(\s*(\"(?:[^\"\\]|\\.)*\")\s*\)", body):
        out.append(E.str_literal(m.group(1)))
    if not out:
        raise ParseError("%s: no starts_with(\"..\")" % what)
    return out


ABC_REL = "lightmotif/src/abc.rs"
PARSE_REL = "lightmotif-io/src/transfac/parse.rs"


def parse_tags(src):
    body = E.find_fn(src, "parse_tag", PARSE_REL)
    if body is None:
        raise ParseError("parse.rs: fn parse_tag has no body")
    m = re.search(r"\bmatch\s+tag\s*\{", body)
    if not m:
        raise ParseError("parse_tag: no `match tag {`")
    block, _ = E.block_after(body, m.end() - 1)
    arms = E.split_arms(block)
    if len(arms) != 2:
        raise ParseError("parse_tag: expected two arms (codes, catch-all), found %d" % len(arms))
    (pat, expr), (pat2, expr2) = arms
    # (how the two characters are split off and what the arms return is left to the differential check)
    if not E.norm(expr).startswith("Ok(") or pat2.strip() != "_" or not E.norm(expr2).startswith("Err("):
        raise ParseError("parse_tag: unmodelled arm bodies %r / %r => %r" % (expr, pat2, expr2))
    tags = []
    for alt in pat.split("|"):
        t = E.str_literal(alt)
        if len(t) != 2:
            raise ParseError("parse_tag: code %r is not two bytes" % alt)
        tags.append(t)
    return tags


def parse_abc(src):
    out = {}
    errors = list(E.check_trait_defaults(src))
    for name in ("Dna", "Protein"):
        a, errs = E.parse_alphabet(src, name)
        errors.extend(errs)
        out[name] = dict(K=a["K"], from_ascii=a["from_ascii"])
    errors = [e for e in errors if "from_char" in e or "as_index" in e or "from_ascii" in e]
    if errors:
        raise ParseError("; ".join(errors))
    return out


def parse(src):
    new = E.find_fn(src, "new", REL)
    nxt = E.find_fn(src, "next", REL)
    if new is None or nxt is None:
        raise ParseError("%s: fn new / fn next without body" % REL)
    f_new = _loop_flag(new, "reader", "Reader::new")
    f_next = _loop_flag(nxt, "self", "Iterator::next")
    if f_new != f_next:
        raise ParseError("Reader::new and Iterator::next advance `last` differently (new: %s, next: %s): "
                         "the model has one flag" % (f_new, f_next))
    return dict(fixed=f_new, new_prefixes=_prefixes(new, "Reader::new"), next_prefixes=_prefixes(nxt, "Iterator::next"))


def _coq_str(s):
    if isinstance(s, str):
        s = s.encode()
    return "[" + "; ".join("x%02x" % b for b in s) + "]"


def _pairs(l):
    return "[" + "; ".join("(x%02x, %d)" % (b, v) for b, v in l) + "]"


def emit(r):
    abc = r["abc"]
    return (
        "(* GENERATED by translate/transfac_reader.py from %s on every run of ./check C14 / C15 -- do not edit.\n"
        "   reader_last_is_buffer_len: false = `last += n` (the code as it was), true = `last = buffer.len()`\n"
        "   (repair of finding F-T1), in the loops of Reader::new and Iterator::next;\n"
        "   gen_*_prefixes: the literals given to starts_with(..) in those functions, in source order. *)\n"
        "From Coq Require Import List.\n"
        "From Coq Require Import Init.Byte.\n"
        "Import ListNotations.\n\n"
        "Definition reader_last_is_buffer_len : bool := %s.\n"
        "Definition gen_new_prefixes : list (list byte) := [%s].\n"
        "Definition gen_next_prefixes : list (list byte) := [%s].\n"
        "(* lightmotif/src/abc.rs: K and the arms of from_ascii as (byte, as_index) *)\n"
        "Definition gen_k_dna : nat := %d.\n"
        "Definition gen_from_ascii_dna : list (byte * nat) := %s.\n"
        "Definition gen_k_protein : nat := %d.\n"
        "Definition gen_from_ascii_protein : list (byte * nat) := %s.\n"
        "(* transfac/parse.rs parse_tag: the accepted line codes, in source order *)\n"
        "Definition gen_tags : list (list byte) := [%s].\n"
        % (REL, "true" if r["fixed"] else "false",
           "; ".join(_coq_str(p) for p in r["new_prefixes"]),
           "; ".join(_coq_str(p) for p in r["next_prefixes"]),
           abc["Dna"]["K"], _pairs(abc["Dna"]["from_ascii"]),
           abc["Protein"]["K"], _pairs(abc["Protein"]["from_ascii"]),
           "; ".join(_coq_str(bytes(t)) for t in r["tags"])))


def translate():
    path = os.path.join(_repo(), REL)
    try:
        src = E.strip_comments(open(path).read())
        r = parse(src)
        r["abc"] = parse_abc(E.strip_comments(open(os.path.join(_repo(), ABC_REL)).read()))
        r["tags"] = parse_tags(E.strip_comments(open(os.path.join(_repo(), PARSE_REL)).read()))
    except (ParseError, OSError, ValueError, IndexError, KeyError) as e:
        return dict(ok=False, errors=["transfac_reader: cannot parse (%s | %s | %s): %s" % (REL, PARSE_REL, ABC_REL, e)], notes=[])
    text = emit(r)
    out = _out()
    try:
        old = open(out).read()
    except OSError:
        old = None
    if old != text:
        with open(out, "w") as f:
            f.write(text)
    return dict(ok=True, notes=["transfac_reader: last advance = %s; prefixes new=%r next=%r; K=%d/%d; %d line codes" % (
        "buffer.len()" if r["fixed"] else "+= n", r["new_prefixes"], r["next_prefixes"],
        r["abc"]["Dna"]["K"], r["abc"]["Protein"]["K"], len(r["tags"]))])


if __name__ == "__main__":
    import sys
    print(translate())
    sys.stdout.write(open(_out()).read())
