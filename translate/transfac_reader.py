"""Translator for the model group `transfac` (properties C14/C15): coq/transfac/GenReader.v.

Re-extracts, from /repo's working tree on every run, the small data-like facts of
lightmotif-io/src/transfac/reader.rs on which the reader model (TransfacReader.v / TransfacFault.v)
and its theorems depend:

  * how `last` is advanced after a line has been read, in the loop of `Reader::new`
    (`reader.last += n`) and in the loop of `Iterator::next` (`self.last += n`):
        X.last += n | X.last = X.last + n | X.last = n + X.last      -> false  (the code as it was)
        X.last = X.buffer.len()                                       -> true   (repair of finding F-T1)
    both loops must agree (the model has one flag, TransfacFault `fixed`); anything else is a
    parse error.  The flag selects the model the driver runs against the scripted (faulty)
    streams, and the theorems C15.reader_total_faults_current* are re-checked against it.
  * the string literals given to `starts_with(..)` in `new` (record terminator, version tag) and
    in `next` (terminator, twice), in source order; C15.gen_prefixes_are_modelled re-checks that
    they are the ones the model uses ("//", "VV").

and, from lightmotif/src/abc.rs (reader: translate/encode_abc.py) and transfac/parse.rs:

  * for the alphabets Dna and Protein: K and the arms of `from_ascii` of the symbol enum as
    (ASCII byte, discriminant = as_index) -- what `map_res(anychar, S::from_char)` of parse_alphabet
    accepts and the matrix column it selects (the trait default `from_char` must have the modelled body);
    C14.sym_index_is_generated / alpha_k_is_generated re-check the hand-written tables of
    TransfacParse.v (sym_index, alpha_k) against them;
  * the two-letter line codes accepted by `parse_tag` (the string patterns of its first match arm);
    C15.tags_are_generated re-checks TransfacParse.classify against them;
  * (wave 3) the F18 class -- error.rs turns nom's `Err::Incomplete` into `unreachable!()`, and only nom's
    *streaming* combinators (or code naming `Incomplete` / `Needed` itself) produce it: every path of
    transfac/parse.rs (outside `#[cfg(test)] mod`) with a segment `streaming` (`use` declarations with their
    groups expanded, and inline paths), as "<module>::streaming::<item>"; the functions in whose body the bare
    identifier `space1` occurs; whether `Incomplete` / `Needed` is named at all.  The model handles exactly one
    streaming combinator, `character::streaming::space1` in parse_alphabet (TransfacCur.parse_record_cur
    selects the streaming / complete model of space1 from these constants); C15.parse_streaming_is_modelled,
    C15.parsers_are_complete, C15.parser_total_current and C15.reader_total_current are re-checked against them.

Harmless reformatting (blanks, line breaks, comments) is tolerated.  A source that can no longer
be parsed gives dict(ok=False, errors=[...]) -- reported by the runner as a broken obligation --
and leaves the previous GenReader.v in place.  Nothing here is trusted for the property: the
differential check runs the model selected by the flag against the implementation.
"""
import os
import re

from translate import encode_abc as E

ParseError = E.ParseError
VERIF = E.VERIF
REL = "lightmotif-io/src/transfac/reader.rs"


def _repo():
    return os.environ.get("VERIF_REPO", "/repo").rstrip("/") or "/repo"


def _out():
    return os.environ.get("TRANSFAC_READER_OUT") or os.path.join(VERIF, "coq", "transfac", "GenReader.v")


def _last_updates(body, var, what):
    """the assignments to <var>.last inside the `Ok(n) => {..}` arm of the read_line loop"""
    w = r"\s*"
    v = re.escape(var)
    out = []
    for m in re.finditer(r"\b%s%s\.%slast%s(\+=|=(?!=))%s([^;]*);" % (v, w, w, w, w), body):
        op, rhs = m.group(1), re.sub(r"\s+", "", m.group(2))
        out.append((op, rhs, m.start()))
    if not out:
        raise ParseError("%s: no assignment to %s.last" % (what, var))
    return out


def _classify(op, rhs, var, n, what):
    if op == "+=" and rhs == n:
        return False
    if op == "=" and rhs in ("%s.last+%s" % (var, n), "%s+%s.last" % (n, var)):
        return False
    if op == "=" and rhs == "%s.buffer.len()" % var:
        return True
    if op == "=" and rhs == "0":
        return None   # the reset after a record / the version header
    raise ParseError("%s: unmodelled update `%s.last %s %s`" % (what, var, op, rhs))


def _loop_flag(body, var, what):
    # the `match <var>.bufread.read_line(..) { .. }` block and the length bound by its Ok arm
    # (the name of the variable holding the reader is taken from the source)
    m = re.search(r"\bmatch\s+([A-Za-z_][A-Za-z0-9_]*)\s*\.\s*bufread\s*\.\s*read_line\s*\(", body)
    if not m:
        raise ParseError("%s: no `match <reader>.bufread.read_line(..)`" % what)
    var = m.group(1)
    brace = body.find("{", m.end())
    if brace < 0:
        raise ParseError("%s: read_line match without block" % what)
    block, _ = E.block_after(body, brace)
    ns = re.findall(r"\bOk\s*\(\s*([A-Za-z_][A-Za-z0-9_]*)\s*\)\s*=>", block)
    if len(ns) != 1:
        raise ParseError("%s: expected one `Ok(n) =>` arm of read_line, found %d" % (what, len(ns)))
    n = ns[0]
    flags = []
    for op, rhs, _ in _last_updates(body, var, what):
        c = _classify(op, rhs, var, n, what)
        if c is not None:
            flags.append(c)
    if len(flags) != 1:
        raise ParseError("%s: expected exactly one advance of %s.last, found %d" % (what, var, len(flags)))
    return flags[0]


def _prefixes(body, what):
    out = []
    for m in re.finditer(r"\.\s*starts_with\s*\(\s*(\"(?:[^\"\\]|\\.)*\")\s*\)", body):
        out.append(E.str_literal(m.group(1)))
    if not out:
        raise ParseError("%s: no starts_with(\"..\")" % what)
    return out


ABC_REL = "lightmotif/src/abc.rs"
PARSE_REL = "lightmotif-io/src/transfac/parse.rs"


def parse_tags(src):
    body = E.find_fn(src, "parse_tag", PARSE_REL)
    if body is None:
        raise ParseError("parse.rs: fn parse_tag has no body")
    m = re.search(r"\bmatch\s+tag\s*\{", body)
    if not m:
        raise ParseError("parse_tag: no `match tag {`")
    block, _ = E.block_after(body, m.end() - 1)
    arms = E.split_arms(block)
    if len(arms) != 2:
        raise ParseError("parse_tag: expected two arms (codes, catch-all), found %d" % len(arms))
    (pat, expr), (pat2, expr2) = arms
    # (how the two characters are split off and what the arms return is left to the differential check)
    if not E.norm(expr).startswith("Ok(") or pat2.strip() != "_" or not E.norm(expr2).startswith("Err("):
        raise ParseError("parse_tag: unmodelled arm bodies %r / %r => %r" % (expr, pat2, expr2))
    tags = []
    for alt in pat.split("|"):
        t = E.str_literal(alt)
        if len(t) != 2:
            raise ParseError("parse_tag: code %r is not two bytes" % alt)
        tags.append(t)
    return tags


def _blank_literals(src):
    """string and char literals replaced by blanks of the same kind (the source has no comments any more)"""
    out = []
    i, n = 0, len(src)
    while i < n:
        c = src[i]
        if c == '"':
            j = i + 1
            while j < n and src[j] != '"':
                j += 2 if src[j] == "\\" else 1
            out.append('""')
            i = j + 1
        elif c == "'":
            m = re.match(r"'(\\x[0-9a-fA-F]{2}|\\u\{[0-9a-fA-F]+\}|\\.|[^\\'])'", src[i:])
            if m:
                out.append("' '")
                i += len(m.group(0))
            else:
                out.append(c)
                i += 1
        else:
            out.append(c)
            i += 1
    return "".join(out)


def _drop_test_mods(src):
    while True:
        m = re.search(r"#\s*\[\s*cfg\s*\(\s*test\s*\)\s*\]\s*(?:pub\s+)?mod\s+\w+\s*\{", src)
        if not m:
            return src
        _, end = E.block_after(src, m.end() - 1)
        src = src[:m.start()] + src[end:]


def _expand_use(tree):
    """`a::b::{c, d::e as f, g::*}` -> ['a::b::c', 'a::b::d::e', 'a::b::g::*'] (aliases dropped)"""
    tree = tree.strip()
    if not tree:
        return []
    # split at top-level commas
    parts, depth, cur = [], 0, ""
    for ch in tree:
        if ch == "{":
            depth += 1
        elif ch == "}":
            depth -= 1
        if ch == "," and depth == 0:
            parts.append(cur)
            cur = ""
        else:
            cur += ch
    parts.append(cur)
    if len(parts) > 1:
        out = []
        for q in parts:
            out.extend(_expand_use(q))
        return out
    t = parts[0].strip()
    b = t.find("{")
    if b < 0:
        t = re.sub(r"\s+as\s+\w+\s*$", "", t)
        return [re.sub(r"\s+", "", t)]
    if not t.endswith("}"):
        raise ParseError("use declaration: cannot read `%s`" % t)
    prefix = re.sub(r"\s+", "", t[:b])
    return [prefix + x for x in _expand_use(t[b + 1:-1])]


def _streaming_name(path):
    segs = [x for x in path.split("::") if x]
    if "streaming" not in segs:
        return None
    k = segs.index("streaming")
    return "::".join(segs[max(0, k - 1):])


def parse_streaming(src):
    """src: parse.rs without comments.  -> (streaming paths, fns using bare `space1`, names Incomplete/Needed?)"""
    text = _drop_test_mods(_blank_literals(src))
    found = []
    def add(pth):
        nm = _streaming_name(pth)
        if nm is not None and nm not in found:
            found.append(nm)
    rest = text
    for m in re.finditer(r"\buse\s+([^;]*);", text):
        for pth in _expand_use(m.group(1)):
            add(pth)
    rest = re.sub(r"\buse\s+[^;]*;", " ", text)
    for m in re.finditer(r"[A-Za-z_]\w*(?:\s*::\s*(?:[A-Za-z_]\w*|\*))+", rest):
        add(re.sub(r"\s+", "", m.group(0)))
    if re.search(r"\bstreaming\b", re.sub(r"[A-Za-z_]\w*(?:\s*::\s*(?:[A-Za-z_]\w*|\*))+", " ", rest)):
        add("streaming")           # the bare word somewhere else (macro, alias): not understood = not modelled
    users = []
    for m in re.finditer(r"\bfn\s+([A-Za-z_]\w*)", rest):
        name = m.group(1)
        brace = rest.find("{", m.end())
        semi = rest.find(";", m.end())
        if brace < 0 or (0 <= semi < brace):
            continue
        body, _ = E.block_after(rest, brace)
        if re.search(r"(?<![\w:])space1\b", body) and name not in users:
            users.append(name)
    mentions = bool(re.search(r"\b(Incomplete|Needed)\b", rest))
    return found, users, mentions


ERROR_REL = "lightmotif-io/src/error.rs"


def parse_error_incomplete(src):
    """error.rs, `impl From<nom::Err<..>> for Error`: does the arm for `Incomplete` panic?  (the model: error_from
    PIncomplete = Panic 3).  src without comments.  True = unreachable!/panic!/unimplemented!/todo!, False = anything else."""
    m = re.search(r"\bimpl\b[^{;]*\bFrom\s*<\s*(?:nom\s*::\s*)?Err\s*<[^{;]*\bfor\s+Error\s*\{", src)
    if not m:
        raise ParseError("error.rs: no `impl From<nom::Err<..>> for Error`")
    body, _ = E.block_after(src, m.end() - 1)
    mm = re.search(r"\bmatch\s+\w+\s*\{", body)
    if not mm:
        raise ParseError("error.rs: From<nom::Err>::from without a match")
    block, _ = E.block_after(body, mm.end() - 1)
    arms = E.split_arms(block)
    inc = [(p_, e_) for p_, e_ in arms if re.search(r"\bIncomplete\b", p_)]
    if not inc:
        # no arm names it: the catch-all arm (`_` or a lone binder) decides
        inc = [(p_, e_) for p_, e_ in arms if re.match(r"^\s*(_|[a-z_]\w*)\s*$", p_)]
    if len(inc) != 1:
        raise ParseError("error.rs: expected one arm for Incomplete (named or catch-all), found %d" % len(inc))
    expr = inc[0][1].strip()
    if expr.startswith("{"):        # a braced arm (split_arms keeps what follows a block without a comma)
        expr, _ = E.block_after(expr, 0)
    expr = E.norm(expr).rstrip(";")
    return bool(re.match(r"^(unreachable|panic|unimplemented|todo)\s*!\s*[\(\[\{]", expr))


def parse_abc(src):
    out = {}
    errors = list(E.check_trait_defaults(src))
    for name in ("Dna", "Protein"):
        a, errs = E.parse_alphabet(src, name)
        errors.extend(errs)
        out[name] = dict(K=a["K"], from_ascii=a["from_ascii"])
    errors = [e for e in errors if "from_char" in e or "as_index" in e or "from_ascii" in e]
    if errors:
        raise ParseError("; ".join(errors))
    return out


def parse(src):
    new = E.find_fn(src, "new", REL)
    nxt = E.find_fn(src, "next", REL)
    if new is None or nxt is None:
        raise ParseError("%s: fn new / fn next without body" % REL)
    f_new = _loop_flag(new, "reader", "Reader::new")
    f_next = _loop_flag(nxt, "self", "Iterator::next")
    if f_new != f_next:
        raise ParseError("Reader::new and Iterator::next advance `last` differently (new: %s, next: %s): "
                         "the model has one flag" % (f_new, f_next))
    return dict(fixed=f_new, new_prefixes=_prefixes(new, "Reader::new"), next_prefixes=_prefixes(nxt, "Iterator::next"))


def _coq_str(s):
    if isinstance(s, str):
        s = s.encode()
    return "[" + "; ".join("x%02x" % b for b in s) + "]"


def _pairs(l):
    return "[" + "; ".join("(x%02x, %d)" % (b, v) for b, v in l) + "]"


def emit(r):
    abc = r["abc"]
    return (
        "(* GENERATED by translate/transfac_reader.py from %s on every run of ./check C14 / C15 -- do not edit.\n"
        "   reader_last_is_buffer_len: false = `last += n` (the code as it was), true = `last = buffer.len()`\n"
        "   (repair of finding F-T1), in the loops of Reader::new and Iterator::next;\n"
        "   gen_*_prefixes: the literals given to starts_with(..) in those functions, in source order. *)\n"
        "From Coq Require Import List.\n"
        "From Coq Require Import Init.Byte.\n"
        "Import ListNotations.\n\n"
        "Definition reader_last_is_buffer_len : bool := %s.\n"
        "Definition gen_new_prefixes : list (list byte) := [%s].\n"
        "Definition gen_next_prefixes : list (list byte) := [%s].\n"
        "(* lightmotif/src/abc.rs: K and the arms of from_ascii as (byte, as_index) *)\n"
        "Definition gen_k_dna : nat := %d.\n"
        "Definition gen_from_ascii_dna : list (byte * nat) := %s.\n"
        "Definition gen_k_protein : nat := %d.\n"
        "Definition gen_from_ascii_protein : list (byte * nat) := %s.\n"
        "(* transfac/parse.rs parse_tag: the accepted line codes, in source order *)\n"
        "Definition gen_tags : list (list byte) := [%s].\n"
        "(* transfac/parse.rs outside #[cfg(test)]: paths with a segment `streaming` (\"<module>::streaming::<item>\"),\n"
        "   the functions naming the bare identifier space1, and whether Incomplete / Needed is named *)\n"
        "Definition gen_parse_streaming : list (list byte) := [%s].\n"
        "Definition gen_parse_space1_users : list (list byte) := [%s].\n"
        "Definition gen_parse_mentions_incomplete : bool := %s.\n"
        "(* error.rs, impl From<nom::Err<..>> for Error: the arm for Incomplete panics (unreachable!() ..) *)\n"
        "Definition gen_error_incomplete_panics : bool := %s.\n"
        % (REL, "true" if r["fixed"] else "false",
           "; ".join(_coq_str(p) for p in r["new_prefixes"]),
           "; ".join(_coq_str(p) for p in r["next_prefixes"]),
           abc["Dna"]["K"], _pairs(abc["Dna"]["from_ascii"]),
           abc["Protein"]["K"], _pairs(abc["Protein"]["from_ascii"]),
           "; ".join(_coq_str(bytes(t)) for t in r["tags"]),
           "; ".join(_coq_str(t) for t in r["streaming"][0]),
           "; ".join(_coq_str(t) for t in r["streaming"][1]),
           "true" if r["streaming"][2] else "false",
           "true" if r["incomplete_panics"] else "false"))


def translate():
    path = os.path.join(_repo(), REL)
    try:
        src = E.strip_comments(open(path).read())
        r = parse(src)
        r["abc"] = parse_abc(E.strip_comments(open(os.path.join(_repo(), ABC_REL)).read()))
        psrc = E.strip_comments(open(os.path.join(_repo(), PARSE_REL)).read())
        r["tags"] = parse_tags(psrc)
        r["streaming"] = parse_streaming(psrc)
        r["incomplete_panics"] = parse_error_incomplete(E.strip_comments(open(os.path.join(_repo(), ERROR_REL)).read()))
    except (ParseError, OSError, ValueError, IndexError, KeyError) as e:
        return dict(ok=False, errors=["transfac_reader: cannot parse (%s | %s | %s): %s" % (REL, PARSE_REL, ABC_REL, e)], notes=[])
    text = emit(r)
    out = _out()
    try:
        old = open(out).read()
    except OSError:
        old = None
    if old != text:
        with open(out, "w") as f:
            f.write(text)
    return dict(ok=True, notes=["transfac_reader: last advance = %s; prefixes new=%r next=%r; K=%d/%d; %d line codes" % (
        "buffer.len()" if r["fixed"] else "+= n", r["new_prefixes"], r["next_prefixes"],
        r["abc"]["Dna"]["K"], r["abc"]["Protein"]["K"], len(r["tags"]))
        + "; parse.rs streaming paths=%r, space1 in %r, names Incomplete/Needed=%s" % tuple(r["streaming"])
        + "; error.rs Incomplete arm panics=%s" % r["incomplete_panics"]])


if __name__ == "__main__":
    import sys
    print(translate())
    sys.stdout.write(open(_out()).read())
